#!/bin/sh
# usage: run.sh <worktree>      (expects <worktree>/_build to be built)
# An annulus whose inner radius equals its outer radius cannot be divided into the requested 8 radial cell layers.  The chunk grid
# refuses such a shell ("The inner radius must be less than the outer radius.").  Prints FAIL / exits 1 when gwb-grid accepts the
# zero-thickness annulus (exit 0, a mesh without the requested cells) instead of refusing it.
WT=${1:?usage: run.sh <worktree path>}
HERE=$(cd "$(dirname "$0")" && pwd)
TMP=$(mktemp -d)
cp "$HERE/world.wb" "$TMP/a.wb"; cp "$HERE/zero_thickness_annulus.grid" "$TMP/a.grid"
( cd "$TMP" && "$WT/_build/bin/gwb-grid" a.wb a.grid -j 1 > a.log 2>&1 ); rc=$?
if grep -q "inner radius must be less" "$TMP/a.log"; then echo "refused: The inner radius must be less than the outer radius."; rm -rf "$TMP"; echo PASS; exit 0; fi
cells=$(grep -o 'NumberOfCells="[0-9]*"' "$TMP/a.vtu" 2>/dev/null | head -1)
echo "accepted: exit $rc, $cells (8 radial layers were requested)"
rm -rf "$TMP"; echo FAIL; exit 1
