#include "world_builder/world.h"
#include <cmath>
#include <cstdio>
#include <iostream>
using namespace WorldBuilder;
int main(int argc, char**argv) {
  World w(argv[1]);
  const double R = 6371000.0, PI = 3.14159265358979323846;
  int bad = 0;
  for (double latd : {41.0, 43.0, 45.0, 47.0}) {
    for (double depth : {20e3, 50e3, 100e3}) {
      double d[3][2];
      int k = 0;
      for (double lond : {0.0, 1e-7, -1e-7}) {
        const double lon = lond*PI/180, lat = latd*PI/180, r = R - depth;
        std::array<double,3> p = {r*std::cos(lat)*std::cos(lon), r*std::cos(lat)*std::sin(lon), r*std::sin(lat)};
        auto pd = w.distance_to_plane(p, depth, "slab");
        d[k][0] = pd.get_distance_from_surface(); d[k][1] = pd.get_distance_along_surface(); ++k;
      }
      const double jump = std::fabs(d[0][0] - 0.5*(d[1][0]+d[2][0]));
      std::printf("lat %.0f depth %6.0f: exactly below trench: from=%12.3f along=%12.3f | +1e-7deg: %12.3f %12.3f | -1e-7deg: %12.3f %12.3f  jump=%.3f\n", latd, depth, d[0][0], d[0][1], d[1][0], d[1][1], d[2][0], d[2][1], jump);
      if (!(jump < 1e-3*depth)) ++bad;   // 0.1% of the depth; the defect gave 16%
    }
  }
  std::cout << (bad ? "FAIL" : "PASS") << std::endl;
  return bad ? 1 : 0;
}
