#!/bin/sh
# usage: run.sh <worktree>      (expects <worktree>/_build to be built)
# Prints FAIL / exits 1 when the distance from the slab surface of a point exactly below a spherical trench line
# differs from that of its neighbours 1e-7 degrees east and west by more than 0.1% of the depth.
set -e
WT=${1:?usage: run.sh <worktree path>}
HERE=$(cd "$(dirname "$0")" && pwd)
g++ -std=c++14 -O1 -DNDEBUG -I $WT/include -I $WT/_build/include "$HERE/demo.cc" "$WT/_build/lib/libWorldBuilder.a" -o "$HERE/demo"
"$HERE/demo" "$HERE/world.wb"
