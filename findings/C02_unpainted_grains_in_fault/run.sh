#!/bin/sh
# usage: run.sh <worktree>      (expects <worktree>/_build to be built)
# Prints FAIL / exits 1 when the grains inside a fault that has no grains models differ from the grains next to it.
set -e
WT=${1:?usage: run.sh <worktree path>}
HERE=$(cd "$(dirname "$0")" && pwd)
g++ -std=c++14 -O1 -DNDEBUG -I $WT/include -I $WT/_build/include "$HERE/demo.cc" "$WT/_build/lib/libWorldBuilder.a" -o "$HERE/demo"
"$HERE/demo" "$HERE/world_unpainted.wb"
