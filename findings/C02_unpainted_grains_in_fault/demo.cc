#include "world_builder/world.h"
#include <cmath>
#include <cstdio>
#include <iostream>
using namespace WorldBuilder;
int main(int argc, char**argv) {
  World w(argv[1]);
  int bad = 0;
  for (double x : {-3e5, 0.0, 2e4}) {
    std::array<double,3> p = {x, 0.0, 950e3};
    // temperature + grains of composition 0 (2 grains)
    std::vector<double> r = w.properties(p, 50e3, {{{1,0,0}},{{3,0,2}}});
    std::printf("x=%9.0f T=%7.1f grains:", x, r[0]);
    for (size_t i = 1; i < r.size(); ++i) std::printf(" %g", r[i]);
    std::printf("\n");
  }
  // outside the fault the plate's grains are (0.25, R); inside the fault (which has no grains models) they must be the same
  std::vector<double> out = w.properties({-3e5,0,950e3}, 50e3, {{{3,0,2}}});
  std::vector<double> in = w.properties({2e4,0,950e3}, 50e3, {{{3,0,2}}});
  for (size_t i = 0; i < out.size(); ++i) if (out[i] != in[i]) { ++bad; }
  std::cout << bad << " of " << out.size() << " grain values differ between a point of the plate outside the fault and one inside the fault (no grains models in the fault)" << std::endl;
  std::cout << (bad ? "FAIL" : "PASS") << std::endl;
  return bad ? 1 : 0;
}
