#!/bin/sh
# usage: run.sh <worktree>      (expects <worktree>/_build to be built)
# gwb-grid states that a chunk must have its maximum latitude <= 90 degrees and a longitude span <= 360 degrees.
# Prints FAIL / exits 1 when it accepts a chunk that reaches latitude 120 or spans 600 degrees of longitude (and writes a mesh that
# folds over the pole / overlaps itself) instead of refusing it.
WT=${1:?usage: run.sh <worktree path>}
HERE=$(cd "$(dirname "$0")" && pwd)
TMP=$(mktemp -d)
bad=0
for g in lat_above_pole wider_than_globe; do
  cp "$HERE/world.wb" "$TMP/$g.wb"; cp "$HERE/$g.grid" "$TMP/$g.grid"
  ( cd "$TMP" && "$WT/_build/bin/gwb-grid" $g.wb $g.grid -j 1 > $g.log 2>&1 ); rc=$?
  if [ -f "$TMP/$g.vtu" ] && ! grep -q "AssertThrow" "$TMP/$g.log"; then
    echo "$g: accepted (exit $rc), wrote $(grep -c . "$TMP/$g.vtu") lines of VTU"; bad=$((bad+1))
  else
    echo "$g: refused: $(grep -o 'The [a-z ]*must be[^.]*' "$TMP/$g.log" | head -1)"
  fi
done
rm -rf "$TMP"
if [ $bad -gt 0 ]; then echo "FAIL: $bad invalid chunks accepted"; exit 1; fi
echo PASS
