#!/bin/sh
# usage: run.sh <worktree>      (expects <worktree>/_build to be built)
# Prints FAIL / exits 1 when a point that satisfies the slab's membership definition (World::distance_to_plane: distance from
# the surface within the thickness, distance along it within the length) is not painted by World::temperature.
set -e
WT=${1:?usage: run.sh <worktree path>}
HERE=$(cd "$(dirname "$0")" && pwd)
g++ -std=c++14 -O1 -DNDEBUG -I $WT/include -I $WT/_build/include "$HERE/demo.cc" "$WT/_build/lib/libWorldBuilder.a" -o "$HERE/demo"
"$HERE/demo" "$HERE/world.wb"
