#include "world_builder/world.h"
#include <cmath>
#include <cstdio>
#include <iostream>
using namespace WorldBuilder;
int main(int argc, char**argv) {
  World w(argv[1]);
  const double R = 6371000.0, PI = 3.14159265358979323846;
  int bad = 0, inside = 0;
  for (double latd : {80.0, 83.0, 83.9}) {
    for (double westkm : {300.0, 340.0, 355.0}) {
      // a point `westkm` west of the trench (measured along the parallel), at the depth of the slab centre there
      const double lat = latd*PI/180;
      const double lon = -(westkm*1e3)/(R*std::cos(lat));
      const double depth = westkm*1e3*std::tan(20*PI/180) + 40e3;
      const double r = R - depth;
      std::array<double,3> p = {r*std::cos(lat)*std::cos(lon), r*std::cos(lat)*std::sin(lon), r*std::sin(lat)};
      auto pd = w.distance_to_plane(p, depth, "slab");
      const double from = pd.get_distance_from_surface(), along = pd.get_distance_along_surface();
      const bool member = from >= 0 && from <= 100e3 && along >= 0 && along <= 400e3;    // the slab's membership definition
      const double T = w.temperature(p, depth);
      const bool painted = std::fabs(T - 600) < 1e-6;
      std::printf("lat %5.1f lon %8.3f deg depth %6.0f km: from=%9.1f along=%9.1f member=%d  T=%8.2f painted=%d %s\n", latd, lon*180/PI, depth/1e3, from, along, member, T, painted, (member && !painted) ? "<-- inside the slab but not painted" : "");
      if (member) ++inside;
      if (member && !painted) ++bad;
    }
  }
  std::cout << inside << " points satisfy the membership definition, " << bad << " of them are not painted" << std::endl;
  std::cout << (bad ? "FAIL" : "PASS") << std::endl;
  return bad ? 1 : 0;
}
