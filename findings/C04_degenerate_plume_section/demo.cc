// A plume whose deepest cross section has semi-major axis 0 tapers to a point at 300 km and is "continued unchanged" below it:
// from 300 km to its max depth (400 km) the ellipse is the single centre point.  Points 1000 km away from the centre must be
// outside at every depth.
#include "world_builder/world.h"
#include <cstdio>
#include <string>
int main(int argc, char **argv)
{
  WorldBuilder::World world(argv[1]);
  int bad = 0;
  for (double depth : {100e3, 250e3, 299e3, 300e3, 350e3, 400e3})
    for (double x : {1000e3, -500e3, 200e3})
      {
        const std::array<double,3> p = {{x, 300e3, 1000e3 - depth}};
        const double c = world.composition(p, depth, 0);
        const int tag = static_cast<int>(world.properties(p, depth, {{{4,0,0}}})[0]);
        const bool inside = c != 0. || tag != -1;
        std::printf("depth %6.0f km, x = %7.0f km: composition %g tag %d%s\n", depth/1e3, x/1e3, c, tag, inside ? "   <-- inside the plume" : "");
        if (inside) ++bad;
      }
  if (bad) { std::printf("FAIL: %d points far from the plume axis are reported inside the plume\n", bad); return 1; }
  std::printf("PASS\n");
  return 0;
}
