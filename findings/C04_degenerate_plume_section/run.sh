#!/bin/sh
# usage: run.sh <worktree>      (expects <worktree>/_build to be built)
# Prints FAIL / exits 1 when points 200-1000 km away from the axis of a plume that tapers to a zero semi-major axis are reported
# inside the plume.
set -e
WT=${1:?usage: run.sh <worktree path>}
HERE=$(cd "$(dirname "$0")" && pwd)
g++ -std=c++14 -O1 -DNDEBUG -I $WT/include -I $WT/_build/include "$HERE/demo.cc" "$WT/_build/lib/libWorldBuilder.a" -o "$HERE/demo"
"$HERE/demo" "$HERE/world.wb"
