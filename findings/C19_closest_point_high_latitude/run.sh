#!/bin/sh
# usage: run.sh <worktree>      (expects <worktree>/_build to be built)
# Prints FAIL / exits 1 when, for an oblique trench in spherical coordinates, BezierCurve::closest_point_on_curve_segment reports a
# point that is more than 1% farther (great-circle distance) from the check point than the nearest curve point found by brute force.
set -e
WT=${1:?usage: run.sh <worktree path>}
HERE=$(cd "$(dirname "$0")" && pwd)
g++ -std=c++14 -O1 -DNDEBUG -I $WT/include -I $WT/_build/include "$HERE/demo.cc" "$WT/_build/lib/libWorldBuilder.a" -o "$HERE/demo"
"$HERE/demo"
