// closest point on a spherical trench curve: reported point versus brute force in great-circle distance
#include "world_builder/objects/bezier_curve.h"
#include "world_builder/point.h"
#include <cmath>
#include <cstdio>
#include <vector>
using namespace WorldBuilder;
static double gc(double lon1,double lat1,double lon2,double lat2){
  const double h = std::pow(std::sin((lat2-lat1)*0.5),2)+std::cos(lat1)*std::cos(lat2)*std::pow(std::sin((lon2-lon1)*0.5),2);
  return 2*std::asin(std::sqrt(h));
}
int main(){
  const double d2r = M_PI/180.;
  int bad=0;
  for (double lat0 : {0., 30., 60., 75.}) {
    // an oblique, nearly straight trench (bends far below 60 degrees)
    std::vector<Point<2>> pts;
    pts.emplace_back(10*d2r,(lat0-4)*d2r,CoordinateSystem::spherical);
    pts.emplace_back(14*d2r,(lat0)*d2r,CoordinateSystem::spherical);
    pts.emplace_back(18*d2r,(lat0+4)*d2r,CoordinateSystem::spherical);
    Objects::BezierCurve curve(pts);
    const Point<2> q(17*d2r,(lat0-1)*d2r,CoordinateSystem::spherical);
    const Objects::ClosestPointOnCurve r = curve.closest_point_on_curve_segment(q);
    const double d_rep = gc(q[0],q[1],r.point[0],r.point[1]);
    double best=1e300, bi=0, bt=0;
    for (size_t i=0;i<2;++i) for (int k=0;k<=200000;++k){ const double t=k/200000.; const Point<2> p=curve(i,t); const double d=gc(q[0],q[1],p[0],p[1]); if(d<best){best=d;bi=i;bt=t;} }
    std::printf("lat %4.0f: reported segment %zu t=%.5f  great-circle distance %.6f deg | brute force segment %.0f t=%.5f distance %.6f deg | ratio %.4f\n",
                lat0, r.index, r.parametric_fraction, d_rep/d2r, bi, bt, best/d2r, d_rep/best);
    if (d_rep > 1.01*best) bad++;
  }
  if (bad) { std::printf("FAIL: %d trenches where another curve point is more than 1%% closer than the reported closest point\n", bad); return 1; }
  std::printf("PASS\n"); return 0;
}
