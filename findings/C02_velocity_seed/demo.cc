#include "world_builder/world.h"
#include <iostream>
int main(){
  WorldBuilder::World w("w.wb");
  std::array<double,3> p={{100e3,0,0}};
  for(double depth: {50e3, 100e3, 130e3}){
    auto v = w.properties(p, depth, {{{5,0,0}},{{1,0,0}}});
    std::cout << depth << " v=" << v[0] << " " << v[1] << " " << v[2] << " T=" << v[3] << std::endl;
  }
  p={{-300e3,0,0}};
  auto v = w.properties(p, 50e3, {{{5,0,0}},{{1,0,0}}});
  std::cout << "outside slab v=" << v[0] << " " << v[1] << " " << v[2] << " T=" << v[3] << std::endl;
}
