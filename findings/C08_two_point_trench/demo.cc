// Existing C08 failure on the UNCHANGED tree, no source change involved.
//
// A spherical world with a subducting plate whose trench is a straight line
// given by TWO points, and the same world with -180 degrees added to every
// longitude (trench coordinates and dip point), so that the trench lies at
// longitude -181 .. -182, i.e. across the -180 meridian, written with
// longitudes below -180 (allowed: the documented range is [-360,360]).
//
//   world_A.wb : trench [[-1,-10],[-2,10]],     dip point [-20,0]
//   world_B.wb : trench [[-181,-10],[-182,10]], dip point [-200,0]
//
// Corresponding query points (lon, lat, depth) in A and (lon-180, lat, depth)
// in B must give the same temperature / composition / tag. They do not: every
// point of B whose longitude is below -180 (natural longitude from atan2 is
// then positive, i.e. on the other 2*pi sheet than the stored trench
// longitudes) loses the slab.
//
// Part 2 calls Objects::BezierCurve::closest_point_on_curve_segment directly
// and replays the arithmetic of its start value to show where the root is lost.
//
// usage: demo world_A.wb world_B.wb
#include "world_builder/world.h"
#include "world_builder/objects/bezier_curve.h"
#include "world_builder/point.h"

#include <array>
#include <cmath>
#include <iomanip>
#include <iostream>
#include <vector>

using namespace WorldBuilder;

namespace
{
  const double R = 6371000.;
  const double deg = M_PI/180.;

  std::array<double,3> xyz(const double lon_deg, const double lat_deg, const double depth)
  {
    const double r = R - depth;
    return {{r*std::cos(lat_deg*deg)*std::cos(lon_deg*deg),
             r*std::cos(lat_deg*deg)*std::sin(lon_deg*deg),
             r*std::sin(lat_deg*deg)}};
  }
}

int main(int argc, char **argv)
{
  if (argc != 3)
    {
      std::cerr << "usage: demo world_A.wb world_B.wb" << std::endl;
      return 2;
    }
  const double offset = -180.;
  World world_a(argv[1]);
  World world_b(argv[2]);

  const std::vector<std::array<unsigned int,3>> properties = {{{1,0,0}},{{2,0,0}},{{4,0,0}}};

  std::cout << "Part 1: world A at (lon,lat,depth) against world B at (lon-180,lat,depth)" << std::endl;
  std::cout << "   lon_A   lon_B  natural_lon_B  lat   depth |      T_A      T_B | c0_A c0_B | tag_A tag_B | dist_from_plane_A dist_from_plane_B" << std::endl;
  unsigned int n_points = 0, n_in_slab = 0, n_bad = 0;
  for (double lon = -5.; lon <= 1.001; lon += 0.5)
    for (double lat = -6.; lat <= 6.001; lat += 4.)
      for (double depth = 60e3; depth <= 210e3; depth += 75e3)
        {
          const std::vector<double> a = world_a.properties(xyz(lon,lat,depth), depth, properties);
          const std::vector<double> b = world_b.properties(xyz(lon+offset,lat,depth), depth, properties);
          const double da = world_a.distance_to_plane(xyz(lon,lat,depth), depth, "slab").get_distance_from_surface();
          const double db = world_b.distance_to_plane(xyz(lon+offset,lat,depth), depth, "slab").get_distance_from_surface();
          ++n_points;
          if (a[2] >= 0)
            ++n_in_slab;
          bool bad = false;
          for (unsigned int i = 0; i < a.size(); ++i)
            if (std::fabs(a[i]-b[i]) > 1e-6*std::max(1.,std::fabs(a[i])))
              bad = true;
          if (bad)
            {
              const std::array<double,3> pb = xyz(lon+offset,lat,depth);
              std::cout << std::setw(8) << lon << std::setw(8) << lon+offset << std::setw(15) << std::atan2(pb[1],pb[0])/deg
                        << std::setw(5) << lat << std::setw(8) << depth << " |"
                        << std::setw(9) << a[0] << std::setw(9) << b[0] << " |"
                        << std::setw(5) << a[1] << std::setw(5) << b[1] << " |"
                        << std::setw(6) << a[2] << std::setw(6) << b[2] << " |"
                        << std::setw(18) << da << std::setw(18) << db << std::endl;
              ++n_bad;
            }
        }
  std::cout << n_points << " points, " << n_in_slab << " inside the slab in world A, "
            << n_bad << " differ after the longitude offset" << std::endl << std::endl;

  std::cout << "Part 2: BezierCurve::closest_point_on_curve_segment on the two-point trench" << std::endl;
  for (const double off : {0., -180.})
    {
      const std::vector<Point<2> > pts = {Point<2>((-1+off)*deg,-10*deg,spherical), Point<2>((-2+off)*deg,10*deg,spherical)};
      const Objects::BezierCurve curve(pts);
      for (const double lon : {-3.5, -0.5, 0.0})
        {
          double natural = lon+off;
          if (natural < -180)
            natural += 360; // what atan2 returns for this point
          const Point<2> cp(natural*deg, 2*deg, spherical);
          const Objects::ClosestPointOnCurve r = curve.closest_point_on_curve_segment(cp);

          // replay of bezier_curve.cc:377-382 (start value) for segment 0
          const Point<2> P1P2 = pts[1]-pts[0];
          const Point<2> P1Pc = cp-pts[0];
          const double est0 = std::min(1.,std::max(0.,(P1Pc*P1P2)/(P1P2*P1P2)));
          // with two points control_points[0] = {p0,p0} (constructor line 43, the block at line 100 is skipped),
          // so a = p1-p0, b = c = 0 and d/dt B(t) = 3 a t^2
          const double deriv_long_at_est0 = 3.*P1P2[0]*est0*est0;
          const double deriv_lat_at_est0 = 3.*P1P2[1]*est0*est0;

          std::cout << "  trench longitudes " << -1+off << ".." << -2+off << ", query natural lon " << std::setw(6) << natural << " lat 2"
                    << ": unclamped start value " << std::setw(10) << (P1Pc*P1P2)/(P1P2*P1P2) << " -> est = " << est0
                    << ", dB/dt(est) = (" << deriv_long_at_est0 << "," << deriv_lat_at_est0 << ")"
                    << "  => returned parametric_fraction " << r.parametric_fraction
                    << ", point (" << r.point[0]/deg << "," << r.point[1]/deg << "), distance " << r.distance << std::endl;
        }
    }

  if (n_bad != 0)
    {
      std::cout << "FAIL (the unchanged tree violates C08 here)" << std::endl;
      return 1;
    }
  std::cout << "PASS" << std::endl;
  return 0;
}
