// Side check for NOTES.txt: which two-point trenches get stuck at est = 0?
// Calls BezierCurve::closest_point_on_curve_segment directly.
#include "world_builder/objects/bezier_curve.h"
#include "world_builder/point.h"
#include <cmath>
#include <iostream>
#include <vector>
using namespace WorldBuilder;
int main()
{
  const double deg=M_PI/180.;
  const std::vector<std::vector<Point<2> > > cases =
  {
    // same trench as world_B.wb, points listed in the opposite order
    {Point<2>(-182*deg,10*deg,spherical), Point<2>(-181*deg,-10*deg,spherical)},
    // trench leaning the other way
    {Point<2>(-182*deg,-10*deg,spherical), Point<2>(-181*deg,10*deg,spherical)},
    // trench stored on the positive sheet, query natural longitude negative
    {Point<2>(178*deg,-10*deg,spherical), Point<2>(179*deg,10*deg,spherical)},
    {Point<2>(179*deg,-10*deg,spherical), Point<2>(178*deg,10*deg,spherical)}
  };
  const double query_lon[4] = {176.5, 176.5, -177.0, -177.0};
  for (unsigned int i=0; i<cases.size(); ++i)
    {
      const Objects::BezierCurve curve(cases[i]);
      const Point<2> cp(query_lon[i]*deg, 2*deg, spherical);
      const Objects::ClosestPointOnCurve r = curve.closest_point_on_curve_segment(cp);
      const Point<2> v = cases[i][1]-cases[i][0];
      const Point<2> w = cp-cases[i][0];
      std::cout << "case " << i << ": trench (" << cases[i][0][0]/deg << "," << cases[i][0][1]/deg << ") -> ("
                << cases[i][1][0]/deg << "," << cases[i][1][1]/deg << "), query natural lon " << query_lon[i]
                << ": unclamped start value " << (w*v)/(v*v)
                << ", returned t " << r.parametric_fraction << ", point (" << r.point[0]/deg << "," << r.point[1]/deg << ")" << std::endl;
    }
  return 0;
}
