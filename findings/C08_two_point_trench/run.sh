#!/bin/sh
# usage: run.sh <worktree>      (expects <worktree>/_build to be built)
# Exits 1 and prints FAIL when the (unchanged) library violates C08 on this input.
set -e
WT=${1:?usage: run.sh <worktree path>}
HERE=$(cd "$(dirname "$0")" && pwd)
FLAGS="-std=c++14 -O1 -DNDEBUG -I $WT/include -I $WT/_build/include"
g++ $FLAGS "$HERE/orientation_check.cc" "$WT/_build/lib/libWorldBuilder.a" -o "$HERE/orientation_check"
g++ $FLAGS "$HERE/demo.cc" "$WT/_build/lib/libWorldBuilder.a" -o "$HERE/demo"
echo "Side check: which two-point trenches are affected (see NOTES.txt)"
"$HERE/orientation_check"
echo
"$HERE/demo" "$HERE/world_A.wb" "$HERE/world_B.wb"
