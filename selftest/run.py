#!/usr/bin/env python3
"""Self-test of the rule engine: apply each mutant / neutral edit of selftest/mutants.json to a
scratch copy of /repo's sources (outside /repo and /verif, removed afterwards), run the named
check against the copy (WB_REPO) and compare with the expectation.

  selftest/run.py [name-substring ...] [-j N] [--keep]

expect = "violation": exit 1 and the output must mention `mention`
expect = "silent":    exit 0 (neutral, behaviour-preserving edit)
expect = "broken":    exit 2
expect = "no-alarm":  exit 0 or 2, never a VIOLATION (bold behaviour-preserving rewrite)
expect = "known-false-alarm" / "miss": recorded limitations, never a failure
"""
import json
import os
import shutil
import subprocess
import sys
import tempfile
from concurrent.futures import ThreadPoolExecutor

HERE = os.path.dirname(os.path.abspath(__file__))
VERIF = os.path.dirname(HERE)
REPO = os.environ.get("WB_REPO", "/repo")


def make_copy(dst):
    os.makedirs(dst)
    for sub in ("source", "include"):
        shutil.copytree(os.path.join(REPO, sub), os.path.join(dst, sub))
    for f in ("VERSION", "CMakeLists.txt"):
        shutil.copy(os.path.join(REPO, f), os.path.join(dst, f))


def apply_edits(root, edits):
    for e in edits:
        p = os.path.join(root, e["file"])
        s = open(p).read()
        n = s.count(e["find"])
        want = e.get("count", 1)
        if n != want:
            return "edit does not apply to %s: %d matches of %r (want %d)" % (e["file"], n, e["find"][:60], want)
        s = s.replace(e["find"], e["replace"])
        open(p, "w").write(s)
    return None


def run_one(m, base, keep=False):
    d = os.path.join(base, m["name"])
    make_copy(d)
    try:
        if m.get("patch"):
            pp = subprocess.run(["patch", "-p1", "-s", "-i", os.path.join(VERIF, m["patch"])], cwd=d, stdout=subprocess.PIPE, stderr=subprocess.STDOUT, text=True)
            err = ("patch does not apply: " + pp.stdout[-300:]) if pp.returncode != 0 else None
        else:
            err = apply_edits(d, m["edits"])
        if err:
            return m, "SKIP", err
        results = []
        for pid in m["properties"]:
            env = dict(os.environ, WB_REPO=d, WB_SELFTEST="1")
            p = subprocess.run([os.path.join(VERIF, "check"), pid, "--tier", m.get("tier", "quick")], cwd=VERIF,
                               env=env, stdout=subprocess.PIPE, stderr=subprocess.STDOUT, text=True)
            out = p.stdout
            exp = m["expect"]
            ok = False
            if exp == "violation":
                ok = p.returncode == 1 and "VIOLATION property=%s" % pid in out
                if ok and m.get("mention"):
                    ok = m["mention"] in out
            elif exp == "silent":
                ok = p.returncode == 0 and "VIOLATION" not in out
            elif exp == "broken":
                ok = p.returncode == 2
            elif exp == "no-alarm":
                # a behaviour-preserving rewrite bold enough that a rule may decline (exit 2), but no check may report it
                ok = p.returncode in (0, 2) and "VIOLATION" not in out
            elif exp == "known-false-alarm":
                # recorded limitation (an edit to one of several sibling copies): never a failure, good news if it turns silent
                ok = True
            elif exp == "miss":
                # a documented limit of the technique: recorded, never a failure; it would be good news if it turned into a report
                ok = True
            results.append((pid, ok, p.returncode, out))
        bad = [r for r in results if not r[1]]
        if bad:
            return m, "FAIL", "\n".join("--- %s rc=%d\n%s" % (r[0], r[2], r[3][-3000:]) for r in bad)
        return m, "PASS", ""
    finally:
        if not keep:
            shutil.rmtree(d, ignore_errors=True)


def main():
    args = [a for a in sys.argv[1:] if not a.startswith("-")]
    keep = "--keep" in sys.argv
    jobs = 8
    if "-j" in sys.argv:
        jobs = int(sys.argv[sys.argv.index("-j") + 1])
        args = [a for a in args if a != str(jobs)]
    muts = json.load(open(os.path.join(HERE, "mutants.json")))
    for extra in ("seeds.json", "benign.json"):      # independently seeded breaking changes / behaviour-preserving refactorings
        ep = os.path.join(HERE, extra)
        if os.path.exists(ep):
            muts += json.load(open(ep))
    if args:
        muts = [m for m in muts if any(a in m["name"] or a in m["properties"] for a in args)]
    base = tempfile.mkdtemp(prefix="wb_selftest_")
    # evidence written by checks run against scratch copies must not clobber the real evidence
    os.environ["WB_EVIDENCE_DIR"] = os.path.join(base, "evidence")
    os.environ["WB_CACHE"] = os.path.join(base, "cache")
    npass = nfail = nskip = 0
    try:
        with ThreadPoolExecutor(max_workers=jobs) as ex:
            for m, status, info in ex.map(lambda mm: run_one(mm, base, keep), muts):
                print("%-5s %-44s %-14s expect=%s" % (status, m["name"], ",".join(m["properties"]), m["expect"]))
                if status == "FAIL":
                    nfail += 1
                    print(info)
                elif status == "SKIP":
                    nskip += 1
                    print("      " + info)
                else:
                    npass += 1
    finally:
        if not keep:
            shutil.rmtree(base, ignore_errors=True)
    print("selftest: %d pass, %d fail, %d skipped" % (npass, nfail, nskip))
    return 1 if nfail else 0


if __name__ == "__main__":
    sys.exit(main())
