"""Footprint rules for area features and plumes (C04) and longitude aliases (C08)."""
import re

import sympy as sp

from .. import astq, norm
from ..astq import sc
from ..tu import AnalysisBroken
from . import guard
from .expr import Block, eq

TWO_PI = 2 * sp.pi


def pi_hook(P):
    def hook(n):
        if n.get("k") == "DeclRefExpr" and P.d(n["r"]).get("qn") == "WorldBuilder::Consts::PI":
            return sp.pi
        return None
    return hook


def alias_wrappers(P, rep, rule="ALIAS.wrapper"):
    """in spherical coordinates the wrapper tries the point and the point shifted by 2*pi towards the other sign"""
    from .veceval import VecEval
    rep.rule(rule, "each longitude-alias wrapper (polygon_contains_point, BoundingBox::point_inside), evaluated symbolically on its paths: for a "
                   "non-spherical point it returns implementation(point); for a spherical point it returns implementation(point) || "
                   "implementation(alias), where the alias equals the point except for the longitude component (0 of a 2D surface point, 1 of a "
                   "3D natural point), which is L + 2*pi when L < 0 and L - 2*pi when L > 0; all other arguments are handed on unchanged")
    targets = [(F, "polygon_contains_point_implementation") for F in P.funcs_named("WorldBuilder::Utilities::polygon_contains_point")]
    for F in sorted(P.funcs.values(), key=lambda f: f.qn):
        if re.match(r"^WorldBuilder::BoundingBox<\d>::point_inside$", F.qn) and F.body is not None:
            targets.append((F, "point_inside_implementation"))
    n = 0
    for F, impl in targets:
        pk = [p_ for p_ in F.params if "Point<" in P.d(p_).get("t", "") and "vector" not in P.d(p_).get("t", "")]
        if len(pk) != 1:
            rep.unknown(rule, "%s: point parameter not identified" % F.qn)
            continue
        pk = pk[0]
        dim = int(P.d(pk)["t"].split("Point<")[1][0])
        label = F.qn + ("<%s>" % F.targs if F.targs else "")
        lon = 0 if dim == 2 else 1
        comps = sp.symbols("p0:%d" % dim, real=True)
        results = {}
        broken = None
        import itertools

        def is_impl(t):
            return getattr(getattr(t, "func", None), "__name__", "") == impl

        def truth(v, asg):
            """value of a returned expression under an assignment of truth values to the implementation calls"""
            if v in (sp.true, True):
                return True
            if v in (sp.false, False):
                return False
            if is_impl(v):
                return asg.get(v)
            nm_ = getattr(getattr(v, "func", None), "__name__", "")
            if nm_ in ("lor", "Or"):
                vals = [truth(x, asg) for x in v.args]
                return None if any(x is None for x in vals) else any(vals)
            if nm_ in ("land", "And"):
                vals = [truth(x, asg) for x in v.args]
                return None if any(x is None for x in vals) else all(vals)
            if isinstance(v, sp.Not):
                t_ = truth(v.args[0], asg)
                return None if t_ is None else (not t_)
            return None
        for spherical in (True, False):
            for neg in (True, False):
                if not spherical and not neg:
                    continue
                atoms = []
                table = {}
                restart = True
                rounds = 0
                while restart and broken is None:
                    restart = False
                    rounds += 1
                    if rounds > 8 or len(atoms) > 6:
                        broken = "too many undecided conditions on one path of the wrapper"
                        break
                    table = {}
                    for bits in itertools.product((False, True), repeat=len(atoms)):
                        asg = dict(zip(atoms, bits))
                        new_atom = []

                        def choose(cv, node, spherical=spherical, neg=neg, asg=asg, new_atom=new_atom):
                            fs = getattr(cv, "free_symbols", set())
                            if is_impl(cv):
                                if cv not in asg:
                                    new_atom.append(cv)
                                    return False
                                return asg[cv]
                            if any(str(x).startswith("coordinate_system_of_") for x in fs):
                                txt = str(cv)
                                is_eq, is_ne = isinstance(cv, sp.Eq), isinstance(cv, sp.Ne)
                                if not (is_eq or is_ne) or ("spherical" not in txt and "cartesian" not in txt):
                                    return None
                                t_ = spherical if "spherical" in txt else (not spherical)
                                return t_ if is_eq else (not t_)
                            if fs and fs <= set(comps):
                                # the longitude has the sign of this path, every other component the opposite one: a test on the wrong
                                # component takes the other branch
                                pt_ = {c_: ((-1 if neg else 1) if i_ == lon else (1 if neg else -1)) for i_, c_ in enumerate(comps)}
                                try:
                                    return bool(cv.subs(pt_))
                                except Exception:
                                    return None
                            # a condition on anything else (members, other arguments): the wrapper must be right whichever way it goes
                            if cv not in asg:
                                new_atom.append(cv)
                                return False
                            return asg[cv]
                        V = VecEval(P, F, env={pk: tuple(comps)}, choose=choose, opaque=lambda qn, impl=impl: qn.endswith(impl))
                        try:
                            val = V.run_function(astq.stmts_of(F.body))
                        except AnalysisBroken as e:
                            broken = str(e)
                            break
                        for a_ in ([x for x in val.atoms(sp.Function) if is_impl(x)] if val is not None and hasattr(val, "atoms") else []) + new_atom:
                            if a_ not in atoms:
                                atoms.append(a_)
                                restart = True
                        if restart:
                            break
                        table[bits] = truth(val, asg)
                results[(spherical, neg)] = (list(atoms), dict(table))
                if broken:
                    break
            if broken:
                break
        if broken:
            rep.unknown(rule, "%s: %s" % (label, broken))
            continue
        n += 1
        problems = []
        # non-spherical: the value of implementation(point, ...)
        def split(atoms, table):
            """implementation calls, and the table restricted to them if it does not depend on the other (foreign) conditions"""
            calls = [a_ for a_ in atoms if is_impl(a_)]
            idx = [i_ for i_, a_ in enumerate(atoms) if is_impl(a_)]
            out = {}
            consistent = True
            for bits, val in table.items():
                key = tuple(bits[i_] for i_ in idx)
                if key in out and out[key] != val:
                    consistent = False
                out[key] = val
            return calls, out, consistent
        atoms, table, cons = split(*results[(False, True)])
        if not cons:
            problems.append(("plain", "for a non-spherical point the result depends on more than %s(point)" % impl))
        if len(atoms) != 1 or not all(c_ in atoms[0].args for c_ in comps) or table != {(False,): False, (True,): True}:
            problems.append(("plain", "for a non-spherical point the wrapper is not %s(point) (calls %s)" % (impl, [str(a_)[:50] for a_ in atoms])))
        base_args = atoms[0].args if atoms else None
        for neg in (True, False):
            atoms, table, cons = split(*results[(True, neg)])
            how = "L < 0" if neg else "L > 0"
            if not cons:
                problems.append(("or", "for a spherical point with %s the result depends on more than the two calls of %s" % (how, impl)))
                continue
            plain = [a_ for a_ in atoms if all(c_ in a_.args for c_ in comps)]
            other = [a_ for a_ in atoms if a_ not in plain]
            if len(atoms) != 2 or len(plain) != 1 or len(other) != 1 or len(plain[0].args) != len(other[0].args):
                problems.append(("or", "for a spherical point with %s the wrapper consults %s, not %s(point) and %s(alias)" % (how, [str(a_)[:50] for a_ in atoms], impl, impl)))
                continue
            want_table = {bits: any(bits) for bits in itertools.product((False, True), repeat=2)}
            if table != want_table:
                bad_ = [bits for bits in want_table if table.get(bits) != want_table[bits]]
                problems.append(("or", "for a spherical point with %s the wrapper is not the disjunction of the two calls (differs for %s)" % (
                    how, ["%s=%s, %s=%s" % ("point" if atoms[0] in plain else "alias", b_[0], "point" if atoms[1] in plain else "alias", b_[1]) for b_ in bad_][:2])))
            diffs = [(i, sp.simplify(o_ - p_)) for i, (p_, o_) in enumerate(zip(plain[0].args, other[0].args)) if sp.simplify(o_ - p_) != 0]
            want = TWO_PI if neg else -TWO_PI
            pos_lon = list(plain[0].args).index(comps[lon])
            if len(diffs) != 1 or diffs[0][0] != pos_lon or sp.simplify(diffs[0][1] - want) != 0:
                problems.append(("shift", "for a spherical point with %s the alias differs from the point by %s (expected component %d %s 2*pi)" % (
                    how, ["arg %d: %s" % d_ for d_ in diffs][:3], lon, "+" if neg else "-")))
            if base_args is not None and len(base_args) == len(plain[0].args) and any(sp.simplify(x - y) != 0 for x, y in zip(base_args, plain[0].args)):
                problems.append(("args", "the spherical and the non-spherical path hand different arguments to %s" % impl))
        if problems:
            for key, why in problems[:2]:
                rep.violation(rule, "%s: %s" % (label, why), F.loc, F.qn, "", "L and L+-360 degrees get different answers / only one of the two longitude aliases is tried",
                              key="%s|%s|%s" % (rule, F.qn, key), witness="feature given with longitudes on the other 2*pi sheet than the query (below -180 or above 180)")
        else:
            rep.ok(rule, "%s: %s(point) for non-spherical points, %s(point) || %s(point with longitude +-2*pi towards zero) for spherical ones" % (label, impl, impl, impl), F.loc, F.qn)
    rep.floor(rule, n, 2, "alias wrappers")


def polygon_boundary(P, rep, rule="POLY.boundary"):
    """the winding-number test treats its boundary the same way on upward and downward edges, and closed"""
    from . import sib
    rep.rule(rule, "polygon_contains_point_implementation: on an upward and on a downward edge the `point is on the infinite line` case runs "
                   "the same on-segment test, and that test is closed: 0 <= (p - V_j).(V_i - V_j) <= |V_i - V_j|^2 returns true (both end "
                   "points of every edge belong to the polygon); the line test itself is |is_left| < epsilon in both branches")
    F = P.func("WorldBuilder::Utilities::polygon_contains_point_implementation")
    R = lambda n: norm.render(P, n, nocast=True).replace(" ", "")
    online = [x for x in F.walk() if x.get("k") == "IfStmt" and "is_left" in R(x["c"][0]) and "epsilon" in R(x["c"][0])]
    if len(online) != 2:
        rep.unknown(rule, "%d `on the line` tests (2 expected: upward and downward edge)" % len(online))
        return
    forms = []
    for x in online:
        C = sib.Canon(P, F, alias_params=False, alias_locals=False)
        lines = [C.e(x["c"][0])]
        C.s(x["c"][1], 0, lines)
        forms.append(lines)
    if forms[0] != forms[1]:
        rem, add = sib.diff_lines(forms[0], forms[1])
        rep.violation(rule, "the on-segment test of the downward edge differs from that of the upward edge", F.nloc(online[1]), F.qn,
                      "- " + " | ".join(r.strip() for r in rem[:3]) + "  + " + " | ".join(a.strip() for a in add[:3]),
                      "boundary points are inside on one kind of edge and outside on the other", key=rule + "|twin",
                      witness="a vertex of a descending (resp. ascending) chain of the polygon")
    else:
        rep.ok(rule, "upward and downward edges share one on-segment test (%d lines)" % len(forms[0]), F.nloc(online[0]), F.qn)
    # the crossings are counted with sign (winding number): +1 on an upward, -1 on a downward crossing, inside iff != 0
    counters = {}
    for y in F.walk():
        if y.get("k") == "UnaryOperator" and y.get("op") in ("++", "--") and sc(y["c"][0]).get("k") == "DeclRefExpr":
            counters.setdefault(sc(y["c"][0])["r"], []).append(y.get("op"))
        if y.get("k") == "CompoundAssignOperator" and y.get("op") in ("+=", "-=") and sc(y["c"][0]).get("k") == "DeclRefExpr" and sc(y["c"][1]).get("v") == 1:
            counters.setdefault(sc(y["c"][0])["r"], []).append("++" if y["op"] == "+=" else "--")
    wn = [k for k, ops in counters.items() if sorted(ops) == ["++", "--"] and "unsigned long" in (P.d(k).get("t") or "") or sorted(ops) == ["++", "--"]]
    rets = [y for y in F.walk() if y.get("k") == "ReturnStmt" and y.get("c") and sc(y["c"][0]).get("k") not in ("CXXBoolLiteralExpr",)]
    okw = False
    if len(wn) == 1 and len(rets) == 1:
        rv = sc(rets[0]["c"][0])
        okw = rv.get("k") == "BinaryOperator" and rv.get("op") == "!=" and astq.is_ref_to(rv["c"][0], wn[0]) and sc(rv["c"][1]).get("v") == 0
    if okw:
        rep.ok(rule, "signed crossing count (winding number): ++ on upward, -- on downward crossings, inside iff the count != 0", F.loc, F.qn)
    else:
        rep.violation(rule, "the crossings are not counted as a winding number (one counter with ++ and --, result `count != 0`): counters %s, result %s" % (
            sorted(counters.values()), R(rets[0]["c"][0])[:40] if rets else "?"), F.loc, F.qn, "",
            "an even-odd (parity) count differs from the winding number wherever the outline winds around a point twice",
            key=rule + "|winding", witness="a self-overlapping outline (pentagram): its core has winding number 2")
    for idx, x in enumerate(online):
        side = ("upward", "downward")[idx]
        ifs = [y for y in F.walk(x["c"][1]) if y.get("k") == "IfStmt"]
        rets = [y for y in F.walk(x["c"][1]) if y.get("k") == "ReturnStmt" and y.get("c") and sc(y["c"][0]).get("k") == "CXXBoolLiteralExpr" and sc(y["c"][0]).get("v") is True]
        decls = {y["r"]: y for y in F.walk(x["c"][1]) if y.get("k") == "VarDecl" and y.get("c")}
        cmps = []
        for y in ifs:
            c = sc(y["c"][0])
            if c.get("k") == "BinaryOperator" and c.get("op") in ("<", "<=", ">", ">="):
                l, r = sc(c["c"][0]), sc(c["c"][1])
                op = c["op"]
                if op in (">", ">="):      # normalise to l (<|<=) r
                    l, r, op = r, l, {">": "<", ">=": "<="}[op]
                cmps.append((l, op, r, y))
        shape = None
        if len(ifs) == 2 and len(cmps) == 2 and len(rets) == 1:
            (l0, op0, r0, _), (l1, op1, r1, _) = cmps
            zero0 = l0.get("k") in ("IntegerLiteral", "FloatingLiteral") and float(l0.get("v")) == 0.0
            if zero0 and r0.get("k") == "DeclRefExpr" and l1.get("k") == "DeclRefExpr" and l1.get("r") == r0.get("r") and r1.get("k") == "DeclRefExpr":
                dot, sq = decls.get(r0["r"]), decls.get(r1["r"])
                if dot is not None and sq is not None:
                    dtxt, stxt = R(dot["c"][0]), R(sq["c"][0])
                    if (dtxt in ("((point-point_list[j])*(point_list[i]-point_list[j]))", "((point_list[i]-point_list[j])*(point-point_list[j]))")
                            and stxt in ("(point_list[i]-point_list[j]).norm_square()", "((point_list[i]-point_list[j])*(point_list[i]-point_list[j]))")):
                        shape = (op0, op1)
        if shape is None:
            rep.unknown(rule, "%s edge: on-segment test not of the form `0 <= d` then `d <= |e|^2` with d = (p-Vj).(Vi-Vj) at %s" % (side, F.nloc(x)))
        elif shape == ("<=", "<="):
            rep.ok(rule, "%s edge: 0 <= (p-Vj).(Vi-Vj) <= |Vi-Vj|^2 -> inside" % side, F.nloc(x), F.qn)
        else:
            rep.violation(rule, "%s edge: on-segment test is 0 %s d %s |e|^2 (a strict comparison)" % (side, shape[0], shape[1]),
                          F.nloc(x), F.qn, "; ".join(R(y["c"][0]) for y in ifs), "an end point of the edge is excluded from the polygon", key="%s|%s|closed" % (rule, side),
                          witness="query exactly on a vertex of the polygon")


class _Split(Exception):
    def __init__(self, points):
        Exception.__init__(self, "split")
        self.points = points


def _roots_inside(expr, var, lo, hi):
    """zeros of a piecewise-linear term strictly inside (lo, hi); None if they cannot be determined"""
    try:
        sol = sp.solveset(expr, var, sp.Interval.open(lo, hi))
    except Exception:
        return None
    if sol is sp.S.EmptySet or sol == sp.S.EmptySet:
        return []
    if isinstance(sol, sp.FiniteSet):
        return sorted(sol, key=lambda r: float(r))
    if isinstance(sol, sp.Interval):
        return "interval"
    return None


def angle_interpolation(P, rep, rule="EXPR.angle"):
    rep.rule(rule, "interpolate_angle_across_zero(a1, a2, f) interpolates along the shorter arc: for angles in [0, 2*pi), i.e. "
                   "d = a2 - a1 in (-2*pi, 2*pi), the result is a1 + f*d' reduced to [0, 2*pi) by floor, where d' = d, d - 2*pi or "
                   "d + 2*pi is the representative with |d'| < pi.  Decided region by region: every condition the function "
                   "evaluates is a piecewise-linear inequality in d; a region is split at its zeros until each condition has one "
                   "truth value per region (isolated boundary values d = +-pi, 0 are not judged)")
    F = P.func("WorldBuilder::Utilities::interpolate_angle_across_zero")
    if len(F.params) != 3:
        rep.unknown(rule, "interpolate_angle_across_zero no longer takes (angle, angle, fraction)")
        return
    a1, d, f = sp.symbols("a1 d f", real=True)
    env = {F.params[0]: a1, F.params[1]: a1 + d, F.params[2]: f}
    pih = pi_hook(P)
    pending = [(-TWO_PI, -sp.pi), (-sp.pi, sp.pi), (sp.pi, TWO_PI)]
    done = []
    rounds = 0
    while pending:
        rounds += 1
        if rounds > 40:
            rep.unknown(rule, "interpolate_angle_across_zero: more than 40 regions -- conditions are not piecewise linear in a2 - a1")
            return
        lo, hi = pending.pop(0)
        mid = (lo + hi) / 2
        holder = {}

        def in_d(t):
            t = sp.expand(t)
            return t if not (t.free_symbols - {d}) else None

        def hook(n, lo=lo, hi=hi, mid=mid, holder=holder):
            h = pih(n)
            if h is not None:
                return h
            if n.get("k") == "CallExpr" and n.get("callee") and P.d(n["callee"]).get("qn") in ("std::fmod", "fmod") and len(n["c"]) == 3:
                B = holder["B"]
                x, m = B.sym(n["c"][1]), B.sym(n["c"][2])
                xd = in_d(x)
                if xd is None or m.free_symbols or not m.is_positive:
                    return None
                # trunc(x/m) is constant on the region unless x crosses a multiple of m inside it
                cuts = []
                for j in range(-3, 4):
                    r = _roots_inside(xd - j * m, d, lo, hi)
                    if r is None or r == "interval":
                        return None
                    cuts += r
                if cuts:
                    raise _Split(cuts)
                q = xd.subs(d, mid) / m
                j = sp.floor(q) if q >= 0 else sp.ceiling(q)
                return x - j * m
            return None

        def choose(c, lo=lo, hi=hi, mid=mid, holder=holder):
            if c.get("k") != "BinaryOperator" or c.get("op") not in ("<", "<=", ">", ">=", "==", "!="):
                return None
            B = holder["B"]
            l, r = B.sym(c["c"][0]), B.sym(c["c"][1])
            e = in_d(l - r)
            if e is None:
                return None
            roots = _roots_inside(e, d, lo, hi)
            if roots is None:
                return None
            if roots == "interval":
                v = 0
            else:
                if roots:
                    raise _Split(roots)
                v = e.subs(d, mid)
            try:
                v = float(v)
            except Exception:
                return None
            return {"<": v < 0, "<=": v <= 0, ">": v > 0, ">=": v >= 0, "==": v == 0, "!=": v != 0}[c["op"]]

        B = Block(P, F, choose=choose, hook=hook)
        holder["B"] = B
        B.decide_ternaries = True
        B.sym.env.update(env)
        try:
            B.run(astq.stmts_of(F.body))
            rets = [x for x in F.walk() if x.get("k") == "ReturnStmt" and x.get("c")]
            val = B.sym(rets[-1]["c"][0]) if rets else None
        except _Split as sp_:
            cuts = sorted(set(sp_.points), key=lambda r: float(r))
            edges = [lo] + cuts + [hi]
            pending = [(edges[i], edges[i + 1]) for i in range(len(edges) - 1)] + pending
            continue
        except AnalysisBroken as e:
            rep.unknown(rule, "interpolate_angle_across_zero on %s < a2-a1 < %s: %s" % (lo, hi, e))
            return
        done.append((lo, hi, mid, val))
    ok = True
    for (lo, hi, mid, got) in done:
        region = "%s < a2-a1 < %s" % (lo, hi)
        if got is None:
            rep.unknown(rule, "interpolate_angle_across_zero: no returned value on %s" % region)
            return
        fn = {getattr(e.func, "__name__", "") for e in got.atoms(sp.Function)}
        if fn - {"floor"}:
            rep.unknown(rule, "interpolate_angle_across_zero on %s: the result uses %s, which this rule cannot evaluate (%s)" % (region, sorted(fn - {"floor"}), str(got)[:80]))
            return
        dd = d + (TWO_PI if float(mid) < -float(sp.pi) else (-TWO_PI if float(mid) > float(sp.pi) else 0))
        want = a1 + f * dd
        K = sp.Symbol("K")
        floors = [e for e in got.atoms(sp.Function) if e.func.__name__ == "floor"]
        g2 = got.replace(lambda e: getattr(e.func, "__name__", "") == "floor", lambda e: K)
        unreduced = sp.expand(g2.subs(K, 0))
        diff = sp.simplify(sp.expand(unreduced - want) / TWO_PI)
        if not (diff.is_number and diff.is_integer):
            ok = False
            rep.violation(rule, "for %s the result is %s" % (region, got), F.loc, F.qn, str(got)[:140],
                          "expected a1 + f*(%s) up to a multiple of 2*pi: the interpolation runs along the longer arc" % dd, key="%s|%s" % (rule, "far" if dd != d else "near"),
                          witness="plume whose rotation angles pass through north between two cross sections (e.g. 20 -> 340 degrees)")
            continue
        arg_ok = len(floors) == 1 and eq(g2, unreduced - TWO_PI * K) and eq(floors[0].args[0], unreduced / TWO_PI)
        if not arg_ok:
            ok = False
            rep.violation(rule, "for %s the reduction is not x - 2*pi*floor(x/(2*pi))" % region, F.loc, F.qn, str(got)[:140], "angle not brought back to [0, 2*pi)",
                          key="%s|wrap" % rule)
    if ok:
        rep.ok(rule, "interpolate_angle_across_zero: %d regions of a2-a1 in (-2*pi, 2*pi) agree with the shorter-arc interpolation" % len(done), F.loc, F.qn)


def _only_at_centre(P, F, ret, sym, syms):
    """the return statement is reached only when both rotated offsets are zero (the point is the centre): some condition that
    controls it is a conjunction containing `X == 0` for two expressions X that vanish exactly when p = c (linear, independent in p)"""
    from .guard import expand_cond
    px, py, cx, cy = syms
    zero_forms = []
    for a in F.ancestors(ret):
        if a.get("k") != "IfStmt" or not any(y is ret for y in F.walk(a["c"][1])):
            continue
        c = expand_cond(P, F, a["c"][0])

        def conj(e):
            e = sc(e)
            if e.get("k") == "BinaryOperator" and e.get("op") == "&&":
                return conj(e["c"][0]) + conj(e["c"][1])
            return [e]
        for e in conj(c):
            if e.get("k") == "BinaryOperator" and e.get("op") == "==":
                l, r = sc(e["c"][0]), sc(e["c"][1])
                if r.get("k") in ("IntegerLiteral", "FloatingLiteral") and float(r.get("v")) == 0.0:
                    try:
                        zero_forms.append(sp.expand(sym(l)))
                    except Exception:
                        pass
    if len(zero_forms) < 2:
        return False
    # both vanish at the centre, and together they force p = c: the 2x2 Jacobian in (px, py) is regular
    try:
        at_c = [sp.simplify(z.subs({px: cx, py: cy})) for z in zero_forms[:2]]
        J = sp.Matrix([[sp.diff(z, px), sp.diff(z, py)] for z in zero_forms[:2]])
        return all(v == 0 for v in at_c) and sp.simplify(J.det()) != 0
    except Exception:
        return False


def ellipse_fraction(P, rep, rule="EXPR.ellipse"):
    rep.rule(rule, "fraction_from_ellipse_center(c, a, e, theta, p) = x'^2/a^2 + y'^2/(a^2 (1-e^2)) with (x', y') the offset p-c rotated by -theta")
    F = P.func("WorldBuilder::Utilities::fraction_from_ellipse_center")
    cx, cy, px, py, a, e, th = sp.symbols("cx cy px py a e theta", real=True)
    ck, ak, ek, tk, pk = F.params

    def hook(n):
        s = astq.subscript(n)
        if s and sc(s[1]).get("k") == "IntegerLiteral":
            i = sc(s[1])["v"]
            if astq.is_ref_to(s[0], ck):
                return (cx, cy)[i]
            if astq.is_ref_to(s[0], pk):
                return (px, py)[i]
        return None
    sym = norm.Sym(P, F, inline_locals=True, hook=hook, env={ak: a, ek: e, tk: th})
    rets = [x for x in F.walk() if x.get("k") == "ReturnStmt" and x.get("c")]
    val = sym(rets[-1]["c"][0])
    xr = (px - cx) * sp.cos(th) + (py - cy) * sp.sin(th)
    yr = -(px - cx) * sp.sin(th) + (py - cy) * sp.cos(th)
    want = xr ** 2 / a ** 2 + yr ** 2 / (a ** 2 * (1 - e ** 2))
    if eq(val, want):
        rep.ok(rule, "ellipse fraction = x'^2/a^2 + y'^2/(a^2(1-e^2))", F.loc, F.qn)
    else:
        rep.violation(rule, "fraction_from_ellipse_center returns %s" % val, F.loc, F.qn, str(val)[:160], "expected the rotated ellipse equation", key=rule,
                      witness="eccentric, rotated plume cross section")
    # the degenerate ellipse (an axis of length zero) is a single point or a line segment: every other return value has to say
    # "outside" (a fraction above 1) for a point off the centre; the callers test `fraction <= 1`
    for r in rets[:-1]:
        v = sc(r["c"][0])
        txt = norm.render(P, v)
        num = None
        if v.get("k") == "CXXBoolLiteralExpr":
            num = 1.0 if v.get("v") else 0.0
        elif v.get("k") in ("IntegerLiteral", "FloatingLiteral"):
            num = float(v.get("v"))
        elif "infinity" in txt or "max()" in txt:
            num = float("inf")
        g = astq.enclosing(F, r, ("IfStmt",))
        where = norm.render(P, g["c"][0])[:80] if g is not None else "unconditionally"
        if num is None:
            # a value that depends on the point (e.g. 0 at the centre, infinity elsewhere): accepted if it is not a constant <= 1
            try:
                vv = sym(v)
                const = not (vv.free_symbols & {px, py})
            except Exception:
                const = False
            if const:
                rep.unknown(rule, "fraction_from_ellipse_center returns %s when %s" % (txt[:40], where))
            else:
                rep.ok(rule, "degenerate ellipse (%s): the value depends on the point (%s)" % (where, txt[:50]), F.nloc(r), F.qn)
        elif num > 1.0:
            rep.ok(rule, "degenerate ellipse (%s): the point is reported outside (%s)" % (where, txt[:30]), F.nloc(r), F.qn)
        elif _only_at_centre(P, F, r, sym, (px, py, cx, cy)):
            rep.ok(rule, "degenerate ellipse: %s is returned for the centre itself only" % txt[:20], F.nloc(r), F.qn)
        else:
            rep.violation(rule, "fraction_from_ellipse_center returns %s (= %g) when %s" % (txt[:30], num, where), F.nloc(r), F.qn, norm.render(P, r)[:120],
                          "an ellipse with an axis of length zero contains every point: the callers test `fraction <= 1`", key=rule + "|degenerate",
                          witness="a plume whose deepest cross section has semi-major axis 0 (or eccentricity 1): every point below that depth is inside the plume")


def plume_sections(P, rep, rule="PLUME.sections"):
    rep.rule(rule, "Plume::properties: above the first cross section centre/eccentricity/rotation are those of the first section (front()), "
                   "below the last all four are those of the last (back()); in between index = position of depth in `depths`, "
                   "fraction = (depth - depths[index-1])/(depths[index] - depths[index-1]) and centre x, centre y, semi-major axis, "
                   "eccentricity are (1-fraction)*V[index-1] + fraction*V[index] of their OWN table, the rotation angle goes through "
                   "interpolate_angle_across_zero(rotation_angles[index-1], rotation_angles[index], fraction)")
    F = P.func("WorldBuilder::Features::Plume::properties")
    depth_k = F.params[2]
    _roles = norm.Subst(bind={depth_k: "depth"})      # the depth argument by position
    R = lambda x: norm.render(P, x, nocast=True, subst=_roles).replace(" ", "")
    tables = {"coordinates": "C", "semi_major_axis_lengths": "A", "eccentricities": "E", "rotation_angles": "R", "depths": "D"}
    d = sp.Symbol("depth")

    def hook(n):
        if n.get("k") == "DeclRefExpr" and n["r"] == depth_k:
            return d
        s = astq.subscript(n)
        if s:
            b = sc(s[0])
            comp = None
            s2 = astq.subscript(b)
            if s2 and sc(s[1]).get("k") == "IntegerLiteral":
                comp = sc(s[1])["v"]
                b, idx = sc(s2[0]), s2[1]
            else:
                idx = s[1]
            if b.get("k") == "MemberExpr" and astq.is_this_field(P, b) and b.get("n") in tables:
                it = R(idx)
                pos = {"index": "hi", "(index-1)": "lo", "0": "0"}.get(it)
                if pos:
                    return sp.Symbol("%s_%s%s" % (tables[b["n"]], pos, "" if comp is None else "_%d" % comp))
        mc = astq.member_call(P, n)
        if mc and mc[1] in ("front", "back") and mc[0] is not None:
            b = sc(mc[0])
            if b.get("k") == "MemberExpr" and astq.is_this_field(P, b) and b.get("n") in tables:
                return sp.Symbol("%s_%s" % (tables[b["n"]], mc[1]))
        if n.get("k") == "CallExpr" and P.d(n.get("callee")).get("qn", "").endswith("interpolate_angle_across_zero"):
            a = [norm.Sym(P, F, inline_locals=True, hook=hook)(z) for z in n["c"][1:]]
            return sp.Function("cyc")(*a)
        return None
    branches = {"above": (True, None), "below": (False, True), "between": (False, False)}
    got = {}
    for bname, (is_front, is_back) in branches.items():
        def choose(c, is_front=is_front, is_back=is_back):
            t = R(c)
            if t in ("(depth<min_depth)", "(depth<this->min_depth)"):
                return False
            if t in ("((upper-depths.begin())==0)", "(upper==depths.begin())"):
                return is_front
            if t in ("((upper-depths.end())==0)", "(upper==depths.end())"):
                return bool(is_back)
            return None
        B = Block(P, F, choose=choose, hook=hook)
        B.sym.inline_locals = True
        stmts = []
        for s in astq.stmts_of(F.body):
            stmts.append(s)
            if s.get("k") == "IfStmt":
                break
        try:
            B.run([s for s in stmts if s.get("k") in ("DeclStmt", "IfStmt")])
        except AnalysisBroken as e:
            rep.unknown(rule, "Plume::properties: %s" % e)
            return
        vals = {}
        for (kind, tk, *rest), v in B.state.items():
            nm = P.d(tk[1]).get("n")
            vals[(nm,) + tuple(rest)] = v
        got[bname] = vals
    f = (d - sp.Symbol("D_lo")) / (sp.Symbol("D_hi") - sp.Symbol("D_lo"))
    lin = lambda T, comp=None: (1 - f) * sp.Symbol("%s_lo%s" % (T, "" if comp is None else "_%d" % comp)) + f * sp.Symbol("%s_hi%s" % (T, "" if comp is None else "_%d" % comp))
    want = {
        "between": {("plume_center", 0): lin("C", 0), ("plume_center", 1): lin("C", 1), ("semi_major_axis_length",): lin("A"), ("eccentricity",): lin("E"),
                    ("rotation_angle",): sp.Function("cyc")(sp.Symbol("R_lo"), sp.Symbol("R_hi"), f)},
        "below": {("plume_center",): sp.Symbol("C_back"), ("semi_major_axis_length",): sp.Symbol("A_back"), ("eccentricity",): sp.Symbol("E_back"),
                  ("rotation_angle",): sp.Symbol("R_back")},
        "above": {("plume_center",): sp.Symbol("C_front"), ("eccentricity",): sp.Symbol("E_front"), ("rotation_angle",): sp.Symbol("R_front")},
    }
    if all(got[b_].get(k_) is None for b_, w_ in want.items() for k_ in w_):
        # none of the assignments this rule follows exists any more (moved into a helper / struct?): cannot judge
        rep.unknown(rule, "Plume::properties: the per-depth assignments of centre, axis, eccentricity and rotation are not in the form this rule reads")
        return
    for bname, w in want.items():
        for key, expv in w.items():
            g = got[bname].get(key)
            label = "%s the cross sections: %s" % (bname, key[0] + ("[%d]" % key[1] if len(key) > 1 else ""))
            if g is not None and eq(g, expv):
                rep.ok(rule, "%s = %s" % (label, str(expv)[:70]), F.loc, F.qn)
            else:
                rep.violation(rule, "%s is %s" % (label, str(g)[:90]), F.loc, F.qn, str(g)[:160], "expected %s" % str(expv)[:120],
                              key="%s|%s|%s" % (rule, bname, key[0] + (str(key[1]) if len(key) > 1 else "")),
                              witness="plume whose cross sections differ in this quantity; depth %s" % bname)
    # index provenance
    idx = [x for x in F.walk() if x.get("k") == "VarDecl" and x.get("n") == "index" and x.get("c")]
    up = [x for x in F.walk() if x.get("k") == "VarDecl" and x.get("n") == "upper" and x.get("c")]
    if len(idx) == 1 and R(idx[0]["c"][0]) == "std::distance(depths.begin(),upper)" and len(up) == 1 and R(up[0]["c"][0]) == "std::upper_bound(depths.begin(),depths.end(),depth)":
        rep.ok(rule, "index = distance(depths.begin(), upper_bound(depths, depth))", F.nloc(idx[0]), F.qn)
    else:
        rep.violation(rule, "bracket index is %s with upper = %s" % (R(idx[0]["c"][0]) if idx else "?", R(up[0]["c"][0]) if up else "?"), F.loc, F.qn, "",
                      "the bracket does not enclose the query depth", key=rule + "|index", witness="depth between two cross sections")


def closed_extent(P, rep, rule="G2.extent"):
    rep.rule(rule, "the extent test of an area feature contains the closed comparisons depth <= max_depth, depth >= min_depth, depth <= "
                   "max_depth_local, depth >= min_depth_local and the polygon test on (coordinates, surface coordinates of the point in the "
                   "natural system); the plume's contains depth <= max_depth, depth >= min_depth, relative_distance_from_center <= 1")
    from .layout import feature_properties
    for F in feature_properties(P):
        fname = F.qn.split("::")[-2]
        if fname in ("SubductingPlate", "Fault"):
            continue
        out_key = F.params[6]
        ws = guard.output_writes(P, F, out_key)
        ctl = guard.controlling(F)
        info = guard.branch_info(P, F)
        sets = [{(a, i) for (a, i) in ctl.get(F.block_of(w), ()) if info.get(a, ("", None))[0] == "cond"} for w in ws]
        common = set.intersection(*sets) if sets else set()
        rels = set()
        poly = None
        # roles instead of names: the depth argument, and the locals initialised from `S.constant_value ? bound : S.local_value(...)`
        roles = {F.params[2]: "depth"}
        for v in F.walk():
            if v.get("k") == "VarDecl" and v.get("c") and sc(v["c"][0]).get("k") == "ConditionalOperator":
                c0 = sc(sc(v["c"][0])["c"][0])
                if c0.get("k") == "MemberExpr" and c0.get("n") == "constant_value" and c0.get("c"):
                    side = sc(c0["c"][0]).get("n", "")[:3]
                    if side in ("min", "max"):
                        roles[v["r"]] = side + "_depth_local"
        sub = norm.Subst(bind=roles)
        def implied(c, truth, out):
            """atomic comparisons (node, holds) that follow from `c` having the given truth value: conjunctions that hold,
            disjunctions that fail, negations; a guard clause `if (!(a && b)) return;` contributes a and b like `if (a && b) {...}`"""
            c = sc(c)
            if c is None:
                return
            k_ = c.get("k")
            if k_ == "UnaryOperator" and c.get("op") == "!":
                implied(c["c"][0], not truth, out)
            elif k_ == "BinaryOperator" and c.get("op") == "&&":
                if truth:
                    implied(c["c"][0], True, out)
                    implied(c["c"][1], True, out)
            elif k_ == "BinaryOperator" and c.get("op") == "||":
                if not truth:
                    implied(c["c"][0], False, out)
                    implied(c["c"][1], False, out)
            else:
                out.append((c, truth))
        for a, i in common:
            c = info[a][1]
            if c is None:
                continue
            atoms_ = []
            implied(c, i == 0, atoms_)
            for x, holds in atoms_:
                if x.get("k") == "BinaryOperator" and x.get("op") in ("<=", ">=", "<", ">"):
                    l, r, op = norm.render(P, x["c"][0], nocast=True, subst=sub), norm.render(P, x["c"][1], nocast=True, subst=sub), x["op"]
                    if not holds:
                        op = {"<": ">=", "<=": ">", ">": "<=", ">=": "<"}[op]
                    if op in (">", ">="):
                        l, r, op = r, l, {">": "<", ">=": "<="}[op]
                    rels.add("%s %s %s" % (l, op, r))
                if holds:
                    for y in F.walk(x):
                        if y.get("k") == "CallExpr" and P.d(y.get("callee")).get("qn", "").endswith("polygon_contains_point"):
                            poly = y
        if fname == "Plume":
            import re as _re
            rels = {_re.sub(r"^\w+ <= (1\.0|1\.|1)$", "relative_distance_from_center <= 1.0", r_) if not r_.startswith("depth") else r_ for r_ in rels}
            need = {"depth <= max_depth", "min_depth <= depth", "relative_distance_from_center <= 1.0"}
            alt = {"relative_distance_from_center <= 1.0": ("relative_distance_from_center <= 1", "relative_distance_from_center <= 1.")}
        else:
            need = {"depth <= max_depth", "min_depth <= depth", "depth <= max_depth_local", "min_depth_local <= depth"}
            alt = {}
        missing = [r for r in need if r not in rels and not any(a in rels for a in alt.get(r, ()))]
        strict = [r for r in rels if (" < " in r) and any(k in r for k in ("max_depth", "min_depth", "relative_distance"))]
        if missing or strict:
            rep.violation(rule, "%s: extent test lacks %s%s" % (fname, missing, (" and has strict %s" % strict) if strict else ""), F.loc, F.qn, "; ".join(sorted(rels))[:200],
                          "the feature does not occupy the closed depth interval / footprint", key="%s|%s|rels" % (rule, fname),
                          witness="point exactly at max depth (resp. on the ellipse)")
        else:
            rep.ok(rule, "%s: %s" % (fname, "; ".join(sorted(need))), F.loc, F.qn)
        if fname != "Plume":
            good = False
            if poly is not None:
                a = poly["c"][1:]
                sub2 = norm.Subst(bind={F.params[1]: "position_in_natural_coordinates"})      # the natural-coordinate argument, by position
                t0 = norm.render(P, a[0], nocast=True)
                t1 = norm.render(P, a[1], nocast=True, subst=sub2).replace(" ", "")
                good = t0 in ("coordinates", "this->coordinates") and "position_in_natural_coordinates.get_surface_coordinates()" in t1 and "natural_coordinate_system()" in t1
            if good:
                rep.ok(rule, "%s: polygon_contains_point(coordinates, Point<2>(natural surface coordinates, natural system))" % fname, F.nloc(poly), F.qn)
            else:
                rep.violation(rule, "%s: polygon test arguments are %s" % (fname, norm.render(P, poly)[:120] if poly else "missing"), F.nloc(poly) if poly else F.loc, F.qn, "",
                              "the footprint test does not compare the feature's own polygon with the point's surface position", key="%s|%s|poly" % (rule, fname),
                              witness="spherical world, point away from the prime meridian")


# ------------------------------------------------------------------------------------------------
def ridge_alias_twins(P, rep, rule="ALIAS.twins"):
    """calculate_ridge_distance_and_spreading treats the point and its longitude alias by two copies of one block"""
    from . import sib
    rep.rule(rule, "in calculate_ridge_distance_and_spreading the closest-point block for the longitude alias (Pb2, c2, *_pt2) is the block for "
                   "the point itself (Pb1, c1, *_pt1) with 1 -> 2 substituted; the alias point is built as in the other alias wrappers; the "
                   "values of the nearer of the two are kept together (distance, spreading velocity, subducting velocity of the same point)")
    F = P.func("WorldBuilder::Utilities::calculate_ridge_distance_and_spreading")
    miss = astq.missing_anchors(P, F, ["c1", "c2", "c", "Pb1", "Pb2", "check_point", "other_check_point", "compare_distance", "compare_distance1", "compare_distance2",
                                       "spreading_velocity_at_ridge_pt", "subducting_velocity_at_trench_pt", "spreading_velocity_at_ridge_pt2", "subducting_velocity_at_trench_pt2",
                                       "spreading_velocity_at_ridge_pt1", "subducting_velocity_at_trench_pt1", "compare_point1", "compare_point2",
                                       "result", "distance_ridge", "seconds_in_year", "spreading_velocity_at_ridge", "subducting_velocity_at_trench", "ridge_migration_time"])
    if miss:
        rep.unknown(rule, "calculate_ridge_distance_and_spreading: the locals %s this rule is written over no longer exist (renamed?)" % miss)
        return
    chains = []
    for x in F.walk():
        if x.get("k") == "IfStmt" and not x.get("m"):
            par = F.parent.get(x["i"])
            if par is not None and par.get("k") == "IfStmt":
                continue
            c = norm.render(P, x["c"][0], nocast=True).replace(" ", "")
            m = re.match(r"^\(c([12])<=0\)$", c)
            if m:
                chains.append((int(m.group(1)), x))
    if sorted(k for k, _ in chains) != [1, 2]:
        rep.unknown(rule, "closest-point chains `if (c1 <= 0)` / `if (c2 <= 0)` not found")
        return
    forms = {}
    for k, x in chains:
        C = sib.Canon(P, F, alias_params=False, alias_locals=False)
        lines = []
        C.s(x, 0, lines)
        sub = lambda l, k=k: re.sub(r"_pt%d\b" % k, "_ptK", re.sub(r"\bc%d\b" % k, "cK", re.sub(r"\bPb%d\b" % k, "PbK", l)))
        forms[k] = [sub(l) for l in lines]
    if forms[1] == forms[2]:
        rep.ok(rule, "alias block == point block under 1 -> 2 (%d lines)" % len(forms[1]), F.nloc(chains[0][1]), F.qn)
    else:
        rem, add = sib.diff_lines(forms[1], forms[2])
        node = [x for k, x in chains if k == 2][0]
        rep.violation(rule, "the alias block differs from the point block", F.nloc(node), F.qn,
                      "- " + " | ".join(r.strip() for r in rem[:3]) + "  + " + " | ".join(a.strip() for a in add[:3]),
                      "a point described with longitude L and with L+-360 gets different ages/velocities", key=rule + "|twin",
                      witness="ridge near the 180 meridian, point on the other side of it")
    # alias point construction
    sh = [x for x in F.walk() if x.get("k") == "CompoundAssignOperator" and x.get("op") == "+=" and "other_check_point" in norm.render(P, x["c"][0])]
    good = False
    if len(sh) == 1:
        rhs = sc(sh[0]["c"][1])
        if rhs.get("k") == "ConditionalOperator":
            c, a, b = [sc(z) for z in rhs["c"]]
            sym = norm.Sym(P, F, inline_locals=False, hook=pi_hook(P))
            good = norm.render(P, c, nocast=True).replace(" ", "") == "(check_point[0]<0)" and eq(sym(a), TWO_PI) and eq(sym(b), -TWO_PI)
        g = astq.enclosing(F, sh[0], ("IfStmt",))
        good = good and g is not None and "spherical" in norm.render(P, g["c"][0])
    elif len(sh) == 2:
        # the same choice written as if / else: `if (check_point[0] < 0) other += 2pi; else other += -2pi;` under the spherical test
        g0 = astq.enclosing(F, sh[0], ("IfStmt",))
        sym = norm.Sym(P, F, inline_locals=False, hook=pi_hook(P))
        if g0 is not None and len(g0["c"]) > 2 and g0["c"][2] is not None and any(y is sh[0] for y in F.walk(g0["c"][1])) and any(y is sh[1] for y in F.walk(g0["c"][2])):
            try:
                good = norm.render(P, g0["c"][0], nocast=True).replace(" ", "") == "(check_point[0]<0)" and eq(sym(sh[0]["c"][1]), TWO_PI) and eq(sym(sh[1]["c"][1]), -TWO_PI)
            except Exception:
                good = False
            outer = astq.enclosing(F, g0, ("IfStmt",))
            good = good and outer is not None and "spherical" in norm.render(P, outer["c"][0])
    if good:
        rep.ok(rule, "other_check_point[0] = check_point[0] + (check_point[0] < 0 ? 2pi : -2pi) in spherical worlds", F.nloc(sh[0]), F.qn)
    else:
        rep.violation(rule, "alias check point construction", F.nloc(sh[0]) if sh else F.loc, F.qn, norm.render(P, sh[0])[:120] if sh else "", "alias is not the point shifted by 2*pi towards the other sign",
                      key=rule + "|alias-point", witness="point with negative longitude near the date line")
    # selection keeps the triple together
    sel = [x for x in F.walk() if x.get("k") == "IfStmt" and norm.render(P, x["c"][0], nocast=True).replace(" ", "") in ("(compare_distance2<compare_distance1)",)]
    okm = False
    if len(sel) == 1:
        asg = {norm.render(P, y["c"][0]): norm.render(P, y["c"][1]) for y in F.walk(sel[0]["c"][1]) if y.get("k") == "BinaryOperator" and y.get("op") == "="}
        okm = asg == {"compare_distance": "compare_distance2", "spreading_velocity_at_ridge_pt": "spreading_velocity_at_ridge_pt2",
                      "subducting_velocity_at_trench_pt": "subducting_velocity_at_trench_pt2"}
    if okm:
        rep.ok(rule, "the nearer of point/alias supplies distance, spreading and subducting velocity together", F.nloc(sel[0]), F.qn)
    else:
        rep.violation(rule, "selection between point and alias", F.nloc(sel[0]) if sel else F.loc, F.qn, "", "distance and velocities may come from different candidates",
                      key=rule + "|select", witness="ridge near the date line")
    # result vector order
    pushes = [norm.render(P, astq.member_call(P, x, "push_back")[2][0], nocast=True).replace(" ", "") for x in F.walk() if astq.member_call(P, x, "push_back") and norm.render(P, astq.member_call(P, x, "push_back")[0]) == "result"]
    want = ["(spreading_velocity_at_ridge/seconds_in_year)", "distance_ridge", "(subducting_velocity_at_trench/seconds_in_year)", "ridge_migration_time"]
    if pushes == want:
        rep.ok(rule, "result = (spreading velocity, ridge distance, subducting velocity, migration time)", F.loc, F.qn)
    else:
        rep.violation(rule, "result vector is %s" % pushes, F.loc, F.qn, "", "consumers read fixed positions of the result", key=rule + "|result")


ALIAS_AWARE = {
    # functions that compare a spherical surface point with stored longitudes and therefore must try the 2*pi alias
    "WorldBuilder::Utilities::polygon_contains_point": "wrapper",
    "WorldBuilder::BoundingBox<2>::point_inside": "wrapper",
    "WorldBuilder::Objects::Surface::local_value": "other_point",
    "WorldBuilder::Utilities::calculate_ridge_distance_and_spreading": "other_check_point",
    "WorldBuilder::Utilities::distance_point_from_curved_planes": "+-2*pi selection of the closest representation",
}


def alias_sites(P, rep, rule="ALIAS.sites"):
    rep.rule(rule, "every function in the frozen list of longitude-alias-aware sites still constructs a 2*pi-shifted copy of the spherical "
                   "point (a +/-2*pi literal applied under a spherical test)")
    for qn, how in ALIAS_AWARE.items():
        fs = P.funcs_named(qn)
        if not fs:
            raise AnalysisBroken("alias-aware site %s vanished" % qn)
        F = fs[0]
        sym = norm.Sym(P, F, inline_locals=False, hook=pi_hook(P))
        found = 0
        for x in F.walk():
            if x.get("k") in ("BinaryOperator", "UnaryOperator") and x.get("t", "").replace("const ", "") == "double":
                txt = norm.render(P, x, nocast=True).replace(" ", "")
                if txt in ("(2.0*PI)", "(2*PI)", "(2.0*Consts::PI)", "-(2.0*PI)", "(-2.0*PI)", "(-2*PI)", "(2.*PI)", "(PI*2)", "(PI*2.0)"):
                    found += 1
        if found:
            rep.ok(rule, "%s: %d uses of 2*pi (%s)" % (qn, found, how), F.loc, F.qn)
        else:
            rep.violation(rule, "%s no longer uses a 2*pi shift" % qn, F.loc, F.qn, "", "the longitude alias of a point is not considered", key="%s|%s" % (rule, qn),
                          witness="feature straddling the 180 meridian")


def alias_shift_shape(P, rep, rule="ALIAS.shift"):
    """how the alias longitude is computed, decided on the two half-ranges of the longitude"""
    rep.rule(rule, "at every alias-aware site that builds a shifted copy of a spherical point, the longitude of the copy is L + 2*pi for "
                   "-2*pi < L < 0 and L - 2*pi for 0 < L < 2*pi, L the longitude of the original point: the statement that writes component 0 "
                   "of the copy is evaluated on both half-ranges (conditions are inequalities in L with no zero inside a half-range; fmod is "
                   "x - j*m with constant j on a range without a multiple of m)")
    n = 0
    L = sp.Symbol("L", real=True)
    pih = pi_hook(P)
    for qn, how in ALIAS_AWARE.items():
        if how.startswith("+-"):
            continue      # the slab-frame kernel tries both shifts and keeps the closer representation: a different construction
        fs = P.funcs_named(qn)
        if not fs:
            raise AnalysisBroken("alias-aware site %s vanished" % qn)
        F = fs[0]
        cands = []
        for y in F.walk(F.body):
            if y.get("k") in ("BinaryOperator", "CompoundAssignOperator") and y.get("op") in ("=", "+=", "-="):
                sub = astq.subscript(y["c"][0])
                if not sub:
                    continue
                b, i = sc(sub[0]), sc(sub[1])
                if b.get("k") == "DeclRefExpr" and P.d(b["r"]).get("storage") == "local" and b["r"] not in F.params and "Point<" in (P.d(b["r"]).get("t") or "") \
                        and i.get("k") == "IntegerLiteral" and int(i["v"]) == 0 and "PI" in norm.render(P, y["c"][1]):
                    cands.append((y, b["r"]))
        # per half-range: which of the candidate statements are executed there (conditions on L of the enclosing ifs), and what they give
        by_range = {}
        for (y, var) in cands:
            n += 1
            verdicts = []
            for (lo, hi, want) in ((-TWO_PI, sp.Integer(0), TWO_PI), (sp.Integer(0), TWO_PI, -TWO_PI)):
                mid = (lo + hi) / 2
                holder = {}
                # is the statement executed on this half-range?  every enclosing if whose condition is an inequality in L decides
                executed = True
                undecided = False
                S0 = norm.Sym(P, F, inline_locals=False, hook=lambda nd: (pi_hook(P)(nd) if pi_hook(P)(nd) is not None else (
                    L if (astq.subscript(nd) and sc(astq.subscript(nd)[1]).get("k") == "IntegerLiteral" and int(sc(astq.subscript(nd)[1])["v"]) == 0
                          and "Point<" in (sc(astq.subscript(nd)[0]).get("t") or "")) else None)))
                child = y
                for a in F.ancestors(y):
                    if a.get("k") == "IfStmt":
                        c = sc(a["c"][0])
                        in_then = any(z is child for z in F.walk(a["c"][1])) if a["c"][1] is not None else False
                        if c.get("k") == "BinaryOperator" and c.get("op") in ("<", "<=", ">", ">="):
                            e_ = sp.expand(S0(c["c"][0]) - S0(c["c"][1]))
                            if not (e_.free_symbols - {L}) and L in e_.free_symbols:
                                if _roots_inside(e_, L, lo, hi) != []:
                                    undecided = True
                                else:
                                    v_ = float(e_.subs(L, mid))
                                    t_ = {"<": v_ < 0, "<=": v_ <= 0, ">": v_ > 0, ">=": v_ >= 0}[c["op"]]
                                    if t_ != in_then:
                                        executed = False
                    child = a
                if undecided:
                    verdicts.append(("unknown", lo, hi, "a condition around the statement changes inside the half-range"))
                    continue
                if not executed:
                    verdicts.append(("skip", lo, hi, None))
                    continue

                def lin(t):
                    t = sp.expand(t)
                    return t if not (t.free_symbols - {L}) else None

                def hook(nd, lo=lo, hi=hi, mid=mid, holder=holder):
                    h = pih(nd)
                    if h is not None:
                        return h
                    s_ = astq.subscript(nd)
                    if s_ and sc(s_[1]).get("k") == "IntegerLiteral" and int(sc(s_[1])["v"]) == 0 and "Point<" in (sc(s_[0]).get("t") or ""):
                        return L          # the longitude of the point and of its (not yet shifted) copy
                    if nd.get("k") == "CallExpr" and nd.get("callee") and P.d(nd["callee"]).get("qn") in ("std::fmod", "fmod") and len(nd["c"]) == 3:
                        S = holder["S"]
                        x, m = S(nd["c"][1]), S(nd["c"][2])
                        xd = lin(x)
                        if xd is None or m.free_symbols or not m.is_positive:
                            return None
                        for j in range(-3, 4):
                            r = _roots_inside(xd - j * m, L, lo, hi)
                            if r is None or r == "interval" or r:
                                return None
                        q = xd.subs(L, mid) / m
                        j = sp.floor(q) if q >= 0 else sp.ceiling(q)
                        return x - j * m
                    if nd.get("k") == "ConditionalOperator":
                        S = holder["S"]
                        c = sc(nd["c"][0])
                        if c.get("k") == "BinaryOperator" and c.get("op") in ("<", "<=", ">", ">="):
                            e = lin(S(c["c"][0]) - S(c["c"][1]))
                            if e is not None and _roots_inside(e, L, lo, hi) == []:
                                v = float(e.subs(L, mid))
                                t = {"<": v < 0, "<=": v <= 0, ">": v > 0, ">=": v >= 0}[c["op"]]
                                return S(nd["c"][1] if t else nd["c"][2])
                        return None
                    return None
                S = norm.Sym(P, F, inline_locals=False, hook=hook)
                holder["S"] = S
                rhs = S(y["c"][1])
                new = rhs if y["op"] == "=" else (L + rhs if y["op"] == "+=" else L - rhs)
                d_ = lin(new - L)
                if d_ is None or any(getattr(e_.func, "__name__", "") in ("ite", "fmod", "std::fmod") for e_ in new.atoms(sp.Function)):
                    verdicts.append(("unknown", lo, hi, new))
                elif sp.simplify(d_ - want) == 0:
                    verdicts.append(("ok", lo, hi, new))
                else:
                    verdicts.append(("bad", lo, hi, new))
            for v in verdicts:
                by_range.setdefault((qn, v[1], v[2]), []).append(v[0])
            if all(v[0] == "skip" for v in verdicts):
                n -= 1
                continue
            if any(v[0] == "bad" for v in verdicts):
                v = [v for v in verdicts if v[0] == "bad"][0]
                rep.violation(rule, "%s: for %s < L < %s the alias longitude is %s" % (qn.split("::")[-1], v[1], v[2], v[3]), F.nloc(y), F.qn, norm.render(P, y)[:140],
                              "expected L %s 2*pi: the copy is not the same point on the other sheet" % ("+" if v[1] != 0 else "-"), key="%s|%s" % (rule, qn),
                              witness="a feature written with longitudes beyond +-180 degrees and a query on the other side of the date line")
            elif any(v[0] == "unknown" for v in verdicts):
                rep.unknown(rule, "%s: the alias longitude `%s` is not an expression this rule can evaluate" % (qn.split("::")[-1], norm.render(P, y)[:80]))
            else:
                which = [("L < 0" if v[2] == 0 else "L > 0") for v in verdicts if v[0] == "ok"]
                rep.ok(rule, "%s: alias longitude is L %s 2*pi (%s)" % (qn.split("::")[-1], "+-" if len(which) == 2 else ("+" if which == ["L < 0"] else "-"), ", ".join(which)), F.nloc(y), F.qn)
        # every half-range must be served by a statement
        for (lo, hi) in ((-TWO_PI, sp.Integer(0)), (sp.Integer(0), TWO_PI)):
            got = by_range.get((qn, lo, hi), [])
            if cands and got and "ok" not in got and "bad" not in got and "unknown" not in got:
                rep.violation(rule, "%s: no alias longitude is computed for %s < L < %s" % (qn.split("::")[-1], lo, hi), F.loc, F.qn, "",
                              "on that half of the longitudes the alias equals the point itself", key="%s|%s|range" % (rule, qn),
                              witness="a feature written with longitudes beyond +-180 degrees and a query on the other side of the date line")
    rep.floor(rule, n, 3, "alias longitude constructions")


def bezier_periodic_start(P, rep, rule="ALIAS.bezier-start"):
    """the start value of the spherical closest-point iteration does not depend on the 2*pi sheet of the query"""
    rep.rule(rule, "BezierCurve::closest_point_on_curve_segment, spherical branch: the difference check_point - p1 that feeds the linear start "
                   "estimate has its longitude component reduced to (-pi, pi] (minus 2*pi when above pi, plus 2*pi when below -pi) before "
                   "it is used; everything after the start value uses sin/cos of the longitude difference and is periodic by itself")
    F = P.func("WorldBuilder::Objects::BezierCurve::closest_point_on_curve_segment")
    R = lambda n: norm.render(P, n, nocast=True).replace(" ", "")
    decls = [x for x in F.walk() if x.get("k") == "VarDecl" and x.get("c") and R(x["c"][0]) in ("(check_point-p1)",)]
    sph = []
    for x in decls:
        for a in F.ancestors(x):
            if a.get("k") == "IfStmt" and "cartesian" in R(a["c"][0]) and len(a["c"]) > 2 and a["c"][2] is not None and any(y is x for y in F.walk(a["c"][2])):
                sph.append(x)
    if len(sph) != 1:
        rep.unknown(rule, "%d spherical `check_point - p1` differences found (1 expected)" % len(sph))
        return
    D = sph[0]
    sym = norm.Sym(P, F, inline_locals=False, hook=pi_hook(P))
    fixes = {}
    for x in F.walk():
        if x.get("k") == "CompoundAssignOperator" and x.get("op") in ("+=", "-="):
            sub = astq.subscript(x["c"][0])
            if sub and astq.is_ref_to(sub[0], D["r"]) and sc(sub[1]).get("v") == 0:
                g = astq.enclosing(F, x, ("IfStmt",))
                c = sc(g["c"][0]) if g else None
                if c is None or c.get("k") != "BinaryOperator" or c.get("op") not in ("<", ">", "<=", ">="):
                    continue
                cs = astq.subscript(c["c"][0])
                if not (cs and astq.is_ref_to(cs[0], D["r"]) and sc(cs[1]).get("v") == 0):
                    continue
                amount = sym(x["c"][1]) * (1 if x["op"] == "+=" else -1)
                bound = sym(c["c"][1])
                fixes[(c["op"][0], sp.simplify(bound), sp.simplify(amount))] = x
    want = {(">", sp.pi, -2 * sp.pi), ("<", -sp.pi, 2 * sp.pi)}
    # first use of the difference after its declaration must come after the reductions
    uses = [x for x in F.walk() if x.get("k") == "DeclRefExpr" and x.get("r") == D["r"]]
    fix_ids = set()
    for fx in fixes.values():
        g = astq.enclosing(F, fx, ("IfStmt",))
        top = g
        for a in F.ancestors(g):
            if a.get("k") == "IfStmt" and any(y is g for y in F.walk(a)) and R(a["c"][0]).startswith("(%s[0]" % D.get("n")):
                top = a
        fix_ids |= {y["i"] for y in F.walk(top)}
    other = [u for u in uses if u["i"] not in fix_ids]
    ordered = bool(other) and all((u.get("l") or 0) > max((fx.get("l") or 0) for fx in fixes.values()) for u in other) if fixes else False
    if set(fixes) >= want and ordered:
        rep.ok(rule, "%s[0] reduced to (-pi, pi] before the start estimate" % D.get("n"), F.nloc(D), F.qn)
    else:
        rep.violation(rule, "the spherical start estimate uses the raw longitude difference of %s (reductions found: %s)" % (D.get("n"), sorted((a, str(b), str(c)) for a, b, c in fixes)),
                      F.nloc(D), F.qn, norm.render(P, D)[:120], "for a curve listed on the other 2*pi sheet than the query the estimate is off by 2*pi; on a two-point "
                      "curve the iteration then stalls at t = 0 and the trench is not found", key=rule + "|raw",
                      witness="two-point trench [[-181,-10],[-182,10]] (findings/C08_two_point_trench)")


def plume_head(P, rep, rule="EXPR.plumehead"):
    rep.rule(rule, "between min depth and the first cross section the plume is closed by a half-ellipsoid: with a = first semi-major axis, "
                   "b = a sqrt(1 - e^2), c = first depth - min depth, (x', y') the horizontal offset rotated by -theta and z = first depth - depth, "
                   "the relative distance is x'^2/a^2 + y'^2/b^2 + z^2/c^2, evaluated under min_depth <= depth < first depth")
    F = P.func("WorldBuilder::Features::Plume::properties")
    _roles = norm.Subst(bind={F.params[2]: "depth"}) if len(F.params) > 2 else None      # the depth argument by position
    R = lambda x: norm.render(P, x, nocast=True, subst=_roles).replace(" ", "")
    heads = [x for x in F.walk() if x.get("k") == "IfStmt" and R(x["c"][0]) in ("((depth>=min_depth)&&(depth<depths.front()))", "((min_depth<=depth)&&(depth<depths.front()))")]
    if len(heads) != 1:
        rep.violation(rule, "plume head condition `min_depth <= depth < depths.front()` not found", F.loc, F.qn, "", "the plume is not closed above its first cross section as documented",
                      key=rule + "|cond", witness="depth between min depth and the first cross-section depth")
        return
    H = heads[0]
    A, E_, D0, dmin, d, th, px, py, cx, cy = sp.symbols("A E D0 dmin depth theta px py cx cy", real=True)
    depth_k = F.params[2]

    def hook(n):
        if n.get("k") == "DeclRefExpr" and n["r"] == depth_k:
            return d
        if n.get("k") == "DeclRefExpr" and n.get("n") in ("eccentricity", "rotation_angle"):
            return {"eccentricity": E_, "rotation_angle": th}[n["n"]]
        if n.get("k") == "MemberExpr" and astq.is_this_field(P, n, "min_depth"):
            return dmin
        mc = astq.member_call(P, n, "front")
        if mc and astq.is_this_field(P, mc[0]):
            return {"semi_major_axis_lengths": A, "depths": D0}.get(sc(mc[0]).get("n"))
        s = astq.subscript(n)
        if s and sc(s[1]).get("k") == "IntegerLiteral":
            nm = sc(s[0]).get("n")
            if nm == "surface_point":
                return (px, py)[sc(s[1])["v"]]
            if nm == "plume_center":
                return (cx, cy)[sc(s[1])["v"]]
        return None
    B = Block(P, F, choose=lambda c: True, hook=hook)
    B.sym.inline_locals = True
    B.run(astq.stmts_of(H["c"][1]))
    val = None
    for (kind, tk, *rest), v in B.state.items():
        if P.d(tk[1]).get("n") == "relative_distance_from_center":
            val = v
    xr = (px - cx) * sp.cos(th) + (py - cy) * sp.sin(th)
    yr = -(px - cx) * sp.sin(th) + (py - cy) * sp.cos(th)
    want = xr ** 2 / A ** 2 + yr ** 2 / (A ** 2 * (1 - E_ ** 2)) + (D0 - d) ** 2 / (D0 - dmin) ** 2
    known = {A, E_, D0, dmin, d, th, px, py, cx, cy}
    if val is not None and eq(val, want):
        rep.ok(rule, "plume head: x'^2/a^2 + y'^2/(a^2(1-e^2)) + (D0-depth)^2/(D0-min_depth)^2", F.nloc(H), F.qn)
    elif val is None or (val.free_symbols - known):
        # the head is computed from names this rule does not know (renamed locals, a struct of per-depth values): cannot judge
        rep.unknown(rule, "plume head: the relative distance is written over quantities this rule does not recognise: %s" % sorted(str(q) for q in (val.free_symbols - known))[:6] if val is not None else "plume head: relative_distance_from_center is not assigned in the head branch")
    else:
        rep.violation(rule, "plume head relative distance is %s" % str(val)[:120], F.nloc(H), F.qn, str(val)[:200], "expected the half-ellipsoid equation", key=rule + "|formula",
                      witness="point in the plume head off the axis")


def side_of_line_twins(P, rep, rule="EXPR.side-of-line"):
    """two points are on the same side of a line: both tests are the same function of the tested point and vanish on the line"""
    rep.rule(rule, "calculate_ridge_distance_and_spreading decides on which side of a transform fault the query lies by comparing two tests "
                   "`E(p) < 0`: both are the same expression in the tested point p (the ridge's reference point / the query), E is affine in p "
                   "and vanishes at both end points of the transform fault (E = (b - a) x (p - a)); otherwise the chosen ridge segment depends "
                   "on the orientation of the model")
    F = P.func("WorldBuilder::Utilities::calculate_ridge_distance_and_spreading")
    decls = {x["r"]: x for x in F.walk() if x.get("k") == "VarDecl" and x.get("c")}
    n = 0
    for c in F.walk():
        if not (c.get("k") == "BinaryOperator" and c.get("op") in ("==", "!=")):
            continue
        l, r = sc(c["c"][0]), sc(c["c"][1])
        if not (l.get("k") == "DeclRefExpr" and r.get("k") == "DeclRefExpr" and l.get("r") in decls and r.get("r") in decls):
            continue
        tests = []
        for side in (l, r):
            ini = sc(decls[side["r"]]["c"][0])
            if ini.get("k") == "BinaryOperator" and ini.get("op") in ("<", ">", "<=", ">=") and sc(ini["c"][1]).get("k") in ("IntegerLiteral", "FloatingLiteral") \
                    and float(sc(ini["c"][1])["v"]) == 0.0:
                tests.append((ini["op"], ini["c"][0], side))
        if len(tests) != 2:
            # both sides computed by one helper `side(a, b, p)` with a single return `E < 0`: judge E in the helper, and the two calls
            # must agree on the line and differ in the tested point only
            inits = [sc(decls[side["r"]]["c"][0]) for side in (l, r)]
            if all(i_.get("k") == "CallExpr" and i_.get("callee") in P.funcs for i_ in inits) and inits[0]["callee"] == inits[1]["callee"]:
                G = P.funcs[inits[0]["callee"]]
                rets = [x for x in G.walk() if x.get("k") == "ReturnStmt" and x.get("c")] if G.body is not None else []
                a0, a1 = [norm.render(P, z, nocast=True) for z in inits[0]["c"][1:]], [norm.render(P, z, nocast=True) for z in inits[1]["c"][1:]]
                diff = [i_ for i_ in range(min(len(a0), len(a1))) if a0[i_] != a1[i_]]
                ret0 = sc(rets[0]["c"][0]) if len(rets) == 1 else None
                if ret0 is not None and ret0.get("k") == "BinaryOperator" and ret0.get("op") in ("<", ">", "<=", ">=") and len(a0) == 3 and len(diff) == 1:
                    n += 1
                    pn = {}

                    def hook_g(nn):
                        s_ = astq.subscript(nn)
                        if s_ and sc(s_[0]).get("k") == "DeclRefExpr" and sc(s_[0]).get("r") in G.params and sc(s_[1]).get("k") == "IntegerLiteral":
                            i_ = G.params.index(sc(s_[0])["r"])
                            q = sp.Symbol("arg%d_%d" % (i_, sc(s_[1])["v"]), real=True)
                            pn.setdefault(i_, {})[sc(s_[1])["v"]] = q
                            return q
                        return None
                    try:
                        Eg = sp.expand(norm.Sym(P, G, inline_locals=True, hook=hook_g)(ret0["c"][0]))
                        pi_ = diff[0]
                        others = [i_ for i_ in (0, 1, 2) if i_ != pi_]
                        vanish = all(sp.expand(Eg.xreplace({pn[pi_][k_]: pn[o_][k_] for k_ in (0, 1)})) == 0 for o_ in others)
                        affine = sp.Poly(Eg, pn[pi_][0], pn[pi_][1]).total_degree() == 1
                    except Exception as e:
                        rep.unknown(rule, "side helper %s not evaluated (%s)" % (G.qn, e))
                        continue
                    if vanish and affine:
                        rep.ok(rule, "`%s == %s`: both are %s(a, b, p) = (b - a) x (p - a) %s 0 over one line" % (l.get("n"), r.get("n"), G.name, ret0["op"]), F.nloc(c), F.qn)
                    else:
                        rep.violation(rule, "`%s == %s`: %s is not the sign of (b - a) x (p - a)" % (l.get("n"), r.get("n"), G.name), G.loc, G.qn, norm.render(P, ret0)[:160],
                                      "for a transform fault that is not axis-parallel the query is assigned to the wrong ridge segment", key=rule + "|form",
                                      witness="the same oceanic plate rotated by 30 degrees: ages beside the transform fault change")
            continue
        n += 1
        names = {}

        def hook(nn):
            s = astq.subscript(nn)
            if s and sc(s[0]).get("k") == "DeclRefExpr" and sc(s[1]).get("k") == "IntegerLiteral" and "Point<2>" in (sc(s[0]).get("t") or P.d(sc(s[0])["r"]).get("t") or ""):
                nm = sc(s[0]).get("n")
                q = sp.Symbol("%s_%d" % (nm, sc(s[1])["v"]), real=True)
                names.setdefault(nm, {})[sc(s[1])["v"]] = q
                return q
            return None
        try:
            E = [sp.expand(norm.Sym(P, F, inline_locals=False, hook=hook)(t[1])) for t in tests]
        except Exception as e:
            rep.unknown(rule, "side tests not evaluated (%s)" % e)
            continue
        pts = [{str(q).rsplit("_", 1)[0] for q in e_.free_symbols} for e_ in E]
        shared = pts[0] & pts[1]
        own = [pts[0] - shared, pts[1] - shared]
        inst = "`%s == %s`" % (l.get("n"), r.get("n"))
        if len(shared) != 2 or len(own[0]) != 1 or len(own[1]) != 1 or tests[0][0] != tests[1][0]:
            rep.violation(rule, "%s: the two tests do not have the form E(p) %s 0 over one line (points %s / %s)" % (inst, tests[0][0], sorted(pts[0]), sorted(pts[1])),
                          F.nloc(c), F.qn, norm.render(P, c)[:100], "the two points are not compared against the same line", key=rule + "|shape",
                          witness="a ridge with a transform fault that is not parallel to an axis")
            continue
        p0, p1 = list(own[0])[0], list(own[1])[0]
        sub = {names[p1][i]: names[p0][i] for i in (0, 1) if i in names.get(p1, {}) and i in names.get(p0, {})}
        same = sp.expand(E[1].xreplace(sub) - E[0]) == 0
        problems = []
        if not same:
            problems.append("the test of %s is not the test of %s with the point replaced" % (p1, p0))
        for k_, (e_, p_) in enumerate(((E[0], p0), (E[1], p1))):
            for s_ in sorted(shared):
                v = sp.expand(e_.xreplace({names[p_][i]: names[s_][i] for i in (0, 1) if i in names[p_] and i in names[s_]}))
                if v != 0:
                    problems.append("E(%s) does not vanish at the line point %s" % (p_, s_))
            try:
                if sp.Poly(e_, *[names[p_][i] for i in sorted(names[p_])]).total_degree() != 1:
                    problems.append("E is not affine in %s" % p_)
            except Exception:
                problems.append("E is not a polynomial in %s" % p_)
        if problems:
            rep.violation(rule, "%s: %s" % (inst, "; ".join(problems[:3])), F.nloc(c), F.qn, norm.render(P, decls[tests[1][2]["r"]])[:160],
                          "the side of the transform fault is decided by something other than the sign of (b - a) x (p - a): for a fault that is not "
                          "axis-parallel the query is assigned to the wrong ridge segment", key=rule + "|form",
                          witness="the same oceanic plate rotated by 30 degrees: ages beside the transform fault change")
        else:
            rep.ok(rule, "%s: both are (b - a) x (p - a) < 0 over the line %s" % (inst, sorted(shared)), F.nloc(c), F.qn)
    rep.floor(rule, n, 1, "same-side comparisons")
