"""LAYOUT L4 — consumers of the flat result vector (gwb-dat, gwb-grid): the offsets they read are the
offsets their own property list has under the library's width table (DESIGN §3.2)."""
import re

import sympy as sp

from .. import astq, norm
from ..astq import sc
from ..tu import AnalysisBroken
from . import layout
from .layout import NG

COMP = sp.Symbol("compositions", integer=True, nonnegative=True)
GCOMP = sp.Symbol("grain_compositions", integer=True, nonnegative=True)
NGR = sp.Symbol("n_grains", integer=True, nonnegative=True)


def main_of(P, tu):
    fs = [F for F in P.funcs.values() if F.tu == tu and F.name == "main"]
    if len(fs) != 1:
        raise AnalysisBroken("main() of %s not found" % tu)
    return fs[0]


def var_by_name(F, name):
    ks = {n["r"] for n in F.walk() if n.get("k") == "VarDecl" and n.get("n") == name}
    if len(ks) != 1:
        raise AnalysisBroken("variable %s in %s: %d declarations" % (name, F.qn, len(ks)))
    return ks.pop()


def top_statements(F, node):
    return astq.stmts_of(node)


def request_segments(P, F, props_key, sym):
    """the request list a tool builds: [(kind, comp-expr, n-expr, multiplicity symbol or 1, loop var key)] in push order"""
    segs = []
    for n in F.walk():
        mc = astq.member_call(P, n, "push_back")
        if not mc or not astq.is_ref_to(mc[0], props_key):
            continue
        from .fwd import flatten_init
        el = flatten_init(mc[2][0])
        if len(el) != 3:
            raise AnalysisBroken("request element at %s is not a {kind, n, k} triple" % F.nloc(n))
        kind = sc(el[0]).get("v")
        loop = astq.enclosing(F, n, ("ForStmt",))
        mult = sp.Integer(1)
        lv = None
        if loop is not None:
            okl, iv, bound = layout.forward_loop(P, F, loop)
            if not okl:
                raise AnalysisBroken("request loop at %s is not a forward loop" % F.nloc(loop))
            mult = sp.expand(sym(bound))
            lv = iv
        segs.append(dict(kind=kind, comp=el[1], n=sp.expand(sym(el[2])), mult=mult, loopvar=lv, node=n))
    return segs


def segment_offsets(segs, widths):
    off = sp.Integer(0)
    out = []
    for s in segs:
        w = widths.get(s["kind"])
        if w is None:
            raise AnalysisBroken("request kind %s has no width" % s["kind"])
        w = sp.expand(w.subs(NG, s["n"]))
        out.append(dict(s, offset=off, width=w))
        off = sp.expand(off + s["mult"] * w)
    return out, off


def stream_items(P, F, stmt):
    """items streamed to std::cout by a statement, in order: ('lit', text) | ('expr', node)"""
    items = []

    def rec(e):
        e = sc(e)
        if e is None:
            return False
        if e.get("k") == "CXXOperatorCallExpr" and e.get("op") == "<<" and len(e["c"]) == 2:
            ok = rec(e["c"][0])
            if not ok:
                return False
            r = sc(e["c"][1])
            if r.get("k") == "StringLiteral":
                items.append(("lit", r.get("v", "")))
            elif r.get("k") == "CharacterLiteral":
                items.append(("lit", chr(r.get("v", 32))))
            elif r.get("k") == "DeclRefExpr" and P.d(r["r"]).get("qn") in ("std::endl", "std::flush"):
                items.append(("lit", "\n"))
            else:
                items.append(("expr", r))
            return True
        if e.get("k") == "CXXMemberCallExpr" and e["c"][0].get("n") == "operator<<":
            ok = rec(e["c"][0]["c"][0])
            if not ok:
                return False
            r = sc(e["c"][1])
            if r.get("k") == "DeclRefExpr" and P.d(r["r"]).get("k") in ("Function",):
                items.append(("lit", "\n"))
            else:
                items.append(("expr", r))
            return True
        if e.get("k") == "DeclRefExpr" and P.d(e["r"]).get("qn") == "std::cout":
            return True
        return False

    if stmt.get("k") in ("CXXOperatorCallExpr", "CXXMemberCallExpr") and rec(stmt):
        return items
    return None


def columns(P, F, stmts, sym, header):
    """(column-count polynomial, [(column item, multiplicity, loop vars)]) of a run of cout statements and
    loops.  header=True: count whitespace separated tokens of the literal text (expressions glued to a
    token do not add columns); header=False: count streamed non-literal expressions."""
    total = sp.Integer(0)
    seq = []

    def walk(stmts, mult, lvs):
        nonlocal total
        for s in stmts:
            if s is None:
                continue
            k = s.get("k")
            if k == "CompoundStmt":
                walk(s["c"], mult, lvs)
            elif k == "ForStmt":
                okl, iv, bound = layout.forward_loop(P, F, s)
                if not okl:
                    raise AnalysisBroken("output loop at %s is not a forward loop" % F.nloc(s))
                walk([s["c"][3]], sp.expand(mult * sym(bound)), lvs + [iv])
            else:
                it = stream_items(P, F, s)
                if it is None:
                    continue
                if header:
                    text = ""
                    for kind, v in it:
                        text += v if kind == "lit" else "\u0001"
                    toks = [t for t in text.replace("#", " ").split() if t.strip()]
                    for t in toks:
                        seq.append((t.replace("\u0001", "{}"), mult, list(lvs)))
                        total = sp.expand(total + mult)
                else:
                    for kind, v in it:
                        if kind == "expr":
                            seq.append((v, mult, list(lvs)))
                            total = sp.expand(total + mult)
    walk(stmts, sp.Integer(1), [])
    return total, seq


def local_helpers_called(P, F, pred=None):
    """functions of F's own source file that F calls (file-local helpers), optionally filtered by pred(G)"""
    out = []
    for x in F.walk():
        if x.get("k") == "CallExpr" and x.get("callee"):
            G = P.funcs.get(x["callee"])
            if G is not None and G is not F and G.body is not None and G.file == F.file and (pred is None or pred(G)):
                if G not in out:
                    out.append(G)
    return out


def gwb_dat(P, rep, widths, rule="LAYOUT.L4.dat"):
    rep.rule(rule, "gwb-dat: for dim 2 and 3 the header has as many column names as a row has values (as polynomials in "
                   "compositions, grain compositions, grains); every printed output[idx] is at the offset its column has in the "
                   "tool's own request list under the library's width table; the row query receives the row's own coordinates "
                   "and depth")
    F = main_of(P, "gwb-dat")
    printers = local_helpers_called(P, F, lambda G: any(y.get("k") == "DeclRefExpr" and P.d(y["r"]).get("qn") == "std::cout" for y in G.walk()))
    if printers:
        # the table is (partly) printed by helper functions: this rule reads the stream statements of main() only
        rep.unknown(rule, "gwb-dat prints part of its table in %s: the column/offset comparison is written over main() alone" % ", ".join(g.qn for g in printers))
        return
    props = var_by_name(F, "properties")
    names = {}
    for nm in ("compositions", "grain_compositions", "n_grains", "dim"):
        names[nm] = var_by_name(F, nm)
    sym = norm.Sym(P, F, inline_locals=True)
    sym.env[names["compositions"]] = COMP
    sym.env[names["grain_compositions"]] = GCOMP
    sym.env[names["n_grains"]] = NGR
    segs = request_segments(P, F, props, sym)
    kinds = [s["kind"] for s in segs]
    if sorted(kinds) != [1, 2, 3, 4, 5]:
        rep.unknown(rule, "request list of gwb-dat has kinds %s (expected one each of 1..5)" % kinds)
        return
    segs, total = segment_offsets(segs, widths)
    by_kind = {s["kind"]: s for s in segs}
    rep.ok(rule, "request list: " + ", ".join("%s@%s(x%s)" % (layout.KINDS[s["kind"]], s["offset"], s["mult"]) for s in segs) + "; total %s" % total,
           F.nloc(segs[0]["node"]), F.qn)
    # the request holds as many blocks of each kind as the table has column groups: one composition block per requested composition,
    # one grains block (of n_grains grains) per requested grain composition, one each of temperature, velocity, tag
    want_mult = {1: (sp.Integer(1), None), 5: (sp.Integer(1), None), 4: (sp.Integer(1), None), 2: (COMP, None), 3: (GCOMP, NGR)}
    for kd, (wm, wn) in want_mult.items():
        sg = by_kind[kd]
        if sp.expand(sg["mult"] - wm) != 0 or (wn is not None and sp.expand(sg["n"] - wn) != 0):
            rep.violation(rule, "request list: %s is requested %s times%s, the table prints %s%s" % (
                              layout.KINDS[kd], sg["mult"], (" with %s grains" % sg["n"]) if wn is not None else "", wm, (" with %s grains" % wn) if wn is not None else ""),
                          F.nloc(sg["node"]), F.qn, norm.render(P, sg["node"])[:120],
                          "the rows are printed from positions the request does not contain (values of other properties, or memory past the result)",
                          key="%s|request|%s" % (rule, layout.KINDS[kd]),
                          witness="a data file with more grain compositions than compositions (or the reverse)")
        else:
            rep.ok(rule, "request list: %s x %s" % (layout.KINDS[kd], wm), F.nloc(sg["node"]), F.qn)
    # the switch on dim
    sws = [n for n in F.walk() if n.get("k") == "SwitchStmt" and astq.is_ref_to(n["c"][0], names["dim"])]
    if len(sws) != 1:
        rep.unknown(rule, "%d switches on dim" % len(sws))
        return
    cases = astq.switch_cases(sws[0])
    for dim in (2, 3):
        stmts = cases.get(dim)
        if stmts is None:
            rep.violation(rule, "dim %d: no case" % dim, F.nloc(sws[0]), F.qn, "", "dimension not handled", key="%s|dim%d|missing" % (rule, dim))
            continue
        # split: header statements (before the row loop) and the row loop
        row_loop = None
        header = []
        for s in stmts:
            if s.get("k") == "ForStmt" and any(x.get("k") == "CXXMemberCallExpr" and P.d(x.get("callee")).get("qn") == "WorldBuilder::World::properties"
                                              for x in F.walk(s)):
                row_loop = s
                break
            header.append(s)
        if row_loop is None:
            rep.unknown(rule, "dim %d: no row loop calling World::properties" % dim)
            continue
        hcount, hseq = columns(P, F, header, sym, header=True)
        # row body: the statements of the innermost block that contains the properties call
        call = [x for x in F.walk(row_loop) if x.get("k") == "CXXMemberCallExpr" and P.d(x.get("callee")).get("qn") == "WorldBuilder::World::properties"][0]
        blk = astq.enclosing(F, call, ("CompoundStmt",))
        rcount, rseq = columns(P, F, blk["c"], sym, header=False)
        inst = "dim %d: header columns %s vs row values %s" % (dim, hcount, rcount)
        if sp.expand(hcount - rcount) == 0:
            rep.ok(rule, inst, F.nloc(row_loop), F.qn)
        else:
            hnames = [t for t, m, l in hseq if m == 1]
            rep.violation(rule, inst, F.nloc(header[0]) if header else F.nloc(row_loop), F.qn, " ".join(hnames),
                          "the header names %s columns but each row prints %s values" % (hcount, rcount),
                          key="%s|dim%d|columns" % (rule, dim), witness="any data file of this dimension: values are shifted against their column names")
        # the result variable
        par = F.parent.get(call["i"])
        while par is not None and par.get("k") != "VarDecl":
            par = F.parent.get(par["i"])
        if par is None:
            rep.unknown(rule, "dim %d: result of properties() is not bound to a local" % dim)
            continue
        outk = par["r"]
        # expected offsets in print order
        outs = []
        for item, mult, lvs in rseq:
            s = astq.subscript(item)
            if s and astq.is_ref_to(s[0], outk):
                outs.append((item, s[1], mult, lvs))
        nvel = dim      # 2D prints vx vz, 3D prints vx vy vz
        exp = []
        exp.append(("temperature", by_kind[1]["offset"], []))
        for j in range(nvel):
            exp.append(("velocity[%d]" % j, by_kind[5]["offset"] + j, []))
        pos = 0
        problems = 0

        def check(label, idxnode, want, mult, lvs):
            nonlocal problems
            env_sym = norm.Sym(P, F, inline_locals=True)
            env_sym.env.update(sym.env)
            got = sp.expand(env_sym(idxnode))
            # output.size() - 1
            got = got.replace(lambda e: e.func.__name__ == "size" if hasattr(e, "func") else False, lambda e: total)
            want_e = sp.expand(want)
            # loop variables: map by order to canonical symbols
            if sp.expand(got - want_e) == 0:
                rep.ok(rule, "dim %d: %s at output[%s]" % (dim, label, want_e), F.nloc(idxnode), F.qn)
            else:
                problems += 1
                rep.violation(rule, "dim %d: %s is read from output[%s], its offset in the request is %s" % (dim, label, norm.render(P, idxnode), want_e),
                              F.nloc(idxnode), F.qn, "output[%s]" % norm.render(P, idxnode),
                              "the value printed under this column is another property's value",
                              key="%s|dim%d|%s" % (rule, dim, label.split("[")[0]),
                              witness="data file with dim = %d%s" % (dim, " and compositions >= 1" if "comp" in label or "grain" in label else ""))
        it = iter(outs)
        try:
            item, idx, mult, lvs = next(it)
            check("temperature", idx, by_kind[1]["offset"], mult, lvs)
            for j in range(nvel):
                item, idx, mult, lvs = next(it)
                check("velocity[%d]" % j, idx, by_kind[5]["offset"] + j, mult, lvs)
            # compositions
            item, idx, mult, lvs = next(it)
            if len(lvs) != 1 or sp.expand(mult - COMP) != 0:
                rep.unknown(rule, "dim %d: composition column is not printed in a loop over compositions" % dim)
            else:
                c = sym.symbol(P.d(lvs[0]).get("n"), lvs[0])
                check("composition[c]", idx, by_kind[2]["offset"] + c, mult, lvs)
            # grains: 10 values per (gc, g)
            gvals = []
            for _ in range(10):
                gvals.append(next(it))
            lv = gvals[0][3]
            if len(lv) != 2 or sp.expand(gvals[0][2] - GCOMP * NGR) != 0:
                rep.unknown(rule, "dim %d: grains are not printed in a loop over grain compositions x grains" % dim)
            else:
                gc = sym.symbol(P.d(lv[0]).get("n"), lv[0])
                g = sym.symbol(P.d(lv[1]).get("n"), lv[1])
                base = by_kind[3]["offset"] + gc * by_kind[3]["width"]
                check("grain size", gvals[0][1], base + g, gvals[0][2], lv)
                for k in range(9):
                    check("grain matrix[%d]" % k, gvals[1 + k][1], base + NGR + 9 * g + k, gvals[1 + k][2], lv)
            item, idx, mult, lvs = next(it)
            check("tag", idx, by_kind[4]["offset"], mult, lvs)
            extra = list(it)
            if extra:
                rep.violation(rule, "dim %d: %d extra output values printed" % (dim, len(extra)), F.nloc(extra[0][0]), F.qn, "",
                              "more values than the request contains", key="%s|dim%d|extra" % (rule, dim))
        except StopIteration:
            rep.violation(rule, "dim %d: fewer output values are printed than the request contains" % dim, F.nloc(row_loop), F.qn, "",
                          "a requested property is never printed", key="%s|dim%d|short" % (rule, dim))
        # provenance of the query arguments: coords = data[i][0..dim-1], depth = data[i][dim]
        row_provenance(P, rep, F, row_loop, call, dim, rule)


def row_provenance(P, rep, F, row_loop, call, dim, rule):
    okl, iv, bound = layout.forward_loop(P, F, row_loop)
    args = call["c"][1:]
    depth = sc(args[1])
    want_depth = "string_to_double(data[%s][%d])" % (P.d(iv).get("n"), dim)
    got_depth = norm.render(P, depth, subst=norm.naming_locals(P, F)).replace("(anonymous namespace)::", "").replace("WorldBuilder::Utilities::", "")
    coords = sc(args[0])
    init = None
    if coords.get("k") == "DeclRefExpr":
        for n in F.walk(row_loop):
            if n.get("k") == "VarDecl" and n.get("r") == coords["r"] and n.get("c"):
                init = n["c"][0]
    from .fwd import flatten_init
    elems = flatten_init(init) if init is not None else []
    idxs = []
    for e in elems:
        found = None
        for x in F.walk(e):
            s = astq.subscript(x)
            if s:
                s2 = astq.subscript(astq.resolve_alias(P, F, s[0]))
                if s2 and sc(s2[0]).get("n") == "data" and astq.is_ref_to(s2[1], iv) and sc(s[1]).get("k") == "IntegerLiteral":
                    found = sc(s[1])["v"]
        idxs.append(found)
    problems = []
    if idxs != list(range(dim)):
        problems.append("coordinates are built from data columns %s, expected %s" % (idxs, list(range(dim))))
    if not re.search(r"data\[%s\]\[%d\]" % (re.escape(P.d(iv).get("n")), dim), got_depth):
        problems.append("depth is %s, expected column %d of the row" % (got_depth, dim))
    # conversions: only a factor (convert_spherical ? pi/180 : 1) on columns >= 1
    for j, e in enumerate(elems):
        txt = norm.render(P, e)
        if "convert_spherical" in txt and j == 0:
            problems.append("the radius column is scaled by the degree conversion")
    # 'convert spherical': (R, long, lat) goes through Utilities::spherical_to_cartesian_coordinates, under the flag only
    if dim == 3:
        conv = []
        for n in F.walk(row_loop):
            if n.get("k") in ("BinaryOperator", "CXXOperatorCallExpr") and n.get("op") == "=" and coords.get("k") == "DeclRefExpr" and astq.is_ref_to(n["c"][0], coords["r"]):
                conv.append(n)
        if len(conv) != 1:
            problems.append("coordinates are reassigned %d times (expected once, under 'convert spherical')" % len(conv))
        else:
            c = conv[0]
            g = astq.enclosing(F, c, ("IfStmt",))
            gtxt = norm.render(P, g["c"][0]) if g is not None else ""
            callee = None
            for x in F.walk(c["c"][1]):
                if x.get("k") == "CallExpr" and x.get("callee"):
                    callee = P.d(x["callee"]).get("qn")
                elif x.get("k") == "CXXMemberCallExpr" and x.get("callee") and callee is None and P.d(x["callee"]).get("n") != "get_array":
                    callee = P.d(x["callee"]).get("qn")
            if gtxt.strip("()") != "convert_spherical":
                problems.append("the spherical conversion is guarded by `%s`, not by the 'convert spherical' option" % gtxt)
            if callee != "WorldBuilder::Utilities::spherical_to_cartesian_coordinates":
                problems.append("under 'convert spherical' the row is converted by %s, not by Utilities::spherical_to_cartesian_coordinates" % callee)
    if problems:
        rep.violation(rule, "dim %d: row query arguments" % dim, F.nloc(call), F.qn, norm.render(P, call)[:120], "; ".join(problems),
                      key="%s|dim%d|row-args" % (rule, dim), witness="data file whose columns differ from each other")
    else:
        rep.ok(rule, "dim %d: query uses columns 0..%d as coordinates and column %d as depth of the same row" % (dim, dim - 1, dim), F.nloc(call), F.qn)


def dat_input_discipline(P, rep, rule="DAT.input"):
    """how gwb-dat reads its data file: every line reaches the tokenizer unchanged, options do not depend on their order,
    every non-empty non-comment row reaches the arity check, the 2D refusal of 'convert spherical' precedes all output"""
    rep.rule(rule, "gwb-dat: (a) the line read by getline is handed to the tokenizer unmodified; (b) inside the loop that parses option "
                   "lines no option variable is read (each option depends on its own line only, so the order of option lines is "
                   "irrelevant); (c) the row loops skip only empty rows and rows starting with '#', every other row meets the release-active "
                   "`dim + 1 entries` check; (d) in 2D a release-active refusal of 'convert spherical' comes before the first output")
    F = main_of(P, "gwb-dat")
    R = lambda n: norm.render(P, n, nocast=True, subst=norm.naming_locals(P, F)).replace(" ", "")
    # (a) the getline target
    gl = [x for x in F.walk() if x.get("k") == "CallExpr" and P.d(x.get("callee")).get("n") == "getline"]
    if len(gl) != 1:
        rep.unknown(rule, "%d getline calls in gwb-dat" % len(gl))
    else:
        tk = sc(gl[0]["c"][2]).get("r")
        muts = []
        for x in F.walk():
            if x.get("k") == "CXXMemberCallExpr" and x["c"][0].get("k") == "MemberExpr" and x["c"][0].get("c") and astq.is_ref_to(x["c"][0]["c"][0], tk):
                if not P.d(x.get("callee")).get("const"):
                    muts.append(x)
            if x.get("k") in ("BinaryOperator", "CompoundAssignOperator", "CXXOperatorCallExpr") and x.get("op") in norm.ASSIGN_OPS and astq.is_ref_to(x["c"][0], tk):
                muts.append(x)
        if muts:
            rep.violation(rule, "the line buffer is modified before it is tokenised: %s" % R(muts[0])[:80], F.nloc(muts[0]), F.qn, norm.render(P, muts[0])[:140],
                          "part of a line of the data file is dropped or rewritten: options or coordinates are silently lost", key=rule + "|line-mutated",
                          witness="an indented option line / a line containing the affected character")
        else:
            rep.ok(rule, "(a) the getline buffer is only read (tokenised) after it is filled", F.nloc(gl[0]), F.qn)
    # (b) the option loop
    opt_names = ("dim", "compositions", "grain_compositions", "n_grains", "convert_spherical")
    opt_keys = {}
    for nm in opt_names:
        try:
            opt_keys[var_by_name(F, nm)] = nm
        except AnalysisBroken:
            pass
    loops = []
    for x in F.walk():
        if x.get("k") == "CXXForRangeStmt":
            w = {sc(y["c"][0]).get("r") for y in F.walk(x["c"][-1]) if y.get("k") in ("BinaryOperator", "CXXOperatorCallExpr") and y.get("op") == "=" and sc(y["c"][0]).get("k") == "DeclRefExpr"}
            if len(w & set(opt_keys)) >= 3:
                loops.append(x)
    if len(loops) != 1 or len(opt_keys) < 5:
        rep.unknown(rule, "option loop of gwb-dat not identified (%d candidates, %d option variables)" % (len(loops), len(opt_keys)))
    else:
        L = loops[0]
        reads = []
        for y in F.walk(L["c"][-1]):
            if y.get("k") == "DeclRefExpr" and y.get("r") in opt_keys:
                par = F.parent.get(y["i"])
                if par is not None and par.get("k") in ("BinaryOperator", "CXXOperatorCallExpr") and par.get("op") == "=" and sc(par["c"][0]) is y:
                    continue
                reads.append(y)
        if reads:
            y = reads[0]
            st = astq.enclosing(F, y, ("IfStmt", "DoStmt", "BinaryOperator")) or y
            rep.violation(rule, "the option loop reads `%s` while options are still being parsed" % opt_keys[y["r"]], F.nloc(y), F.qn, norm.render(P, st)[:140],
                          "the outcome depends on the order of the option lines in the file", key="%s|order|%s" % (rule, opt_keys[y["r"]]),
                          witness="the same file with the two option lines swapped")
        else:
            rep.ok(rule, "(b) option loop: %d option variables assigned, none read" % len(opt_keys), F.nloc(L), F.qn)
    # (c) row filters
    nrows = 0
    for x in F.walk():
        if x.get("k") != "IfStmt":
            continue
        asserts_ = [y for y in F.walk(x["c"][1]) if y.get("k") == "DoStmt" and y.get("m") == "WBAssertThrow" and "dim+1" in R(y).replace("(", "").replace(")", "")]
        c = R(x["c"][0])
        if not asserts_ or "data[" not in c or not ("size()" in c or "empty()" in c):
            continue
        direct = [y for y in asserts_ if astq.enclosing(F, y, ("IfStmt",)) is x]
        if not direct:
            continue
        nrows += 1
        m = re.match(r'^\(\(data\[(\w+)\]\.size\(\)>0\)&&\(data\[\1\]\[0\]!="#"\)\)$', c)
        m2 = re.match(r'^\(\(?!data\[(\w+)\]\.empty\(\)\)?&&\(data\[\1\]\[0\]!="#"\)\)$', c)
        nl = norm.naming_locals(P, F)
        body_st = [st for st in astq.stmts_of(x["c"][1])
                   if not (st.get("k") == "DeclStmt" and all(v.get("k") != "VarDecl" or v.get("r") in nl.vals for v in st.get("c", [])))]
        first = body_st[0] if body_st else None
        if (m or m2) and first is direct[0]:
            rep.ok(rule, "(c) row loop at %s: only empty and '#' rows are skipped, the arity check comes first" % F.nloc(x), F.nloc(x), F.qn)
        else:
            rep.violation(rule, "row filter is `%s`%s" % (c[:80], "" if first is direct[0] else " and the arity check is not the first statement"), F.nloc(x), F.qn, c,
                          "rows other than empty lines and comments are skipped silently: a truncated or mis-dimensioned row disappears from the table",
                          key="%s|rowfilter|%d" % (rule, nrows), witness="a row with fewer than dim+1 entries")
    if nrows != 2:
        rep.unknown(rule, "%d row loops with the `dim + 1 entries` check (2 expected)" % nrows)
    # (d) the 2D refusal
    sws = [x for x in F.walk() if x.get("k") == "SwitchStmt"]
    okd = False
    where = F.loc
    for sw in sws:
        cases = astq.switch_cases(sw)
        st2 = cases.get(2)
        if st2:
            where = F.nloc(st2[0])
            for st in st2:
                if st.get("k") == "DoStmt" and st.get("m") == "WBAssertThrow" and "convert_spherical" in R(st):
                    okd = True
                    break
                if any(y.get("k") == "DeclRefExpr" and P.d(y["r"]).get("qn") == "std::cout" for y in F.walk(st)):
                    break
    if okd:
        rep.ok(rule, "(d) case dim == 2 refuses 'convert spherical' before any output", where, F.qn)
    else:
        rep.violation(rule, "case dim == 2 does not refuse 'convert spherical' before its first output", where, F.qn, "",
                      "a 2D file asking for spherical conversion is answered with a Cartesian table instead of an error", key=rule + "|refusal2d",
                      witness="2D data file with '# convert spherical = true'")


def option_loop_discipline(P, rep, tu, rule):
    """the loop that reads `name = value` option lines of a tool's input file"""
    rep.rule(rule, "%s: the loop that parses option lines runs over all lines of the file (no break or return leaves it), and no option "
                   "variable - a local declared before the loop and assigned in it - is read inside the loop: every option depends on its "
                   "own line only, so neither the position of an option line in the file nor the order of the option lines matters" % tu)
    F = main_of(P, tu)
    best = None
    for x in F.walk():
        if x.get("k") != "CXXForRangeStmt":
            continue
        inside = {v["r"] for v in F.walk(x) if v.get("k") == "VarDecl"}
        assigned = {}
        for y in F.walk(x["c"][-1]):
            if y.get("k") in ("BinaryOperator", "CXXOperatorCallExpr") and y.get("op") == "=":
                t = sc(y["c"][0])
                if t.get("k") == "DeclRefExpr" and P.d(t["r"]).get("storage") == "local" and t["r"] not in inside:
                    assigned.setdefault(t["r"], []).append(y)
        if len(assigned) >= 3 and (best is None or len(assigned) > len(best[1])):
            best = (x, assigned)
    if best is None:
        rep.unknown(rule, "%s: option loop not identified" % tu)
        return
    L, assigned = best
    names = sorted(P.d(k).get("n", "?") for k in assigned)
    problems = []
    # the lines it ranges over: the vector filled by the file-reading loop
    rng = sc(L["c"][1])
    if not (rng.get("k") == "DeclRefExpr" and "vector<std::vector<std::" in (rng.get("t") or P.d(rng["r"]).get("t") or "").replace("basic_string", "").replace(" ", "") or rng.get("n") == "data"):
        problems.append(("range", "the option loop ranges over %s, not over the lines read from the file" % norm.render(P, rng)[:40], L))
    for y in F.walk(L["c"][-1]):
        if y.get("k") in ("BreakStmt", "ReturnStmt", "GotoStmt"):
            tgt = None
            for a in F.ancestors(y):
                if a.get("k") in ("SwitchStmt", "ForStmt", "CXXForRangeStmt", "WhileStmt", "DoStmt"):
                    if a.get("k") == "DoStmt" and a.get("m"):
                        continue
                    tgt = a
                    break
            if y.get("k") != "BreakStmt" or tgt is L:
                problems.append(("exit", "the option loop is left by `%s`: option lines after that point are ignored" % y["k"][:-4].lower(), y))
    for y in F.walk(L["c"][-1]):
        if y.get("k") == "DeclRefExpr" and y.get("r") in assigned:
            par = F.parent.get(y["i"])
            if par is not None and par.get("k") in ("BinaryOperator", "CXXOperatorCallExpr") and par.get("op") == "=" and sc(par["c"][0]) is y:
                continue
            problems.append(("order|" + P.d(y["r"]).get("n", "?"), "the option loop reads `%s` while options are still being parsed: the outcome depends on the order of the option lines" % P.d(y["r"]).get("n"), y))
    if problems:
        seen = set()
        for key, why, node in problems:
            if key in seen:
                continue
            seen.add(key)
            rep.violation(rule, "%s: %s" % (tu, why), F.nloc(node), F.qn, norm.render(P, astq.enclosing(F, node, ("IfStmt", "VarDecl")) or node)[:140],
                          "the meaning of the input file depends on where an option line stands", key="%s|%s|%s" % (rule, tu, key),
                          witness="the same file with that option line moved (before / after the other lines)")
    else:
        rep.ok(rule, "%s: option loop assigns %d option variables (%s ...), reads none, never leaves early" % (tu, len(assigned), ", ".join(names[:5])), F.nloc(L), F.qn)


# ------------------------------------------------------------------------------------------------
def _guarded_by_helper(P, F, use, btxt):
    """some condition that controls `use` (an enclosing if / conjunct, or a guard clause before it) hands the container to a function of the
    program: the size test may live there"""
    conds = []
    for a in F.ancestors(use):
        if a.get("k") == "IfStmt":
            conds.append(a["c"][0])
        if a.get("k") == "BinaryOperator" and a.get("op") in ("&&", "||"):
            conds.append(a["c"][0])
        if a.get("k") == "CompoundStmt":
            for s in a["c"]:
                if s is None:
                    continue
                if any(y is use for y in F.walk(s)):
                    break
                if s.get("k") == "IfStmt":
                    conds.append(s["c"][0])
    for c in conds:
        for y in F.walk(c):
            if y.get("k") == "CallExpr" and y.get("callee") in P.funcs and P.funcs[y["callee"]].body is not None \
                    and not P.funcs[y["callee"]].qn.startswith("std::") and any(norm.render(P, z) == btxt for z in y["c"][1:]):
                return True
    return False


def index_guards(P, rep, tu, rule="G3.index"):
    """every literal subscript on a vector<string> line is dominated by a size test implying the index is in range"""
    rep.rule(rule, "every `line[k]` on a tokenised input line is evaluated only after a test implying k < line.size() "
                   "(short-circuit conjunct, enclosing if, or release-active assertion)")
    F = main_of(P, tu)
    n = 0
    dimkey = None
    try:
        dimkey = var_by_name(F, "dim")
    except AnalysisBroken:
        pass
    for x in F.walk():
        s = astq.subscript(x)
        if not s:
            continue
        base = sc(s[0])
        if "vector<std::basic_string" not in base.get("t", "").replace("std::vector<std::__cxx11::basic_string", "vector<std::basic_string") and \
                not re.match(r"^(const )?std::vector<std::(__cxx11::)?basic_string<char", base.get("t", "")):
            continue
        k = sc(s[1])
        if k.get("k") != "IntegerLiteral":
            continue
        n += 1
        need = k["v"] + 1
        have = guaranteed_size(P, F, x, base, dimkey)
        btxt = norm.render(P, base)
        if have >= need:
            rep.ok(rule, "%s[%d] (size >= %d known)" % (btxt, k["v"], have), F.nloc(x), F.qn)
        elif _guarded_by_helper(P, F, x, btxt):
            rep.unknown(rule, "%s[%d]: the line is tested by a helper function before it is indexed; this rule reads size tests written in %s only" % (
                btxt, k["v"], F.name))
        else:
            rep.violation(rule, "%s[%d] is read with only size >= %d established" % (btxt, k["v"], have), F.nloc(x), F.qn, norm.render(P, x),
                          "a shorter line is indexed out of bounds", key="%s|%s|%s[%d]" % (rule, tu, btxt, k["v"]),
                          witness="an input line consisting of '#' alone" if "line" in btxt else "a short data row")
    rep.floor(rule, n, 20, "literal subscripts on tokenised lines in %s" % tu)


def guaranteed_size(P, F, use, base, dimkey):
    """lower bound on base.size() known when `use` is evaluated"""
    btxt = norm.render(P, base)
    best = 0

    def facts_of(c, positive=True):
        nonlocal best
        c = sc(c)
        if c is None:
            return
        if c.get("k") == "UnaryOperator" and c.get("op") == "!":
            mc = astq.member_call(P, c["c"][0], "empty")
            if mc and norm.render(P, mc[0]) == btxt and positive:
                best = max(best, 1)
            return
        if c.get("k") == "BinaryOperator":
            op = c["op"]
            if op == "&&" and positive:
                facts_of(c["c"][0])
                facts_of(c["c"][1])
                return
            a, b = sc(c["c"][0]), sc(c["c"][1])
            ma = astq.member_call(P, a, "size")
            if ma and norm.render(P, ma[0]) == btxt and positive:
                v = const_value(P, F, b, use, dimkey)
                if v is not None:
                    m = {"==": v, ">=": v, ">": v + 1}.get(op)
                    if m is not None:
                        best = max(best, m)
    def neg_facts_of(c):
        """facts that hold when the condition c is false"""
        nonlocal best
        c = sc(c)
        if c is None:
            return
        if c.get("k") == "BinaryOperator" and c.get("op") == "||":
            neg_facts_of(c["c"][0])
            neg_facts_of(c["c"][1])
            return
        if c.get("k") == "UnaryOperator" and c.get("op") == "!":
            facts_of(c["c"][0])
            return
        mc = astq.member_call(P, c, "empty")
        if mc and norm.render(P, mc[0]) == btxt:
            best = max(best, 1)
            return
        if c.get("k") == "BinaryOperator":
            a, b = sc(c["c"][0]), sc(c["c"][1])
            ma = astq.member_call(P, a, "size")
            if ma and norm.render(P, ma[0]) == btxt:
                v = const_value(P, F, b, use, dimkey)
                if v is not None:
                    m = {"<": v, "<=": v + 1, "!=": v, "==": (1 if v == 0 else None)}.get(c["op"])
                    if m is not None:
                        best = max(best, m)

    def leaves(stmt):
        """the statement only leaves: continue / break / return / throw"""
        st = [x for x in (stmt["c"] if stmt.get("k") == "CompoundStmt" else [stmt]) if x is not None]
        return bool(st) and st[-1].get("k") in ("ContinueStmt", "BreakStmt", "ReturnStmt", "CXXThrowExpr", "ExprWithCleanups") and (
            st[-1].get("k") != "ExprWithCleanups" or any(y.get("k") == "CXXThrowExpr" for y in F.walk(st[-1])))
    # short-circuit conjuncts to the left, enclosing ifs (then-branch), preceding release-active assertions in the same block
    node = use
    for a in F.ancestors(use):
        if a.get("k") == "BinaryOperator" and a.get("op") == "&&":
            # use is inside the right operand?
            if any(y is node for y in F.walk(a["c"][1])):
                facts_of(a["c"][0])
        if a.get("k") == "BinaryOperator" and a.get("op") == "||":
            if any(y is node for y in F.walk(a["c"][1])):
                neg_facts_of(a["c"][0])
        if a.get("k") == "CompoundStmt":
            for s in a["c"]:
                if s is None:
                    continue
                if any(y is use for y in F.walk(s)):
                    break
                if s.get("k") == "IfStmt" and not s.get("m") and (len(s["c"]) < 3 or s["c"][2] is None) and leaves(s["c"][1]):
                    neg_facts_of(s["c"][0])     # a guard clause: past it the condition is false
        if a.get("k") == "IfStmt" and any(y is use for y in F.walk(a["c"][1])):
            facts_of(a["c"][0])
        if a.get("k") == "CompoundStmt":
            for s in a["c"]:
                if any(y is use for y in F.walk(s)):
                    break
                for g in F.walk(s):
                    if g.get("k") == "IfStmt" and g.get("m") == "WBAssertThrow" and not g.get("ma"):
                        c = sc(g["c"][0])
                        if c.get("k") == "UnaryOperator" and c.get("op") == "!":
                            facts_of(c["c"][0])
        node = a
    return best


def const_value(P, F, e, use, dimkey):
    e = sc(e)
    if e.get("k") == "IntegerLiteral":
        return e["v"]
    if e.get("k") == "BinaryOperator" and e.get("op") == "+":
        a = const_value(P, F, e["c"][0], use, dimkey)
        b = const_value(P, F, e["c"][1], use, dimkey)
        if a is not None and b is not None:
            return a + b
    if e.get("k") == "DeclRefExpr" and dimkey is not None and e["r"] == dimkey:
        # inside `switch (dim) case K:`
        for a in F.ancestors(use):
            if a.get("k") == "SwitchStmt" and astq.is_ref_to(a["c"][0], dimkey):
                for kind, stmts in astq.switch_cases(a).items():
                    for s in stmts:
                        if any(y is use for y in F.walk(s)):
                            return kind if isinstance(kind, int) else None
    return None


# ------------------------------------------------------------------------------------------------
def gwb_grid(P, rep, widths, rule="LAYOUT.L4.grid"):
    rep.rule(rule, "gwb-grid: in both parallel callables data_set[s][...] receives output[idx] where idx is the offset of the data "
                   "set's property in the tool's own request list; dataSetInfo names/components line up with the data_set slots; "
                   "filter_vtu_mesh's literal indices are the positions of 'Tag' and of the 3-component set; the node queried is "
                   "(grid_x[i], grid_y[i], grid_z[i]) at grid_depth[i] for the same i")
    F = main_of(P, "gwb-grid")
    props = var_by_name(F, "properties")
    comp = var_by_name(F, "compositions")
    sym = norm.Sym(P, F, inline_locals=True)
    sym.env[comp] = COMP
    segs = request_segments(P, F, props, sym)
    kinds = [s["kind"] for s in segs]
    if sorted(kinds) != [1, 2, 4, 5]:
        rep.unknown(rule, "request list of gwb-grid has kinds %s (expected one each of 1,2,4,5)" % kinds)
        return
    segs, total = segment_offsets(segs, widths)
    by_kind = {s["kind"]: s for s in segs}
    rep.ok(rule, "request list: " + ", ".join("%s@%s(x%s)" % (layout.KINDS[s["kind"]], s["offset"], s["mult"]) for s in segs), F.nloc(segs[0]["node"]), F.qn)
    # dataSetInfo: name -> slot, components
    info = []
    for n in F.walk():
        if n.get("k") == "VarDecl" and n.get("n") == "dataSetInfo" and n.get("c"):
            for el in F.walk(n["c"][0]):
                if el.get("k") in ("CXXConstructExpr", "CXXTemporaryObjectExpr", "InitListExpr") and "tuple" in el.get("t", ""):
                    lits = [x for x in F.walk(el) if x.get("k") == "StringLiteral"]
                    ints = [sc(x) for x in el.get("c", []) if sc(x) is not None and sc(x).get("k") == "IntegerLiteral"]
                    if lits and ints:
                        info.append((lits[0]["v"], ints[-1]["v"]))
    # de-duplicate nested matches
    seen = []
    for x in info:
        if x not in seen:
            seen.append(x)
    info = seen
    names = [x[0] for x in info]
    if names[:4] != ["Depth", "Temperature", "velocity", "Tag"]:
        rep.unknown(rule, "dataSetInfo starts with %s" % names[:4])
        return
    comps = dict(info)
    slot = {nm: i for i, nm in enumerate(names)}
    want_comp = {"Depth": 1, "Temperature": 1, "velocity": 3, "Tag": 1}
    for nm, w in want_comp.items():
        if comps.get(nm) != w:
            rep.violation(rule, "dataSetInfo: %s declared with %s components, expected %d" % (nm, comps.get(nm), w), F.loc, F.qn, "",
                          "VTU arrays are misinterpreted", key="%s|info|%s" % (rule, nm))
    # stores in the two callables
    from .par import parallel_sites, index_chain
    sites = parallel_sites(P)
    meaning = {slot["Temperature"]: ("temperature", by_kind[1]["offset"], 1), slot["velocity"]: ("velocity", by_kind[5]["offset"], 3),
               slot["Tag"]: ("tag", by_kind[4]["offset"], 1)}
    for Fc, call, lam, op, PF in sites:
        osym = norm.Sym(P, op, inline_locals=True)
        osym.env[comp] = COMP
        ivar = osym.symbol(P.d(op.params[0]).get("n"), op.params[0])
        outk = None
        wcall = None
        for n in op.walk():
            if n.get("k") == "VarDecl" and n.get("c"):
                c0 = sc(n["c"][0])
                if c0.get("k") == "CXXMemberCallExpr" and P.d(c0.get("callee")).get("qn") == "WorldBuilder::World::properties":
                    outk = n["r"]
                    wcall = c0
        if outk is None:
            rep.unknown(rule, "callable at %s: no properties() result" % op.loc)
            continue
        seen_slots = {}
        for n in op.walk():
            if n.get("k") == "BinaryOperator" and n.get("op") == "=":
                base, idx = index_chain(n["c"][0])
                base = sc(base)
                if not (base.get("k") == "DeclRefExpr" and base.get("n") == "data_set" and len(idx) == 2):
                    continue
                rs = astq.subscript(n["c"][1])
                if not (rs and astq.is_ref_to(rs[0], outk)):
                    rep.violation(rule, "data_set store from %s" % norm.render(P, n["c"][1]), op.nloc(n), op.qn, norm.render(P, n),
                                  "a data set receives something other than a library value", key="%s|store-src|%s" % (rule, norm.render(P, n["c"][0])))
                    continue
                s_idx = sp.expand(osym(idx[0]))
                e_idx = sp.expand(osym(idx[1]))
                o_idx = sp.expand(osym(rs[1]))
                if s_idx.is_Integer and int(s_idx) in meaning:
                    nm, off, w = meaning[int(s_idx)]
                    ab = norm.affine_in(e_idx, ivar)
                    if ab is None:
                        continue
                    comp_j = ab[1]       # component within the node
                    want = sp.expand(off + comp_j)
                    if ab[0] != w or sp.expand(o_idx - want) != 0:
                        rep.violation(rule, "%s: data_set[%s][%s] = output[%s], expected output[%s]" % (nm, s_idx, e_idx, o_idx, want), op.nloc(n), op.qn,
                                      norm.render(P, n), "the VTU field holds another property's value",
                                      key="%s|%s|%s" % (rule, nm, comp_j), witness="any grid with a world that has velocities/tags")
                    else:
                        rep.ok(rule, "%s[%s] <- output[%s]" % (nm, comp_j, o_idx), op.nloc(n), op.qn)
                    seen_slots.setdefault(nm, set()).add(int(comp_j))
                else:
                    # composition c: data_set[4+c][i] = output[5+c]
                    lv = [s for s in s_idx.free_symbols]
                    if len(lv) != 1:
                        rep.unknown(rule, "data_set slot index %s" % s_idx)
                        continue
                    c = lv[0]
                    want_slot = sp.expand(len(want_comp) + c)
                    want_off = sp.expand(by_kind[2]["offset"] + c)
                    if sp.expand(s_idx - want_slot) != 0 or sp.expand(o_idx - want_off) != 0 or sp.expand(e_idx - ivar) != 0:
                        rep.violation(rule, "composition: data_set[%s][%s] = output[%s], expected data_set[%s][i] = output[%s]" % (s_idx, e_idx, o_idx, want_slot, want_off),
                                      op.nloc(n), op.qn, norm.render(P, n), "composition c is stored under another name or from another slot",
                                      key="%s|composition" % rule, witness="grid file with compositions >= 2")
                    else:
                        rep.ok(rule, "composition c: data_set[%s] <- output[%s]" % (s_idx, o_idx), op.nloc(n), op.qn)
                    seen_slots.setdefault("composition", set()).add(0)
        for nm, w in (("temperature", 1), ("velocity", 3), ("tag", 1), ("composition", 1)):
            if seen_slots.get(nm, set()) != set(range(w)):
                rep.violation(rule, "%s: components stored %s, expected %s" % (nm, sorted(seen_slots.get(nm, set())), list(range(w))), op.loc, op.qn, "",
                              "a requested value never reaches the VTU file", key="%s|%s|coverage|%s" % (rule, nm, op.line))
        # node provenance
        args = wcall["c"][1:]
        depth = sc(args[1])
        ds = astq.subscript(depth)
        ok_depth = ds and sc(ds[0]).get("n") == "grid_depth" and astq.is_ref_to(ds[1], op.params[0])
        coords = sc(args[0])
        init = None
        for n in op.walk():
            if n.get("k") == "VarDecl" and n.get("r") == coords.get("r") and n.get("c"):
                init = n["c"][0]
        from .fwd import flatten_init
        elems = [sc(e) for e in flatten_init(init)] if init is not None else []
        got = []
        for e in elems:
            s = astq.subscript(e)
            got.append((sc(s[0]).get("n"), astq.is_ref_to(s[1], op.params[0])) if s else (None, False))
        dim3 = len(elems) == 3
        want = [("grid_x", True), ("grid_y", True), ("grid_z", True)] if dim3 else [("grid_x", True), ("grid_z", True)]
        if got == want and ok_depth:
            rep.ok(rule, "callable at line %d queries (%s) at grid_depth[i]" % (op.line, ", ".join(g[0] + "[i]" for g in got)), op.nloc(wcall), op.qn)
        else:
            rep.violation(rule, "callable at line %d: query point %s, depth %s" % (op.line, got, norm.render(P, depth)), op.nloc(wcall), op.qn,
                          norm.render(P, wcall)[:120], "a node is evaluated at another node's position or depth",
                          key="%s|node|%d" % (rule, 3 if dim3 else 2), witness="non-uniform grid")
    # filter_vtu_mesh literals
    FV = P.funcs_named("filter_vtu_mesh")
    if len(FV) != 1:
        rep.unknown(rule, "filter_vtu_mesh not found")
        return
    FV = FV[0]
    tag_lits = []
    for n in FV.walk():
        if n.get("k") == "VarDecl" and "tag_index" in n.get("n", "") and n.get("c"):
            v = sc(n["c"][0])
            if v.get("k") == "IntegerLiteral":
                tag_lits.append((n, v["v"]))
    if len(tag_lits) != 1:
        rep.unknown(rule, "filter_vtu_mesh: tag index literal not found (%d)" % len(tag_lits))
    else:
        n, v = tag_lits[0]
        if v == slot["Tag"]:
            rep.ok(rule, "filter_vtu_mesh: tag_index = %d = position of 'Tag' in dataSetInfo" % v, FV.nloc(n), FV.qn)
        else:
            rep.violation(rule, "filter_vtu_mesh: tag_index = %d but 'Tag' is data set %d" % (v, slot["Tag"]), FV.nloc(n), FV.qn, "",
                          "cells are filtered by another field", key=rule + "|filter|tag", witness="--filtered on any world")
    # the 3-component data set is recognised by `d == <slot of velocity>`
    three = []
    for n in FV.walk():
        if n.get("k") == "BinaryOperator" and n.get("op") == "==":
            l, r_ = sc(n["c"][0]), sc(n["c"][1])
            # the slot as a literal or as a named constant initialised with one
            if r_.get("k") == "DeclRefExpr":
                ini_ = next((sc(v_["c"][0]) for v_ in FV.walk() if v_.get("k") == "VarDecl" and v_.get("r") == r_["r"] and v_.get("c")), None)
                if ini_ is not None and ini_.get("k") == "IntegerLiteral" and "const" in (P.d(r_["r"]).get("t") or ""):
                    r_ = ini_
            if r_.get("k") == "IntegerLiteral" and l.get("k") == "DeclRefExpr" and P.d(l["r"]).get("n") == "d":
                three.append((n, r_["v"]))
    if not three:
        rep.unknown(rule, "filter_vtu_mesh: no `d == k` test for the vector data set")
    for n, v in three:
        if v == slot["velocity"]:
            rep.ok(rule, "filter_vtu_mesh: d == %d selects the 3-component set 'velocity'" % v, FV.nloc(n), FV.qn)
        else:
            rep.violation(rule, "filter_vtu_mesh: d == %d treated as the 3-component set but 'velocity' is data set %d" % (v, slot["velocity"]),
                          FV.nloc(n), FV.qn, norm.render(P, n), "filtered files have scrambled vector data", key=rule + "|filter|vector",
                          witness="--filtered on any world")


def base64_length(P, rep, rule="VTU.base64-length"):
    """the offsets of the appended base64 blocks: encodedNumberOfBytes(n) == 4 * ceil(n / 3)"""
    rep.rule(rule, "vtu11::encodedNumberOfBytes(n) is 4*ceil(n/3) for every n >= 1 and 0 for n = 0 (proved over the residues n = 3k+1, 3k+2, "
                   "3k+3 with C++ integer division); the appended-data writer advances its offsets by exactly this amount, so a wrong "
                   "value makes every later DataArray of a Base64Appended file start at the wrong byte")
    fs = P.funcs_named("vtu11::encodedNumberOfBytes")
    fs = [f for f in fs if f.body is not None]
    if not fs:
        raise AnalysisBroken("vtu11::encodedNumberOfBytes not found in gwb-grid's translation unit")
    F = fs[0]
    nk = F.params[0]
    n, k = sp.Symbol("n", integer=True, positive=True), sp.Symbol("k", integer=True, nonnegative=True)

    def tr(e):
        e = sc(e)
        kd = e.get("k")
        if kd == "IntegerLiteral":
            return sp.Integer(int(e["v"]))
        if kd == "DeclRefExpr" and e.get("r") == nk:
            return n
        if kd == "ParenExpr":
            return tr(e["c"][0])
        if kd == "BinaryOperator" and e.get("op") in ("+", "-", "*", "/"):
            a, b = tr(e["c"][0]), tr(e["c"][1])
            if a is None or b is None:
                return None
            return {"+": a + b, "-": a - b, "*": a * b, "/": sp.floor(a / b)}[e["op"]]
        return None
    ifs = [x for x in astq.stmts_of(F.body) if x.get("k") == "IfStmt"]
    rets = [x for x in F.walk() if x.get("k") == "ReturnStmt" and x.get("c")]
    nonzero = zero = None
    if len(ifs) == 1:
        c = norm.render(P, ifs[0]["c"][0], nocast=True).replace(" ", "")
        then_r = [x for x in F.walk(ifs[0]["c"][1]) if x.get("k") == "ReturnStmt"]
        else_r = [x for x in rets if x not in then_r]
        if c in ("(rawNumberOfBytes!=0)", "(rawNumberOfBytes>0)", "(0!=rawNumberOfBytes)") and len(then_r) == 1 and len(else_r) == 1:
            nonzero, zero = then_r[0], else_r[0]
        elif c in ("(rawNumberOfBytes==0)", "(0==rawNumberOfBytes)") and len(then_r) == 1 and len(else_r) == 1:
            zero, nonzero = then_r[0], else_r[0]
    elif not ifs and len(rets) == 1:
        r0 = sc(rets[0]["c"][0])
        if r0.get("k") == "ConditionalOperator":
            # `n != 0 ? f(n) : 0` -- the same case split written as a conditional expression
            cc = norm.render(P, r0["c"][0], nocast=True).replace(" ", "")
            a_, b_ = r0["c"][1], r0["c"][2]
            if cc in ("(rawNumberOfBytes!=0)", "(rawNumberOfBytes>0)", "(0!=rawNumberOfBytes)"):
                nonzero, zero = {"c": [a_]}, {"c": [b_]}
            elif cc in ("(rawNumberOfBytes==0)", "(0==rawNumberOfBytes)"):
                nonzero, zero = {"c": [b_]}, {"c": [a_]}
        else:
            nonzero = zero = rets[0]
    if nonzero is None:
        rep.unknown(rule, "encodedNumberOfBytes: shape not recognised")
        return
    e = tr(nonzero["c"][0])
    z = tr(zero["c"][0])
    if e is None or z is None:
        rep.unknown(rule, "encodedNumberOfBytes: expression form not recognised: %s" % norm.render(P, nonzero["c"][0])[:80])
        return
    bad = []
    for r in (1, 2, 3):
        got = sp.simplify(e.subs(n, 3 * k + r))
        if sp.simplify(got - 4 * (k + 1)) != 0:
            bad.append("n = 3k+%d: %s instead of %s" % (r, got, 4 * (k + 1)))
    z0 = z.subs(n, 0) if zero is not nonzero else e.subs(n, 0)
    if sp.simplify(z0) != 0:
        bad.append("n = 0: %s instead of 0" % z0)
    if bad:
        rep.violation(rule, "encodedNumberOfBytes: %s" % "; ".join(bad), F.nloc(nonzero["c"][0]), F.qn, norm.render(P, nonzero["c"][0])[:120],
                      "offsets of the appended data arrays are wrong: the Base64Appended .vtu is not well formed for some node counts",
                      key=rule + "|closed-form", witness="vtu_output_format = Base64Appended with a data block whose byte count is in the affected residue class")
    else:
        rep.ok(rule, "encodedNumberOfBytes(n) = 4*ceil(n/3) on all residues, 0 at 0", F.loc, F.qn)
    # the writer advances its offset by exactly encodedNumberOfBytes(rawBytes + sizeof(header))
    uses = 0
    for G in P.funcs.values():
        if G.body is None or not G.qn.startswith("vtu11::"):
            continue
        for x in G.walk():
            if x.get("k") == "CallExpr" and x.get("callee") == F.key:
                uses += 1
                par = G.parent.get(x["i"])
                while par is not None and par.get("k") in norm.CASTS + ("ImplicitCastExpr",):
                    par = G.parent.get(par["i"])
                a = norm.render(P, x["c"][1], nocast=True).replace(" ", "")
                if par is not None and par.get("k") == "CompoundAssignOperator" and par.get("op") == "+=" and "rawBytes" in a and ("sizeof" in a or "UnaryExprOrTypeTraitExpr" in a):
                    rep.ok(rule, "%s: offset += encodedNumberOfBytes(%s)" % (G.qn.split("::")[-1], a[:40]), G.nloc(x), G.qn)
                else:
                    rep.violation(rule, "%s uses encodedNumberOfBytes as %s" % (G.qn, norm.render(P, par if par else x)[:80]), G.nloc(x), G.qn, a,
                                  "offset of the next appended block does not include header and payload of this one", key="%s|use|%s" % (rule, G.qn))
    rep.floor(rule, uses, 1, "offset computations in the appended writer")


# ------------------------------------------------------------------------------------------------
def filter_copy(P, rep, rule="FILTER"):
    """structure of filter_vtu_mesh: kept vertices carry all their data sets unchanged; connectivity is
    remapped through vertex_index_map only"""
    rep.rule(rule, "filter_vtu_mesh: a cell is kept iff the highest tag of its vertices is >= 0 and selected; a vertex seen "
                   "for the first time (map entry == invalid) gets the next output index, its 3 coordinates and, for EVERY data "
                   "set d < input_data.size(), the value(s) at the same source vertex; connectivity receives the mapped index")
    FV = P.funcs_named("filter_vtu_mesh")
    if len(FV) != 1:
        rep.unknown(rule, "filter_vtu_mesh not found")
        return
    F = FV[0]
    R = lambda n: norm.render(P, n, nocast=True).replace(" ", "")
    names = [P.d(p).get("n") for p in F.params]
    try:
        in_data, out_data = F.params[names.index("input_data")], F.params[names.index("output_data")]
    except ValueError:
        rep.unknown(rule, "filter_vtu_mesh parameter names")
        return
    helpers = local_helpers_called(P, F)
    if helpers:
        rep.unknown(rule, "filter_vtu_mesh delegates to %s: this rule is written over the body of filter_vtu_mesh alone" % ", ".join(g.qn for g in helpers))
        return
    have = {n.get("n") for n in F.walk() if n.get("k") == "VarDecl"}
    missing = {"src_vid", "dst_vid", "highest_tag", "vertex_index_map", "tag_index", "invalid", "cellidx"} - have
    if missing:
        # the rule is written over these locals; if they were renamed it cannot judge (never a violation)
        rep.unknown(rule, "filter_vtu_mesh: anchor locals %s not found (renamed?)" % sorted(missing))
        return
    # the running highest tag of a cell starts below every valid tag, so that the `no feature` guard can fire
    if monotone_guards(P, rep, F, rule, "filter_vtu_mesh") == 0:
        rep.unknown(rule, "filter_vtu_mesh: no guard on a running maximum found (the highest tag of a cell and its `< 0` test)")
    problems = []
    # (0) both per-cell vertex loops visit all vertices of the cell: idx in [cellidx*n, (cellidx+1)*n), n = (dim == 3) ? 8 : 4
    NV_FORMS = ("((dim==3)?8:4)", "((dim==2)?4:8)", "((3==dim)?8:4)", "((2==dim)?4:8)")
    nv = [x for x in F.walk() if x.get("k") == "VarDecl" and x.get("c") and R(x["c"][0]) in NV_FORMS]      # by what it is, not by its name
    named = [x for x in F.walk() if x.get("k") == "VarDecl" and x.get("n") == "n_vert_per_cell" and x.get("c")]
    if len(nv) != 1 and not named:
        rep.unknown(rule, "filter_vtu_mesh: the number of vertices per cell ((dim==3)?8:4) is not defined in a form this rule reads")
        return
    if len(nv) != 1:
        problems.append("n_vert_per_cell is %s (expected (dim==3)?8:4)" % R(named[0]["c"][0]))
    else:
        NV = sp.Symbol("N_VERT", positive=True, integer=True)
        symv = norm.Sym(P, F, inline_locals=False, inline_consts=True, env={nv[0]["r"]: NV})
        vloops = []
        for x in F.walk():
            if x.get("k") == "ForStmt" and x["c"][0] is not None and x["c"][0].get("k") == "DeclStmt":
                iv = x["c"][0]["c"][0]
                # a per-cell vertex loop: its variable indexes the connectivity of the input mesh
                uses_conn = any(astq.subscript(y) is not None and astq.is_ref_to(astq.subscript(y)[1], iv.get("r")) and "connectivity" in R(astq.subscript(y)[0])
                                for y in F.walk(x["c"][3]))
                if iv.get("k") == "VarDecl" and iv.get("c") and uses_conn:
                    vloops.append((x, iv))
        if len(vloops) != 2:
            problems.append("%d per-cell vertex loops (2 expected: tag scan and copy)" % len(vloops))
        for x, iv in vloops:
            cond = sc(x["c"][1])
            good = False
            if cond is not None and cond.get("k") == "BinaryOperator" and cond.get("op") == "<" and astq.is_ref_to(cond["c"][0], iv["r"]):
                lo, hi = sp.expand(symv(iv["c"][0])), sp.expand(symv(cond["c"][1]))
                d = sp.expand(hi - lo)
                csym = [a_ for a_ in lo.free_symbols if str(a_).startswith("cellidx")]
                if len(csym) == 1 and sp.expand(d - NV) == 0 and sp.expand(lo - csym[0] * NV) == 0:
                    good = True
                inc = sc(x["c"][2]) if x["c"][2] is not None else None
                good = good and inc is not None and ((inc.get("k") == "UnaryOperator" and inc.get("op") == "++" and astq.is_ref_to(inc["c"][0], iv["r"]))
                                                      or (inc.get("k") == "CompoundAssignOperator" and inc.get("op") == "+=" and astq.is_ref_to(inc["c"][0], iv["r"]) and sc(inc["c"][1]).get("v") == 1))
            if not good:
                problems.append("vertex loop at line %s runs `%s ; %s`, not over [cellidx*n, (cellidx+1)*n)" % (x.get("l"), R(iv["c"][0]), R(x["c"][1])))
    # (a) data copy loop
    pushes = []
    for n in F.walk():
        mc = astq.member_call(P, n, "push_back") or astq.member_call(P, n, "emplace_back")
        if mc:
            s = astq.subscript(mc[0])
            if s and astq.is_ref_to(s[0], out_data):
                pushes.append((n, s[1], mc[2][0]))
    if not pushes:
        problems.append("no data set is copied")
    dloops = set()
    for n, didx, val in pushes:
        loop = None
        for a in F.ancestors(n):
            if a.get("k") == "ForStmt":
                okl, iv, bound = layout.forward_loop(P, F, a)
                if okl and astq.is_ref_to(didx, iv):
                    loop = (a, iv, bound)
                    break
        if loop is None:
            problems.append("output_data[%s] is filled outside a loop over the data sets" % R(didx))
            continue
        a, iv, bound = loop
        dloops.add(a["i"])
        bm = astq.member_call(P, bound, "size")
        if not (bm and astq.is_ref_to(bm[0], in_data)):
            problems.append("data-set loop runs to %s, not input_data.size()" % R(bound))
        vs = astq.subscript(val)
        vs0 = astq.subscript(vs[0]) if vs else None
        if not (vs0 and astq.is_ref_to(vs0[0], in_data) and astq.is_ref_to(vs0[1], iv)):
            problems.append("output_data[d] receives %s, not input_data[d][...]" % R(val))
            continue
        idx = R(vs[1])
        inner = None
        for b in F.ancestors(n):
            if b is a:
                break
            if b.get("k") == "ForStmt":
                okl2, iv2, bound2 = layout.forward_loop(P, F, b)
                if okl2:
                    inner = (iv2, bound2)
        if inner is None:
            if idx != "src_vid":
                problems.append("scalar data set copied from index %s, not src_vid" % idx)
        else:
            w = sc(inner[1]).get("v")
            nm = P.d(inner[0]).get("n")
            if w is None:
                # the number of components is a named quantity: (d == <vector slot>) ? 3 : 1, one loop for every data set
                wn = sc(inner[1])
                wi = None
                if wn.get("k") == "DeclRefExpr":
                    wi = next((sc(v_["c"][0]) for v_ in F.walk() if v_.get("k") == "VarDecl" and v_.get("r") == wn["r"] and v_.get("c")), None)
                    wname = wn.get("n")
                if wi is not None and wi.get("k") == "ConditionalOperator" and sc(wi["c"][1]).get("v") == 3 and sc(wi["c"][2]).get("v") == 1 \
                        and sc(wi["c"][0]).get("k") == "BinaryOperator" and sc(wi["c"][0]).get("op") == "==" and any(astq.is_ref_to(sc(z), iv) for z in sc(wi["c"][0])["c"]):
                    if idx not in ("((src_vid*%s)+%s)" % (wname, nm), "(%s+(src_vid*%s))" % (nm, wname), "((%s*src_vid)+%s)" % (wname, nm)):
                        problems.append("data sets copied from index %s with %s components" % (idx, wname))
                else:
                    rep.unknown(rule, "filter_vtu_mesh: component loop bound `%s` is neither a literal nor (d == k) ? 3 : 1" % R(inner[1])[:60])
            elif idx not in ("((src_vid*%s)+%s)" % (w, nm), "(%s+(src_vid*%s))" % (nm, w), "((%s*src_vid)+%s)" % (w, nm)) or w != 3:
                problems.append("vector data set copied from index %s with %s components" % (idx, w))
    if len(dloops) > 1:
        problems.append("data sets are copied in %d different loops" % len(dloops))
    # (b) points
    pts = [n for n in F.walk() if (astq.member_call(P, n, "emplace_back") or astq.member_call(P, n, "push_back"))
           and "output_mesh.points()" in R((astq.member_call(P, n, "emplace_back") or astq.member_call(P, n, "push_back"))[0])]
    if len(pts) != 1:
        problems.append("%d statements append to the output points" % len(pts))
    else:
        mc = astq.member_call(P, pts[0], "emplace_back") or astq.member_call(P, pts[0], "push_back")
        v = R(mc[2][0])
        loop = astq.enclosing(F, pts[0], ("ForStmt",))
        okl, iv, bound = layout.forward_loop(P, F, loop) if loop else (False, None, None)
        nm = P.d(iv).get("n") if iv else "?"
        in_mesh_name = [P.d(pk).get("n") for pk in F.params if "Vtu11UnstructuredMesh" in (P.d(pk).get("t") or "") and "const" in (P.d(pk).get("t") or "")]
        want_v = "%s.points()[((src_vid*3)+%s)]" % (in_mesh_name[0] if in_mesh_name else "input_mesh", nm)
        if not (okl and sc(bound).get("v") == 3 and v in (want_v,)):
            problems.append("output point coordinates are %s over %s" % (v, R(bound) if bound else "?"))
    # (c) connectivity gets dst_vid, which is vertex_index_map[src_vid]
    conn = [n for n in F.walk() if astq.member_call(P, n, "push_back") and "output_mesh.connectivity()" in R(astq.member_call(P, n, "push_back")[0])]
    if len(conn) != 1 or R(astq.member_call(P, conn[0], "push_back")[2][0]) != "dst_vid":
        problems.append("connectivity does not receive the mapped vertex index")
    dst = [n for n in F.walk() if n.get("k") == "VarDecl" and n.get("n") == "dst_vid"]
    if len(dst) != 1 or R(dst[0]["c"][0]) != "vertex_index_map[src_vid]":
        problems.append("dst_vid is not initialised from vertex_index_map[src_vid]")
    # (d) new-vertex block guarded by dst_vid == invalid and records the mapping
    guard_ok = False
    for n in F.walk():
        if n.get("k") == "IfStmt" and R(n["c"][0]) in ("(dst_vid==invalid)", "(invalid==dst_vid)"):
            body = R(n["c"][1]) if False else None
            asg = [x for x in F.walk(n["c"][1]) if x.get("k") == "BinaryOperator" and x.get("op") == "=" and R(x["c"][0]) == "vertex_index_map[src_vid]"
                   and R(x["c"][1]) == "dst_vid"]
            newid = [x for x in F.walk(n["c"][1]) if x.get("k") == "BinaryOperator" and x.get("op") == "=" and R(x["c"][0]) == "dst_vid"]
            inside = all(any(y is p for y in F.walk(n["c"][1])) for p, _, _ in pushes) and all(any(y is p for y in F.walk(n["c"][1])) for p in pts)
            if asg and len(newid) == 1 and R(newid[0]["c"][1]) == "(output_mesh.points().size()/3)" and inside:
                # the new id must be taken before the points are appended
                if newid[0]["i"] < pts[0]["i"]:
                    guard_ok = True
    if not guard_ok:
        problems.append("first-visit block (dst_vid == invalid: new id = points.size()/3, map update, point and data copy) not recognised")
    # (e) keep rule
    keep = [n for n in F.walk() if n.get("k") == "IfStmt" and any(x.get("k") == "ContinueStmt" for x in F.walk(n["c"][1]))]
    if len(keep) != 1:
        problems.append("cell skip rule is %s" % (R(keep[0]["c"][0]) if keep else "missing"))
    else:
        # the condition as a boolean function of A = (highest_tag < 0) and B = include_tag[highest_tag]; named bools are expanded
        from .guard import expand_cond

        def bval(e, A, B):
            e = sc(e)
            k_ = e.get("k")
            if k_ == "UnaryOperator" and e.get("op") == "!":
                v = bval(e["c"][0], A, B)
                return None if v is None else (not v)
            if k_ == "BinaryOperator" and e.get("op") in ("||", "&&"):
                l, r = bval(e["c"][0], A, B), bval(e["c"][1], A, B)
                if l is None or r is None:
                    return None
                return (l or r) if e["op"] == "||" else (l and r)
            t_ = R(e).strip("()")
            if t_ in ("highest_tag<0", "0>highest_tag"):
                return A
            if t_ in ("highest_tag>=0", "0<=highest_tag"):
                return not A
            if t_ == "include_tag[highest_tag]":
                return B
            if k_ == "BinaryOperator" and e.get("op") in ("==", "!="):
                l0, r0 = sc(e["c"][0]), sc(e["c"][1])
                lit = r0 if r0.get("k") == "CXXBoolLiteralExpr" else (l0 if l0.get("k") == "CXXBoolLiteralExpr" else None)
                oth = l0 if lit is r0 else r0
                if lit is not None:
                    v = bval(oth, A, B)
                    if v is None:
                        return None
                    return (v == bool(lit.get("v"))) if e["op"] == "==" else (v != bool(lit.get("v")))
            return None
        cexp = expand_cond(P, F, keep[0]["c"][0])
        table = [(A, B, bval(cexp, A, B)) for A in (True, False) for B in (True, False)]
        if any(v is None for _, _, v in table):
            rep.unknown(rule, "filter_vtu_mesh: cell skip condition `%s` is not a boolean function of (highest_tag < 0) and include_tag[highest_tag]" % R(keep[0]["c"][0])[:80])
        elif any(v != (A or not B) for A, B, v in table):
            problems.append("cell skip rule is %s" % R(cexp))
    ht = [n for n in F.walk() if n.get("k") == "BinaryOperator" and n.get("op") == "=" and R(n["c"][0]) == "highest_tag"]
    if len(ht) != 1 or R(ht[0]["c"][1]) not in ("std::max(highest_tag,input_data[tag_index][src_vid])", "std::max(input_data[tag_index][src_vid],highest_tag)"):
        problems.append("highest_tag update is %s" % (R(ht[0]["c"][1]) if ht else "missing"))
    if problems:
        for pr in problems:
            rep.violation(rule, "filter_vtu_mesh: %s" % pr, F.loc, F.qn, "", "filtered output does not carry the unchanged node values of exactly the selected cells",
                          key="%s|%s" % (rule, pr[:40]), witness="--filtered / --by-tag on a world with two features")
    else:
        rep.ok(rule, "filter_vtu_mesh: keep rule, first-visit block, per-data-set copy, connectivity remap", F.loc, F.qn)


# ------------------------------------------------------------------------------------------------
def grid_depth(P, rep, rule="GRID.depth"):
    """'Depth' is the distance below the top of the grid: wherever a node's vertical coordinate and depth are set together,
    their sum is the top of the grid (z_max / outer_radius); in sphere/annulus grids depth = outer_radius - |position|"""
    rep.rule(rule, "in every grid generator the node depth complements the node's vertical coordinate: grid_z[c] + grid_depth[c] == z_max "
                   "(cartesian) resp. == outer_radius (chunk: radius + depth), identically in the loop indices; annulus/sphere: "
                   "grid_depth[c] = outer_radius - sqrt(sum of squares of the node's coordinates) of the same node c")
    F = main_of(P, "gwb-grid")
    n = 0
    sym = norm.Sym(P, F, inline_locals=True)
    R = lambda x: norm.render(P, x, nocast=True).replace(" ", "")
    for x in F.walk():
        if not (x.get("k") == "BinaryOperator" and x.get("op") == "="):
            continue
        s = astq.subscript(x["c"][0])
        if not (s and sc(s[0]).get("n") == "grid_depth"):
            continue
        idx = R(s[1])
        rhs = sc(x["c"][1])
        blk = astq.enclosing(F, x, ("CompoundStmt",))
        # tidy-up assignment: grid_depth[c] = |grid_depth[c]| < eps ? 0 : grid_depth[c]
        if rhs.get("k") == "ConditionalOperator" and R(rhs["c"][2]) == R(x["c"][0]):
            continue
        n += 1
        zasg = None
        for y in blk["c"]:
            if y is x:
                break
            if y.get("k") == "BinaryOperator" and y.get("op") == "=":
                s2 = astq.subscript(y["c"][0])
                if s2 and sc(s2[0]).get("n") == "grid_z" and R(s2[1]) == idx:
                    zasg = y          # the closest preceding one (the index variable is stepped between nodes)
            elif y.get("k") == "UnaryOperator" and y.get("op") in ("++", "--") and R(y["c"][0]) == idx:
                zasg = None
        txt = R(rhs)
        if "sqrt" in txt:
            m = re.match(r"^\(outer_radius-(?:std::)?sqrt\((.*)\)\)$", txt)
            terms = sorted(re.findall(r"\(grid_([xyz])\[%s\]\*grid_\1\[%s\]\)" % (re.escape(idx), re.escape(idx)), m.group(1))) if m else []
            if m and terms in (["x", "z"], ["x", "y", "z"]):
                rep.ok(rule, "line %s: depth = outer_radius - |(%s)|" % (x.get("l"), ",".join(terms)), F.nloc(x), F.qn)
            else:
                rep.violation(rule, "line %s: spherical depth is %s" % (x.get("l"), txt[:80]), F.nloc(x), F.qn, norm.render(P, x)[:140],
                              "expected outer_radius - sqrt(x^2 (+ y^2) + z^2) of the same node", key="%s|sqrt|%s" % (rule, txt[:30]), witness="annulus/sphere grid")
            continue
        if zasg is None:
            rep.unknown(rule, "depth assignment at %s has no vertical coordinate assignment next to it" % F.nloc(x))
            continue
        total = sp.simplify(sp.expand(sym(zasg["c"][1]) + sym(rhs)))
        names = {str(v).split("@")[0] for v in total.free_symbols}
        if total.is_Symbol and names <= {"z_max", "outer_radius"}:
            rep.ok(rule, "line %s: grid_z + grid_depth = %s" % (x.get("l"), list(names)[0]), F.nloc(x), F.qn)
        else:
            rep.violation(rule, "line %s: grid_z[c] + grid_depth[c] = %s" % (x.get("l"), total), F.nloc(x), F.qn, norm.render(P, x)[:140],
                          "Depth is not the distance below the top of the grid for every bound", key="%s|sum|%s" % (rule, str(total)[:40]),
                          witness="a grid whose lower bound is not 0")
    rep.floor(rule, n, 20, "node depth assignments")


def grid_cartesian(P, rep, rule="GRID.cartesian"):
    """the Cartesian mesh: node lattice and cell connectivity as closed forms of the loop indices"""
    rep.rule(rule, "gwb-grid, grid_type cartesian (compressed numbering): node c of the lattice loop (i, j, k) has coordinates x_min + i*dx, "
                   "y_min + j*dy, z_min + k*dz with dx = (x_max - x_min)/n_cell_x etc.; with N(i,j,k) the node counter of that loop nest, cell "
                   "(i,j,k) lists the eight nodes N(i-1+a, j-1+b, k-1+c) in VTK hexahedron order (2D: the four nodes in VTK quad order) - "
                   "every cell is exactly one lattice cell and all indices are in range")
    F = main_of(P, "gwb-grid")
    R = lambda x: norm.render(P, x, nocast=True).replace(" ", "")
    blocks = [x for x in F.walk() if x.get("k") == "IfStmt" and R(x["c"][0]) in ('(grid_type=="cartesian")', '("cartesian"==grid_type)')]
    if len(blocks) != 1:
        rep.unknown(rule, "%d `grid_type == \"cartesian\"` blocks" % len(blocks))
        return
    blk = blocks[0]["c"][1]
    miss = astq.missing_anchors(P, F, ["x_min", "x_max", "y_min", "y_max", "z_min", "z_max", "n_cell_x", "n_cell_y", "n_cell_z", "grid_x", "grid_y", "grid_z",
                                        "grid_connectivity", "counter", "dim"])
    if miss:
        rep.unknown(rule, "gwb-grid main: the variables %s this rule is written over no longer exist (renamed?)" % miss)
        return
    nx, ny, nz = sp.symbols("n_cell_x n_cell_y n_cell_z", integer=True, positive=True)
    xmin, ymin, zmin, xmax, ymax, zmax = sp.symbols("x_min y_min z_min x_max y_max z_max", real=True)
    namesym = {"n_cell_x": nx, "n_cell_y": ny, "n_cell_z": nz, "x_min": xmin, "y_min": ymin, "z_min": zmin, "x_max": xmax, "y_max": ymax, "z_max": zmax}

    def loop_nest(node):
        """[(var key, start, cond op, bound sym)] from the outermost enclosing for-loop inside blk to the innermost"""
        nest = []
        for a in F.ancestors(node):
            if a is blk:
                break
            if a.get("k") == "ForStmt":
                init, cond = a["c"][0], sc(a["c"][1])
                if not (init is not None and init.get("k") == "DeclStmt" and init["c"] and init["c"][0].get("c")):
                    return None
                iv = init["c"][0]
                start = sc(iv["c"][0])
                if start.get("k") != "IntegerLiteral" or cond is None or cond.get("k") != "BinaryOperator" or cond.get("op") not in ("<", "<="):
                    return None
                if not astq.is_ref_to(cond["c"][0], iv["r"]):
                    return None
                b = sc(cond["c"][1])
                if b.get("k") != "DeclRefExpr" or b.get("n") not in namesym:
                    return None
                nest.append((iv["r"], int(start["v"]), cond["op"], namesym[b["n"]], iv.get("n")))
        return nest[::-1]

    def counter_formula(nest, loopsyms):
        """value of a counter that starts at 0 and is incremented once per innermost iteration, as a polynomial in the loop variables"""
        total = sp.Integer(0)
        stride = sp.Integer(1)
        for (key, start, op, bound, nm) in reversed(nest):
            count = (bound - start + 1) if op == "<=" else (bound - start)
            total += (loopsyms[key] - start) * stride
            stride *= count
        return sp.expand(total)
    dim_branches = {}
    for x in F.walk(blk):
        if x.get("k") == "IfStmt" and R(x["c"][0]) in ("(dim==2)", "(2==dim)"):
            dim_branches.setdefault("pos" if any(sc(astq.subscript(y["c"][0])[0]).get("n") == "grid_x" for y in F.walk(x) if y.get("k") == "BinaryOperator" and y.get("op") == "=" and astq.subscript(y["c"][0])) else "conn", x)
    n_ok = 0
    for dim in (2, 3):
        # ---- node positions
        pos = {}
        for y in F.walk(blk):
            if y.get("k") == "BinaryOperator" and y.get("op") == "=":
                s_ = astq.subscript(y["c"][0])
                if s_ and sc(s_[0]).get("n") in ("grid_x", "grid_y", "grid_z") and R(s_[1]) == "counter":
                    nest = loop_nest(y)
                    if nest is None:
                        continue
                    bounds = tuple(b for (_, _, _, b, _) in nest)
                    ops = tuple(o for (_, _, o, _, _) in nest)
                    if dim == 2 and len(nest) == 2 and set(bounds) == {nx, nz} and ops == ("<=", "<="):
                        pos.setdefault(sc(s_[0])["n"], (y, nest))
                    if dim == 3 and len(nest) == 3 and set(bounds) == {nx, ny, nz} and ops == ("<=", "<=", "<="):
                        pos.setdefault(sc(s_[0])["n"], (y, nest))
        need = ("grid_x", "grid_z") if dim == 2 else ("grid_x", "grid_y", "grid_z")
        if not all(k in pos for k in need):
            rep.unknown(rule, "dim %d: lattice position loop not recognised (found %s)" % (dim, sorted(pos)))
            continue
        nest = pos["grid_x"][1]
        loopsyms = {key: sp.Symbol("L_" + str(b), integer=True, nonnegative=True) for (key, _, _, b, _) in nest}
        by_bound = {b: loopsyms[key] for (key, _, _, b, _) in nest}
        symp = norm.Sym(P, F, inline_locals=True, env=dict(loopsyms))
        for nm_, sy_ in namesym.items():
            try:
                symp.env[var_by_name(F, nm_)] = sy_
            except AnalysisBroken:
                pass
        want_pos = {"grid_x": xmin + by_bound[nx] * (xmax - xmin) / nx, "grid_z": zmin + by_bound[nz] * (zmax - zmin) / nz}
        if dim == 3:
            want_pos["grid_y"] = ymin + by_bound[ny] * (ymax - ymin) / ny
        bad = []
        for k in need:
            got = symp(pos[k][0]["c"][1])
            # dy carries a `dim == 2 ? 0 : ...` selector: evaluate for this dim
            got = got.replace(lambda e: getattr(e.func, "__name__", "") == "ite", lambda e: e.args[1] if dim == 2 else e.args[2]) if dim == 3 else got
            if sp.simplify(got - want_pos[k]) != 0:
                bad.append("%s = %s" % (k, str(got)[:70]))
        if bad:
            rep.violation(rule, "dim %d: node coordinates are %s" % (dim, "; ".join(bad)), F.nloc(pos[need[0]][0]), F.qn, "", "expected min + index * (max - min)/n_cell in each direction",
                          key="%s|pos|%d" % (rule, dim), witness="a %dD cartesian grid with different cell counts per direction" % dim)
            continue
        Nf = counter_formula(nest, loopsyms)       # node number as a polynomial in the lattice indices
        # ---- connectivity
        conn = {}
        for y in F.walk(blk):
            if y.get("k") == "BinaryOperator" and y.get("op") == "=":
                s_ = astq.subscript(y["c"][0])
                s2_ = astq.subscript(s_[0]) if s_ else None
                if s2_ and sc(s2_[0]).get("n") == "grid_connectivity" and R(s2_[1]) == "counter" and sc(s_[1]).get("k") == "IntegerLiteral":
                    cn = loop_nest(y)
                    if cn is None:
                        continue
                    bounds = tuple(b for (_, _, _, b, _) in cn)
                    if (dim == 2 and len(cn) == 2 and set(bounds) == {nx, nz}) or (dim == 3 and len(cn) == 3 and set(bounds) == {nx, ny, nz}):
                        if all(o == "<=" and st == 1 for (_, st, o, _, _) in cn):
                            conn[int(sc(s_[1])["v"])] = (y, cn)
        nvert = 4 if dim == 2 else 8
        if sorted(conn) != list(range(nvert)):
            rep.unknown(rule, "dim %d: connectivity loop not recognised (entries %s)" % (dim, sorted(conn)))
            continue
        cn = conn[0][1]
        csyms = {key: sp.Symbol("C_" + str(b), integer=True, positive=True) for (key, _, _, b, _) in cn}
        cby = {b: csyms[key] for (key, _, _, b, _) in cn}
        symc = norm.Sym(P, F, inline_locals=True, env=dict(csyms))
        for nm_, sy_ in namesym.items():
            try:
                symc.env[var_by_name(F, nm_)] = sy_
            except AnalysisBroken:
                pass
        if dim == 2:
            order = [(0, 0), (1, 0), (1, 1), (0, 1)]         # VTK_QUAD in the (x, z) plane
            def node(off):
                return Nf.subs({by_bound[nx]: cby[nx] - 1 + off[0], by_bound[nz]: cby[nz] - 1 + off[1]}, simultaneous=True)
        else:
            order = [(0, 0, 0), (1, 0, 0), (1, 1, 0), (0, 1, 0), (0, 0, 1), (1, 0, 1), (1, 1, 1), (0, 1, 1)]      # VTK_HEXAHEDRON
            def node(off):
                return Nf.subs({by_bound[nx]: cby[nx] - 1 + off[0], by_bound[ny]: cby[ny] - 1 + off[1], by_bound[nz]: cby[nz] - 1 + off[2]}, simultaneous=True)
        badc = []
        for m in range(nvert):
            got = sp.expand(symc(conn[m][0]["c"][1]))
            if sp.expand(got - node(order[m])) != 0:
                badc.append("vertex %d = %s, expected node%s = %s" % (m, got, order[m], sp.expand(node(order[m]))))
        if badc:
            rep.violation(rule, "dim %d: cell connectivity: %s" % (dim, "; ".join(badc)[:300]), F.nloc(conn[0][0]), F.qn, "", "a cell does not consist of the corners of one lattice cell in VTK order",
                          key="%s|conn|%d" % (rule, dim), witness="any %dD cartesian grid with more than one cell per direction" % dim)
        else:
            n_ok += 1
            rep.ok(rule, "dim %d: lattice positions and %d-vertex connectivity agree with the node numbering N = %s" % (dim, nvert, Nf), F.nloc(conn[0][0]), F.qn)
    rep.floor(rule, n_ok, 2, "cartesian grid dimensions verified")


def grid_chunk(P, rep, rule="GRID.chunk"):
    """the chunk mesh: (longitude, latitude, radius) lattice, its conversion to Cartesian coordinates, and the cell connectivity"""
    rep.rule(rule, "gwb-grid, grid_type chunk (compressed numbering): node c of the lattice loop (i, j, k), all starting at 1 and running to "
                   "n_cell + 1, first holds longitude x_min + (i-1)*(x_max-x_min)/n_cell_x, latitude y_min + (j-1)*(y_max-y_min)/n_cell_y and "
                   "radius z_min + (k-1)*(z_max-z_min)/n_cell_z; the second stage replaces every node by r (cos lat cos lon, cos lat sin lon, "
                   "sin lat) (2D: r (cos lon, sin lon)), reading the three stored values before writing any; with N(i,j,k) the node counter of "
                   "the lattice loop, cell (i,j,k) lists the corners of one lattice cell: a closed walk around the bottom face (each step "
                   "changes one index by one) and, in 3D, the same walk one radial step further out (VTK quad / hexahedron)")
    F = main_of(P, "gwb-grid")
    R = lambda x: norm.render(P, x, nocast=True).replace(" ", "")
    blocks = [x for x in F.walk() if x.get("k") == "IfStmt" and R(x["c"][0]) in ('(grid_type=="chunk")', '("chunk"==grid_type)')]
    if len(blocks) != 1:
        rep.unknown(rule, "%d `grid_type == \"chunk\"` blocks" % len(blocks))
        return
    blk = blocks[0]["c"][1]
    miss = astq.missing_anchors(P, F, ["x_min", "x_max", "y_min", "y_max", "z_min", "z_max", "n_cell_x", "n_cell_y", "n_cell_z", "grid_x", "grid_y", "grid_z",
                                        "grid_connectivity", "counter", "dim"])
    if miss:
        rep.unknown(rule, "gwb-grid main: the variables %s this rule is written over no longer exist (renamed?)" % miss)
        return
    nx, ny, nz = sp.symbols("n_cell_x n_cell_y n_cell_z", integer=True, positive=True)
    xmin, ymin, zmin, xmax, ymax, zmax = sp.symbols("x_min y_min z_min x_max y_max z_max", real=True)
    namesym = {"n_cell_x": nx, "n_cell_y": ny, "n_cell_z": nz, "x_min": xmin, "y_min": ymin, "z_min": zmin, "x_max": xmax, "y_max": ymax, "z_max": zmax}
    base_env = {}
    for nm_, sy_ in namesym.items():
        try:
            base_env[var_by_name(F, nm_)] = sy_
        except AnalysisBroken:
            pass
    dir_of = {nx: 0, ny: 1, nz: 2}

    def loop_nest(node):
        """[(var key, start, last value (sympy), direction symbol)] from the outermost enclosing for-loop inside blk to the innermost"""
        nest = []
        for a in F.ancestors(node):
            if a is blk:
                break
            if a.get("k") == "ForStmt":
                init, cond = a["c"][0], sc(a["c"][1])
                if not (init is not None and init.get("k") == "DeclStmt" and init["c"] and init["c"][0].get("c")):
                    return None
                iv = init["c"][0]
                start = sc(iv["c"][0])
                if start.get("k") != "IntegerLiteral" or cond is None or cond.get("k") != "BinaryOperator" or cond.get("op") not in ("<", "<="):
                    return None
                if not astq.is_ref_to(cond["c"][0], iv["r"]):
                    return None
                inc = sc(a["c"][2]) if a["c"][2] is not None else None
                if inc is None or inc.get("k") != "UnaryOperator" or inc.get("op") != "++" or not astq.is_ref_to(inc["c"][0], iv["r"]):
                    return None
                b = sp.expand(norm.Sym(P, F, inline_locals=True, env=dict(base_env))(cond["c"][1]))
                last = b if cond["op"] == "<=" else b - 1
                ds = [d_ for d_ in (nx, ny, nz) if last.has(d_)]
                if len(ds) != 1 or last.free_symbols - {ds[0]}:
                    return None
                nest.append((iv["r"], int(start["v"]), last, ds[0]))
        return nest[::-1]

    def counter_formula(nest, loopsyms):
        total = sp.Integer(0)
        stride = sp.Integer(1)
        for (key, start, last, dsym) in reversed(nest):
            total += (loopsyms[key] - start) * stride
            stride *= (last - start + 1)
        return sp.expand(total)
    n_ok = 0
    for dim in (2, 3):
        want_dirs = {nx, nz} if dim == 2 else {nx, ny, nz}
        # ---- lattice values
        pos = {}
        for y in F.walk(blk):
            if y.get("k") == "BinaryOperator" and y.get("op") == "=":
                s_ = astq.subscript(y["c"][0])
                if s_ and sc(s_[0]).get("n") in ("grid_x", "grid_y", "grid_z") and R(s_[1]) == "counter":
                    nest = loop_nest(y)
                    if nest is None:
                        continue
                    if {d_ for (_, _, _, d_) in nest} == want_dirs and len(nest) == dim and all(sp.expand(last - (d_ + st)) == 0 for (_, st, last, d_) in nest):
                        pos.setdefault(sc(s_[0])["n"], (y, nest))
        need = ("grid_x", "grid_z") if dim == 2 else ("grid_x", "grid_y", "grid_z")
        if not all(k in pos for k in need):
            rep.unknown(rule, "dim %d: lattice loop not recognised (found %s)" % (dim, sorted(pos)))
            continue
        nest = pos["grid_x"][1]
        loopsyms = {key: sp.Symbol("L%d" % dir_of[d_], integer=True, positive=True) for (key, _, _, d_) in nest}
        by_dir = {d_: (loopsyms[key], st) for (key, st, _, d_) in nest}
        env = dict(base_env)
        env.update(loopsyms)
        symp = norm.Sym(P, F, inline_locals=True, env=env)
        want_pos = {"grid_x": xmin + (by_dir[nx][0] - by_dir[nx][1]) * (xmax - xmin) / nx, "grid_z": zmin + (by_dir[nz][0] - by_dir[nz][1]) * (zmax - zmin) / nz}
        if dim == 3:
            want_pos["grid_y"] = ymin + (by_dir[ny][0] - by_dir[ny][1]) * (ymax - ymin) / ny
        bad = []
        for k in need:
            got = symp(pos[k][0]["c"][1])
            def pick(e, dim=dim):
                c_ = e.args[0]
                nm_ = getattr(c_.func, "__name__", "")
                lits = [a_ for a_ in getattr(c_, "args", ()) if getattr(a_, "is_Integer", False)]
                if nm_ in ("op==", "op!=") and len(lits) == 1:
                    t_ = (int(lits[0]) == dim) == (nm_ == "op==")
                    return e.args[1] if t_ else e.args[2]
                return e
            got = got.replace(lambda e: getattr(e.func, "__name__", "") == "ite", pick)
            if sp.simplify(got - want_pos[k]) != 0:
                bad.append("%s = %s" % (k, str(got)[:70]))
        if bad:
            rep.violation(rule, "dim %d: lattice values are %s" % (dim, "; ".join(bad)), F.nloc(pos[need[0]][0]), F.qn, "",
                          "expected min + (index - 1) * (max - min)/n_cell for longitude, latitude and radius", key="%s|pos|%d" % (rule, dim),
                          witness="a %dD chunk with different cell counts per direction" % dim)
            continue
        Nf = counter_formula(nest, loopsyms)
        # ---- conversion to Cartesian coordinates: a loop over all nodes that reads the stored values into locals and overwrites them
        conv = None
        for y in F.walk(blk):
            if y.get("k") != "ForStmt":
                continue
            stores = {}
            for z in F.walk(y["c"][3]):
                if z.get("k") == "BinaryOperator" and z.get("op") == "=":
                    s_ = astq.subscript(z["c"][0])
                    if s_ and sc(s_[0]).get("n") in ("grid_x", "grid_y", "grid_z") and any(t_.get("k") == "CallExpr" for t_ in F.walk(z["c"][1])):
                        stores[sc(s_[0])["n"]] = (z, s_[1])
            if set(stores) == set(need):
                conv = (y, stores)
                break
        if conv is None:
            rep.unknown(rule, "dim %d: conversion loop (lon, lat, r) -> (x, y, z) not found" % dim)
            continue
        cy, stores = conv
        civ = cy["c"][0]["c"][0] if cy["c"][0] is not None and cy["c"][0].get("k") == "DeclStmt" else None
        ccond = sc(cy["c"][1])
        whole = civ is not None and civ.get("c") and sc(civ["c"][0]).get("k") == "IntegerLiteral" and int(sc(civ["c"][0])["v"]) == 0 and ccond is not None and \
            ccond.get("op") == "<" and R(ccond["c"][1]) == "n_p"
        lon, lat, rad = sp.symbols("LON LAT RAD", real=True)

        def chook(nn):
            s2 = astq.subscript(nn)
            if s2 and civ is not None and astq.is_ref_to(s2[1], civ["r"]) and sc(s2[0]).get("n") in ("grid_x", "grid_y", "grid_z"):
                return {"grid_x": lon, "grid_y": lat, "grid_z": rad}[sc(s2[0])["n"]]
            return None
        symv = norm.Sym(P, F, inline_locals=True, hook=chook)
        want_c = {"grid_x": rad * sp.cos(lon), "grid_z": rad * sp.sin(lon)} if dim == 2 else \
            {"grid_x": rad * sp.cos(lat) * sp.cos(lon), "grid_y": rad * sp.cos(lat) * sp.sin(lon), "grid_z": rad * sp.sin(lat)}
        badc = []
        for k in need:
            z, idx = stores[k]
            if not astq.is_ref_to(idx, civ["r"]) if civ is not None else True:
                badc.append("%s is stored at another index" % k)
                continue
            # the right-hand side may only use locals read before the first store (no grid array read after an overwrite)
            if any(astq.subscript(t_) and sc(astq.subscript(t_)[0]).get("n") in ("grid_x", "grid_y", "grid_z") for t_ in F.walk(z["c"][1])):
                badc.append("%s is computed from array elements that may already be overwritten" % k)
                continue
            got = symv(z["c"][1])
            if sp.simplify(got - want_c[k]) != 0:
                badc.append("%s = %s" % (k, str(got)[:60]))
        if not whole:
            badc.append("the conversion loop does not run over all n_p nodes")
        if badc:
            rep.violation(rule, "dim %d: conversion to Cartesian coordinates: %s" % (dim, "; ".join(badc)[:240]), F.nloc(cy), F.qn, "",
                          "expected r (cos lat cos lon, cos lat sin lon, sin lat) of the stored lattice values", key="%s|conv|%d" % (rule, dim),
                          witness="a %dD chunk away from longitude 0" % dim)
            continue
        # ---- connectivity
        conn = {}
        for y in F.walk(blk):
            if y.get("k") == "BinaryOperator" and y.get("op") == "=":
                s_ = astq.subscript(y["c"][0])
                s2_ = astq.subscript(s_[0]) if s_ else None
                if s2_ and sc(s2_[0]).get("n") == "grid_connectivity" and R(s2_[1]) == "counter" and sc(s_[1]).get("k") == "IntegerLiteral":
                    cn = loop_nest(y)
                    if cn is None:
                        continue
                    if {d_ for (_, _, _, d_) in cn} == want_dirs and len(cn) == dim and all(st == 1 and sp.expand(last - d_) == 0 for (_, st, last, d_) in cn):
                        conn[int(sc(s_[1])["v"])] = (y, cn)
        nvert = 4 if dim == 2 else 8
        if sorted(conn) != list(range(nvert)):
            rep.unknown(rule, "dim %d: connectivity loop not recognised (entries %s)" % (dim, sorted(conn)))
            continue
        cn = conn[0][1]
        # same nesting order as the lattice loop, otherwise the cell counter and the node numbering do not belong together
        if [d_ for (_, _, _, d_) in cn] != [d_ for (_, _, _, d_) in nest]:
            rep.violation(rule, "dim %d: the cell loop nests its directions differently from the node loop" % dim, F.nloc(conn[0][0]), F.qn, "", "cells are numbered against another lattice",
                          key="%s|nest|%d" % (rule, dim))
            continue
        csyms = {key: sp.Symbol("C%d" % dir_of[d_], integer=True, positive=True) for (key, _, _, d_) in cn}
        cby = {d_: csyms[key] for (key, _, _, d_) in cn}
        envc = dict(base_env)
        envc.update(csyms)
        symc = norm.Sym(P, F, inline_locals=True, env=envc)
        dirs = [nx, nz] if dim == 2 else [nx, ny, nz]

        def node(off):
            return sp.expand(Nf.subs({by_dir[d_][0]: cby[d_] + off[i_] for i_, d_ in enumerate(dirs)}, simultaneous=True))
        corners = {}
        import itertools as _it
        for off in _it.product((0, 1), repeat=dim):
            corners[node(off)] = off
        got_offs = []
        badv = []
        for m in range(nvert):
            got = sp.expand(symc(conn[m][0]["c"][1]))
            if got not in corners:
                badv.append("vertex %d = %s is not a corner of lattice cell (i, j, k)" % (m, got))
            else:
                got_offs.append(corners[got])
        if not badv:
            if len(set(got_offs)) != nvert:
                badv.append("a corner is listed twice")
            else:
                rad_i = dirs.index(nz)

                def walk_ok(face):
                    return all(sum(abs(a - b) for a, b in zip(face[q], face[(q + 1) % 4])) == 1 for q in range(4))
                if dim == 2:
                    if not walk_ok(got_offs):
                        badv.append("the four corners are not listed as a closed walk around the cell: %s" % got_offs)
                else:
                    bottom, top = got_offs[:4], got_offs[4:]
                    if not (all(o[rad_i] == 0 for o in bottom) and all(o[rad_i] == 1 for o in top)):
                        badv.append("entries 0-3 / 4-7 are not the inner and the outer face: %s" % got_offs)
                    elif not walk_ok(bottom):
                        badv.append("the inner face is not a closed walk: %s" % bottom)
                    elif any(tuple(v if q != rad_i else 1 for q, v in enumerate(b)) != t for b, t in zip(bottom, top)):
                        badv.append("entry m+4 is not the corner radially above entry m")
        if badv:
            rep.violation(rule, "dim %d: cell connectivity: %s" % (dim, "; ".join(badv)[:300]), F.nloc(conn[0][0]), F.qn, "", "a cell does not consist of the corners of one lattice cell in VTK order",
                          key="%s|conn|%d" % (rule, dim), witness="any %dD chunk with more than one cell per direction" % dim)
        else:
            n_ok += 1
            rep.ok(rule, "dim %d: lattice values, conversion and %d-vertex connectivity agree with the node numbering N = %s" % (dim, nvert, Nf), F.nloc(conn[0][0]), F.qn)
    rep.floor(rule, n_ok, 2, "chunk grid dimensions verified")


def grid_annulus(P, rep, rule="GRID.annulus"):
    """the annulus mesh: n_t x (n_z + 1) nodes on circles, quads wrapping around"""
    rep.rule(rule, "gwb-grid, grid_type annulus: with n_t cells around and n_z cells across, node N(i, j) = j*n_t + (i-1) (i = 1..n_t, j = 0..n_z) "
                   "ends up at radius z_min + j*(z_max - z_min)/n_z and angle (i-1)*2*pi/n_t (the first stage stores arc length and height, the "
                   "second stage visits the same n_t*(n_z+1) nodes in the same order and maps them to (cos, sin)*(inner radius + height)); cell "
                   "(i, j), j = 1..n_z, lists N(i+1, j-1), N(i, j-1), N(i, j), N(i+1, j) - a closed walk around one lattice cell - where i+1 "
                   "wraps to 1 in the last column")
    from .expr import Block
    F = main_of(P, "gwb-grid")
    R = lambda x: norm.render(P, x, nocast=True).replace(" ", "")
    blocks = [x for x in F.walk() if x.get("k") == "IfStmt" and R(x["c"][0]) in ('(grid_type=="annulus")', '("annulus"==grid_type)')]
    if len(blocks) != 1:
        rep.unknown(rule, "%d `grid_type == \"annulus\"` blocks" % len(blocks))
        return
    blk = blocks[0]["c"][1]
    miss = astq.missing_anchors(P, F, ["z_min", "z_max", "n_cell_z", "n_cell_t", "grid_x", "grid_z", "grid_connectivity", "counter"])
    if miss:
        rep.unknown(rule, "gwb-grid main: the variables %s this rule is written over no longer exist (renamed?)" % miss)
        return
    nz, nt = sp.symbols("n_cell_z n_cell_t", integer=True, positive=True)
    zmin, zmax = sp.symbols("z_min z_max", positive=True)
    env0 = {}
    for nm_, sy_ in (("n_cell_z", nz), ("z_min", zmin), ("z_max", zmax)):
        env0[var_by_name(F, nm_)] = sy_
    ntk = [n_["r"] for n_ in F.walk(blk) if n_.get("k") == "VarDecl" and n_.get("n") == "n_cell_t"]
    if len(ntk) != 1:
        rep.unknown(rule, "n_cell_t is not declared once inside the annulus block")
        return
    env0[ntk[0]] = nt

    def hook_pi(nn):
        if nn.get("k") == "DeclRefExpr" and P.d(nn["r"]).get("qn") == "WorldBuilder::Consts::PI":
            return sp.pi
        return None

    def nest_of(node):
        out = []
        for a in F.ancestors(node):
            if a is blk:
                break
            if a.get("k") == "ForStmt":
                init, cond = a["c"][0], sc(a["c"][1])
                iv = init["c"][0] if init is not None and init.get("k") == "DeclStmt" and init["c"] else None
                if iv is None or not iv.get("c") or sc(iv["c"][0]).get("k") != "IntegerLiteral" or cond is None or cond.get("op") not in ("<", "<="):
                    return None
                inc = sc(a["c"][2]) if a["c"][2] is not None else None
                if inc is None or inc.get("k") != "UnaryOperator" or inc.get("op") != "++":
                    return None
                last = sp.expand(norm.Sym(P, F, inline_locals=True, env=dict(env0))(cond["c"][1]))
                if cond["op"] == "<":
                    last = last - 1
                out.append((iv["r"], int(sc(iv["c"][0])["v"]), last, a))
        return out[::-1]

    def counter_of(nest, syms):
        total, stride = sp.Integer(0), sp.Integer(1)
        for (key, st, last, _) in reversed(nest):
            total += (syms[key] - st) * stride
            stride *= (last - st + 1)
        return sp.expand(total), sp.expand(stride)
    # ---- stage 1 and stage 2: stores to grid_x[counter] / grid_z[counter]
    stages = []
    for y in F.walk(blk):
        if y.get("k") == "BinaryOperator" and y.get("op") == "=":
            s_ = astq.subscript(y["c"][0])
            if s_ and sc(s_[0]).get("n") in ("grid_x", "grid_z") and R(s_[1]) == "counter":
                nest = nest_of(y)
                if nest and len(nest) == 2:
                    inner = nest[-1][3]
                    if not stages or stages[-1][0] is not inner:
                        stages.append((inner, nest, {}))
                    stages[-1][2][sc(s_[0])["n"]] = y
    stages = [st for st in stages if set(st[2]) == {"grid_x", "grid_z"}]
    if len(stages) != 2:
        rep.unknown(rule, "the two node stages (arc length / height, then (x, z)) were not recognised (%d found)" % len(stages))
        return
    problems = []
    (l1, nest1, st1), (l2, nest2, st2) = stages
    s1 = {key: sp.Symbol("a%d" % q, integer=True) for q, (key, _, _, _) in enumerate(nest1)}
    s2 = {key: sp.Symbol("b%d" % q, integer=True) for q, (key, _, _, _) in enumerate(nest2)}
    N1, cnt1 = counter_of(nest1, s1)
    N2, cnt2 = counter_of(nest2, s2)
    if sp.expand(cnt1 - nt * (nz + 1)) != 0 or sp.expand(cnt2 - cnt1) != 0:
        problems.append("the stages visit %s and %s nodes, not n_t*(n_z+1)" % (cnt1, cnt2))
    # which loop variable of stage 1 runs around (count n_t) and which across
    around1 = [key for (key, st, last, _) in nest1 if sp.expand(last - st + 1 - nt) == 0]
    across1 = [key for (key, st, last, _) in nest1 if sp.expand(last - st + 1 - (nz + 1)) == 0]
    if len(around1) != 1 or len(across1) != 1 or [k_ for (k_, _, _, _) in nest1] != [across1[0], around1[0]]:
        rep.unknown(rule, "stage 1 is not `for height: for around:`")
        return
    ia, ja = s1[around1[0]], s1[across1[0]]
    st_a = [st for (key, st, _, _) in nest1 if key == around1[0]][0]
    st_j = [st for (key, st, _, _) in nest1 if key == across1[0]][0]
    env1 = dict(env0)
    env1.update(s1)
    sym1 = norm.Sym(P, F, inline_locals=True, env=env1, hook=hook_pi)
    arc = sp.simplify(sym1(st1["grid_x"]["c"][1]))
    hgt = sp.simplify(sym1(st1["grid_z"]["c"][1]))
    want_arc = (ia - st_a) * (2 * sp.pi * zmax) / nt
    want_h = (ja - st_j) * (zmax - zmin) / nz
    if sp.simplify(arc - want_arc) != 0:
        problems.append("stage 1 stores the arc length %s, expected (i - %d)*2*pi*z_max/n_t" % (arc, st_a))
    if sp.simplify(hgt - want_h) != 0:
        problems.append("stage 1 stores the height %s, expected (j - %d)*(z_max - z_min)/n_z" % (hgt, st_j))
    # stage 2: reads both stored values into locals first, then x = cos(theta)(inner + h), z = sin(theta)(inner + h), theta = arc/(2 pi z_max)*2 pi
    A_, H_ = sp.symbols("ARC H", real=True)

    def hook2(nn):
        h_ = hook_pi(nn)
        if h_ is not None:
            return h_
        s2_ = astq.subscript(nn)
        if s2_ and R(s2_[1]) == "counter" and sc(s2_[0]).get("n") in ("grid_x", "grid_z"):
            return {"grid_x": A_, "grid_z": H_}[sc(s2_[0])["n"]]
        return None
    sym2 = norm.Sym(P, F, inline_locals=True, env=dict(env0), hook=hook2)
    theta = A_ / (2 * sp.pi * zmax) * 2 * sp.pi
    for nm_, want in (("grid_x", sp.cos(theta) * (zmin + H_)), ("grid_z", sp.sin(theta) * (zmin + H_))):
        y = st2[nm_]
        if any(astq.subscript(t_) and sc(astq.subscript(t_)[0]).get("n") in ("grid_x", "grid_z") for t_ in F.walk(y["c"][1])):
            problems.append("stage 2 computes %s from array elements that may already be overwritten" % nm_)
            continue
        got = sym2(y["c"][1])
        if sp.simplify(got - want) != 0:
            problems.append("stage 2 sets %s = %s" % (nm_, str(got)[:70]))
    # ---- connectivity
    conn = {}
    cloop = None
    for y in F.walk(blk):
        if y.get("k") == "BinaryOperator" and y.get("op") == "=":
            s_ = astq.subscript(y["c"][0])
            s2_ = astq.subscript(s_[0]) if s_ else None
            if s2_ and sc(s2_[0]).get("n") == "grid_connectivity" and R(s2_[1]) == "counter" and sc(s_[1]).get("k") == "IntegerLiteral":
                conn[int(sc(s_[1])["v"])] = y
                cloop = nest_of(y)
    if sorted(conn) != [0, 1, 2, 3] or not cloop or len(cloop) != 2:
        rep.unknown(rule, "connectivity loop not recognised (entries %s)" % sorted(conn))
        return
    (jk, jst, jlast, _), (ik, ist, ilast, iloop) = cloop
    if sp.expand(ilast - ist + 1 - nt) != 0 or sp.expand(jlast - jst + 1 - nz) != 0 or ist != 1 or jst != 1:
        problems.append("the cell loop is not `for j = 1..n_z: for i = 1..n_t`")
    I_, J_ = sp.symbols("I J", integer=True, positive=True)
    ccount = (J_ - 1) * nt + (I_ - 1)

    def Nnode(i_, j_):
        return sp.expand(j_ * nt + (i_ - 1))
    for last_col in (False, True):
        def choose(c, last_col=last_col):
            t = norm.render(P, c, nocast=True).replace(" ", "")
            if t in ("(i==n_cell_t)", "(n_cell_t==i)") or ("==" in t and "n_cell_t" in t):
                return last_col
            return None
        envc = dict(env0)
        envc[ik] = I_
        envc[jk] = J_
        B = Block(P, F, choose=choose)
        B.decide_ternaries = True
        B.sym.env.update(envc)
        for v_ in F.walk(blk):
            if v_.get("k") == "VarDecl" and v_.get("n") == "counter":
                B.sym.env[v_["r"]] = ccount
        body = astq.stmts_of(iloop["c"][3])
        vals = {}
        try:
            for st in body:
                hit = [m for m, y in conn.items() if y is st or any(z is y for z in F.walk(st))]
                if hit:
                    for m in hit:
                        vals[m] = sp.expand(B.sym(conn[m]["c"][1]))
                    continue
                if st.get("k") == "UnaryOperator":
                    continue
                B.stmt(st)
        except AnalysisBroken as e:
            rep.unknown(rule, "connectivity: %s" % e)
            return
        ip1 = sp.Integer(1) if last_col else I_ + 1
        sub = {I_: nt} if last_col else {}
        want = [Nnode(ip1, J_ - 1), Nnode(I_, J_ - 1), Nnode(I_, J_), Nnode(ip1, J_)]
        got = [sp.expand(vals.get(m, sp.nan).subs(sub)) for m in range(4)]
        want = [sp.expand(w.subs(sub)) for w in want]
        corner_set = set(want)
        if set(got) != corner_set:
            problems.append("%s column: the cell lists %s, expected the corners %s" % ("last" if last_col else "inner", got, want))
        else:
            order = [want.index(g) for g in got]
            ring = [(1, 0), (0, 0), (0, 1), (1, 1)]
            if not all(sum(abs(a - b) for a, b in zip(ring[order[q]], ring[order[(q + 1) % 4]])) == 1 for q in range(4)):
                problems.append("%s column: the four corners are not listed as a closed walk: %s" % ("last" if last_col else "inner", got))
    if problems:
        rep.violation(rule, "annulus: %s" % "; ".join(problems)[:400], F.nloc(blocks[0]), F.qn, "", "nodes or cells of the annulus are misplaced", key=rule,
                      witness="gwb-grid with grid_type annulus and more than one cell across")
    else:
        rep.ok(rule, "annulus: n_t*(n_z+1) nodes at radius z_min + j*dr and angle (i-1)*2*pi/n_t; cells are closed walks with wrap-around in the last column", F.nloc(blocks[0]), F.qn)


def filter_call_sites(P, rep, rule="FILTER.calls"):
    rep.rule(rule, "filter_vtu_mesh appends to its output mesh and data sets: at every call the output containers are objects declared in the "
                   "same iteration (block) as the call and not used before it, so each filtered file starts empty; in the per-tag loop the selection mask is "
                   "fresh (or cleared) in every iteration and has exactly the entry of the loop's tag set")
    FV = P.funcs_named("filter_vtu_mesh")
    if len(FV) != 1:
        rep.unknown(rule, "filter_vtu_mesh not found")
        return
    FV = FV[0]
    n = 0
    for F, call in P.callsites.get(FV.key, []):
        if call.get("k") != "CallExpr":
            continue
        n += 1
        args = call["c"][1:]
        loop = astq.enclosing(F, call, astq.LOOPS)
        bad = []
        for a in args[4:6]:
            a0 = sc(a)
            if a0.get("k") != "DeclRefExpr":
                bad.append("%s is not a local object" % norm.render(P, a0))
                continue
            decl = None
            for x in F.walk():
                if x.get("k") == "VarDecl" and x.get("r") == a0["r"]:
                    decl = x
            if decl is None:
                bad.append("%s is not declared in main" % a0.get("n"))
                continue
            dloop = astq.enclosing(F, decl, astq.LOOPS)
            if (dloop["i"] if dloop else None) != (loop["i"] if loop else None):
                bad.append("%s is declared outside the loop that calls the filter (it accumulates across iterations)" % a0.get("n"))
            # a mesh wraps references to its component vectors: those must be fresh too
            if decl.get("c"):
                for y in F.walk(decl["c"][0]):
                    if y.get("k") == "DeclRefExpr" and P.d(y["r"]).get("storage") == "local":
                        d2 = None
                        for x in F.walk():
                            if x.get("k") == "VarDecl" and x.get("r") == y["r"]:
                                d2 = x
                        l2 = astq.enclosing(F, d2, astq.LOOPS) if d2 is not None else None
                        if d2 is not None and (l2["i"] if l2 else None) != (loop["i"] if loop else None):
                            bad.append("%s (part of %s) is declared outside the calling loop" % (y.get("n"), a0.get("n")))
        # inside a loop over the tags the selection mask picks the tag of this iteration only
        if loop is not None and len(args) > 1:
            m0 = sc(args[1])
            mdecl = None
            if m0.get("k") == "DeclRefExpr":
                for x in F.walk():
                    if x.get("k") == "VarDecl" and x.get("r") == m0["r"]:
                        mdecl = x
            if mdecl is None:
                bad.append("the selection mask is not a local object")
            else:
                mloop = astq.enclosing(F, mdecl, astq.LOOPS)
                fresh = (mloop["i"] if mloop else None) == loop["i"]
                if not fresh:
                    # declared outside: acceptable only if the loop clears it before use (assign / std::fill over the whole mask)
                    cleared = False
                    for y in F.walk(loop):
                        if y.get("k") in ("CXXMemberCallExpr",) and P.d(y.get("callee")).get("n") == "assign" and any(
                                z.get("k") == "DeclRefExpr" and z.get("r") == m0["r"] for z in F.walk(y["c"][0])) and (y.get("l") or 0) < (call.get("l") or 0):
                            cleared = True
                        if y.get("k") == "CallExpr" and P.d(y.get("callee")).get("qn") == "std::fill" and any(
                                z.get("k") == "DeclRefExpr" and z.get("r") == m0["r"] for z in F.walk(y)) and (y.get("l") or 0) < (call.get("l") or 0):
                            cleared = True
                    if not cleared:
                        bad.append("the selection mask %s is declared outside the loop and not cleared in it (tags selected in earlier iterations stay selected)" % m0.get("n"))
                else:
                    init_txt = norm.render(P, mdecl["c"][0], nocast=True) if mdecl.get("c") else ""
                    if "false" not in init_txt:
                        bad.append("the selection mask does not start all-false (%s)" % init_txt[:40])
                lv = None
                if loop.get("k") == "ForStmt" and loop["c"][0] is not None and loop["c"][0].get("k") == "DeclStmt":
                    lv = loop["c"][0]["c"][0].get("r")
                stores = []
                for y in F.walk(loop):
                    if y.get("k") in ("BinaryOperator", "CXXOperatorCallExpr") and y.get("op") == "=":
                        kids = [z for z in y["c"] if z is not None]
                        sb = astq.subscript(sc(kids[-2]))
                        if sb and astq.is_ref_to(sc(sb[0]), m0["r"]):
                            stores.append((sb, kids[-1]))
                if len(stores) != 1 or not astq.is_ref_to(sc(stores[0][0][1]), lv) or norm.render(P, stores[0][1]).strip("()") != "true":
                    bad.append("the loop does not set exactly mask[loop index] = true (%d stores)" % len(stores))
        if bad:
            rep.violation(rule, "filter_vtu_mesh call at line %s: %s" % (call.get("l"), "; ".join(sorted(set(bad)))), F.nloc(call), F.qn, norm.render(P, call)[:120],
                          "later filtered files also contain the cells and node data of earlier ones", key="%s|%s" % (rule, "loop" if loop else "top"),
                          witness="--by-tag on a world with two tagged features: the second file")
        else:
            rep.ok(rule, "call at line %s: output mesh and data declared in the calling %s" % (call.get("l"), "iteration" if loop else "block"), F.nloc(call), F.qn)
    rep.floor(rule, n, 2, "calls to filter_vtu_mesh")



# ------------------------------------------------------------------------------------------------
LENIENT_PARSERS = {"strtod", "strtof", "strtold", "atof", "atoi", "atol", "std::strtod", "std::strtof", "std::atof", "std::atoi", "std::atol",
                   "std::stod", "std::stof", "std::stoi", "std::stol", "std::stoul", "sscanf", "std::sscanf", "std::strtol", "strtol", "std::strtoul", "strtoul"}


def number_parsers(P, rep, rule="LINT.number-parsers"):
    """tokens of data/grid/option lines are converted by Utilities::string_to_double/int/unsigned_int only (they reject trailing
    garbage, nan/inf, hex and overflow); the lenient C conversions are not used anywhere in the library or the tools"""
    rep.rule(rule, "no lenient C/C++ number parser (strtod, atof, stod, sscanf, ...) is used in the library or the tools: they accept "
                   "'nan', 'inf', hexadecimal and overflowing tokens and ignore trailing garbage, so a malformed row would be misread "
                   "instead of reported; gwb-dat converts row tokens with Utilities::string_to_double only")
    n = 0
    for F in P.funcs.values():
        n += 1
        for x in F.walk():
            if x.get("k") in ("CallExpr",) and x.get("callee"):
                q = P.d(x["callee"]).get("qn", "")
                if q in LENIENT_PARSERS:
                    rep.violation(rule, "%s calls %s" % (F.qn, q), F.nloc(x), F.qn, norm.render(P, x)[:100],
                                  "malformed numeric tokens (nan, inf, 0x..., 1e999, '12abc') are accepted silently", key="%s|%s|%s" % (rule, F.qn, q),
                                  witness="a data row containing the token 'nan' or '0x10'")
    # the string_to_* helpers are stream based with a full-consumption test
    for nm in ("string_to_double", "string_to_int", "string_to_unsigned_int"):
        G = P.func("WorldBuilder::Utilities::" + nm)
        has_stream = any("basic_istringstream" in x.get("t", "") for x in G.walk() if x.get("k") == "VarDecl")
        throws = any(x.get("k") == "IfStmt" and x.get("m") == "WBAssertThrow" for x in G.walk())
        extract = any(x.get("k") in ("CXXOperatorCallExpr", "CXXMemberCallExpr") and (x.get("op") == ">>" or x.get("c", [{}])[0].get("n") == "operator>>") for x in G.walk())
        getc = any(x.get("k") == "CXXMemberCallExpr" and x["c"][0].get("n") == "get" for x in G.walk())
        if has_stream and throws and extract and getc:
            rep.ok(rule, "%s: stream extraction + trailing-character test + release-active throw" % nm, G.loc, G.qn)
        else:
            rep.violation(rule, "%s is not `stream >> value` with a trailing-character test and a release-active throw" % nm, G.loc, G.qn, "",
                          "malformed numeric tokens are not reported", key="%s|%s|shape" % (rule, nm), witness="token '12abc'")
    rep.ok(rule, "%d functions scanned for lenient number parsers" % n)


def monotone_guards(P, rep, F, rule, what):
    """a local that starts at a literal v0 and is only ever raised (x = max(x, e)) is never below v0; a guard `x < c` with c <= v0
    can never fire (and symmetrically for min / >): the stated belief `x may be below c` contradicts the code"""
    n = 0
    for v in F.walk(F.body):
        if v.get("k") != "VarDecl" or not v.get("c") or not norm.is_arith(v.get("t", "")):
            continue
        i0 = norm.strip_casts(v["c"][0])
        sign = 1
        if i0 is not None and i0.get("k") == "UnaryOperator" and i0.get("op") == "-":
            sign, i0 = -1, norm.strip_casts(i0["c"][0])
        if i0 is None or i0.get("k") not in ("IntegerLiteral", "FloatingLiteral"):
            continue
        v0 = sign * float(i0["v"])
        key = v["r"]
        kinds = set()
        okv = True
        for y in F.walk(F.body):
            if y.get("k") in ("BinaryOperator", "CompoundAssignOperator") and y.get("op") in norm.ASSIGN_OPS and astq.is_ref_to(y["c"][0], key):
                r0 = norm.strip_casts(y["c"][1])
                if y.get("op") == "=" and r0 is not None and r0.get("k") == "CallExpr" and P.d(r0.get("callee")).get("qn") in ("std::max", "std::min") and \
                        any(astq.is_ref_to(a_, key) for a_ in r0["c"][1:]):
                    kinds.add(P.d(r0["callee"])["qn"])
                else:
                    okv = False
            elif y.get("k") == "UnaryOperator" and y.get("op") in ("++", "--", "&") and astq.is_ref_to(y["c"][0], key):
                okv = False
        if not okv or len(kinds) != 1:
            continue
        raised = kinds == {"std::max"}
        for c in F.walk(F.body):
            if c.get("k") == "BinaryOperator" and c.get("op") in ("<", "<=", ">", ">="):
                l, r = norm.strip_casts(c["c"][0]), norm.strip_casts(c["c"][1])
                op = c["op"]
                if astq.is_ref_to(r, key):
                    l, r, op = r, l, {"<": ">", "<=": ">=", ">": "<", ">=": "<="}[op]
                if not astq.is_ref_to(l, key):
                    continue
                sg = 1
                if r is not None and r.get("k") == "UnaryOperator" and r.get("op") == "-":
                    sg, r = -1, norm.strip_casts(r["c"][0])
                if r is None or r.get("k") not in ("IntegerLiteral", "FloatingLiteral"):
                    continue
                cval = sg * float(r["v"])
                n += 1
                dead = (raised and ((op == "<" and cval <= v0) or (op == "<=" and cval < v0))) or \
                       (not raised and ((op == ">" and cval >= v0) or (op == ">=" and cval > v0)))
                if dead:
                    rep.violation(rule, "%s: `%s` can never hold: %s starts at %g and is only %s" % (what, norm.render(P, c)[:40], v.get("n"), v0, "raised" if raised else "lowered"),
                                  F.nloc(c), F.qn, norm.render(P, c)[:100], "the case the guard is written for is treated like a regular value",
                                  key="%s|guard|%s" % (rule, v.get("n")), witness="a cell none of whose nodes lies in a feature (tag -1)")
                else:
                    rep.ok(rule, "%s: the guard `%s` can fire (%s starts at %g)" % (what, norm.render(P, c)[:40], v.get("n"), v0), F.nloc(c), F.qn)
    return n


def zlib_blocks(P, rep, rule="VTU.zlib-blocks"):
    """the block structure of vtu11's compressed appended data"""
    rep.rule(rule, "vtu11::detail::zlibCompressData splits n >= 1 bytes into ceil(n/b) blocks: numberOfBlocks - 1 full blocks of b bytes and a last "
                   "block of `remainder` bytes with 1 <= remainder <= b and (numberOfBlocks - 1)*b + remainder = n; the two extracted integer "
                   "expressions are evaluated with C++ integer division over all residues n mod b for b = 2, 3, 7 and at the boundaries of "
                   "b = 32768 (the header of a compressed DataArray announces these numbers to the reader)")
    fs = [F for F in P.funcs.values() if F.qn.endswith("zlibCompressData") and F.body is not None]
    if not fs:
        rep.unknown(rule, "no instantiation of vtu11::detail::zlibCompressData in gwb-grid's translation unit")
        return
    n_ok = 0
    for F in fs[:1]:
        decl = {}
        for v in F.walk(F.body):
            if v.get("k") == "VarDecl" and v.get("n") in ("numberOfBytes", "numberOfBlocks", "remainder", "blocksize") and v.get("c"):
                decl[v["n"]] = v
        if not {"numberOfBytes", "numberOfBlocks", "remainder", "blocksize"} <= set(decl):
            rep.unknown(rule, "zlibCompressData: the locals numberOfBytes / numberOfBlocks / remainder / blocksize were not found (renamed?)")
            return

        def ev(e, env):
            e = sc(e)
            k = e.get("k")
            if k == "IntegerLiteral":
                return int(e["v"])
            if k == "DeclRefExpr":
                if e.get("n") in env:
                    return env[e["n"]]
                raise KeyError(e.get("n"))
            if k == "ParenExpr":
                return ev(e["c"][0], env)
            if k == "BinaryOperator" and e.get("op") in ("+", "-", "*", "/"):
                a, b = ev(e["c"][0], env), ev(e["c"][1], env)
                if e["op"] == "/":
                    if b == 0:
                        raise ZeroDivisionError
                    q = abs(a) // abs(b)
                    return q if (a >= 0) == (b >= 0) else -q
                return {"+": a + b, "-": a - b, "*": a * b}[e["op"]]
            raise KeyError(k)
        bad = None
        cases = 0
        for b in (2, 3, 7, 32768):
            residues = range(b) if b < 10 else (0, 1, 2, b - 2, b - 1)
            for q in (0, 1, 2, 5):
                for r in residues:
                    n_ = q * b + r
                    if n_ < 1:
                        continue
                    cases += 1
                    try:
                        nb = ev(decl["numberOfBlocks"]["c"][0], {"numberOfBytes": n_, "blocksize": b})
                        rem = ev(decl["remainder"]["c"][0], {"numberOfBytes": n_, "blocksize": b, "numberOfBlocks": nb})
                    except (KeyError, ZeroDivisionError) as e:
                        rep.unknown(rule, "zlibCompressData: block count / remainder are not integer expressions of numberOfBytes and blocksize (%s)" % e)
                        return
                    want = -(-n_ // b)
                    if nb != want or not (1 <= rem <= b) or (nb - 1) * b + rem != n_:
                        bad = (n_, b, nb, rem, want)
                        break
                if bad:
                    break
            if bad:
                break
        # the loop writes numberOfBlocks - 1 full blocks
        loops = [l for l in F.walk(F.body) if l.get("k") == "ForStmt"]
        okl = False
        for l in loops:
            c = sc(l["c"][1])
            if c is not None and c.get("op") == "<" and norm.render(P, c["c"][1], nocast=True).replace(" ", "") in ("(numberOfBlocks-1)",):
                okl = True
        if bad:
            rep.violation(rule, "zlibCompressData: %d bytes with block size %d give %d blocks and a last block of %d bytes (expected %d blocks, last block 1..%d)" % (
                bad[0], bad[1], bad[2], bad[3], bad[4], bad[1]), F.nloc(decl["numberOfBlocks"]), F.qn, norm.render(P, decl["numberOfBlocks"]["c"][0])[:100],
                "the header announces a block that does not exist (or an empty one): readers misplace every later array", key=rule,
                witness="RawBinaryCompressed output of a grid whose node arrays have a byte size that is a multiple of 32768")
        elif not okl:
            rep.unknown(rule, "zlibCompressData: the loop over the full blocks (iBlock < numberOfBlocks - 1) was not found")
        else:
            n_ok += 1
            rep.ok(rule, "zlibCompressData: ceil(n/b) blocks, last block 1..b bytes (%d residue cases)" % cases, F.loc, F.qn)
    rep.floor(rule, len(fs[:1]), 1, "instantiations of zlibCompressData")


# ------------------------------------------------------------------------------------------------
def sphere_layers(P, rep, rule="GRID.sphere-layers"):
    """gwb-grid sphere: every radial layer is the unit shell projected onto that layer's radius"""
    rep.rule(rule, "gwb-grid sphere grid: in the loop over the radial layers the arrays handed to project_on_sphere are copied from the unit shell "
                   "inside the same iteration (not projected in place from the previous layer, which collapses for an inner radius 0), and the "
                   "layer radius is inner + (outer - inner) * i / n_layers (inner at i = 0, outer at i = n_layers)")
    F = main_of(P, "gwb-grid")
    calls = [x for x in F.walk() if x.get("k") == "CallExpr" and P.d(x.get("callee")).get("qn", "").endswith("project_on_sphere")]
    calls = [c for c in calls if astq.enclosing(F, c, ("ForStmt",)) is not None]
    n = 0
    for call in calls:
        args = call["c"][1:]
        if len(args) != 4:
            continue
        bases = []
        for a in args[1:]:
            sb = astq.subscript(sc(a))
            if sb and sc(sb[0]).get("k") == "DeclRefExpr":
                bases.append(sc(sb[0])["r"])
        rad = sc(args[0])
        if len(bases) != 3 or rad.get("k") != "DeclRefExpr":
            continue
        # the layer loop: the outermost enclosing for loop whose body assigns the radius
        layer = None
        for a in F.ancestors(call):
            if a.get("k") == "ForStmt" and any((y.get("k") == "BinaryOperator" and y.get("op") == "=" and astq.is_ref_to(sc(y["c"][0]), rad["r"]))
                                               or (y.get("k") == "VarDecl" and y.get("r") == rad["r"]) for y in F.walk(a["c"][3])):
                layer = a
        if layer is None:
            continue
        n += 1
        body = layer["c"][3]
        stmts = body["c"] if body.get("k") == "CompoundStmt" else [body]
        holder = next((s for s in stmts if any(y is call for y in F.walk(s))), None)
        problems = []
        for b in bases:
            src = None
            for s in stmts:
                if s is holder:
                    break
                s0 = sc(s)
                if s0 is not None and s0.get("k") in ("BinaryOperator", "CXXOperatorCallExpr") and s0.get("op") == "=":
                    kids = [z for z in s0["c"] if z is not None]
                    if astq.is_ref_to(sc(kids[-2]), b) and sc(kids[-1]).get("k") == "DeclRefExpr":
                        src = sc(kids[-1])["r"]
            if src is None:
                # element-wise: X[j] = S[k] right before the projection of X[j], in the same block
                blk_c = astq.enclosing(F, call, ("CompoundStmt",))
                idx_txt = None
                for a_ in args[1:]:
                    sb_ = astq.subscript(sc(a_))
                    if sb_ and astq.is_ref_to(sc(sb_[0]), b):
                        idx_txt = norm.render(P, sb_[1], nocast=True)
                for s_ in (blk_c["c"] if blk_c is not None else []):
                    if any(y is call for y in F.walk(s_)):
                        break
                    s0 = sc(s_)
                    if s0 is not None and s0.get("k") in ("BinaryOperator", "CXXOperatorCallExpr") and s0.get("op") == "=":
                        kids = [z for z in s0["c"] if z is not None]
                        l_, r_ = astq.subscript(sc(kids[-2])), astq.subscript(sc(kids[-1]))
                        if l_ and r_ and astq.is_ref_to(sc(l_[0]), b) and norm.render(P, l_[1], nocast=True) == idx_txt and sc(r_[0]).get("k") == "DeclRefExpr":
                            src = sc(r_[0])["r"]
            if src is None:
                problems.append("%s is not copied from the unit shell inside the layer iteration" % P.d(b).get("n"))
                continue
            written = False
            for y in F.walk(layer):
                if y.get("k") in ("BinaryOperator", "CXXOperatorCallExpr", "CompoundAssignOperator") and y.get("op") in norm.ASSIGN_OPS:
                    kids = [z for z in y["c"] if z is not None]
                    t = sc(kids[-2])
                    while astq.subscript(t):
                        t = sc(astq.subscript(t)[0])
                    if t.get("k") == "DeclRefExpr" and t.get("r") == src:
                        written = True
                if y.get("k") == "CallExpr" and y is not call and any(z.get("k") == "DeclRefExpr" and z.get("r") == src for z in F.walk(y)) \
                        and P.d(y.get("callee")).get("qn", "").endswith("project_on_sphere"):
                    written = True
            if written:
                problems.append("the source %s of %s is modified inside the layer loop" % (P.d(src).get("n"), P.d(b).get("n")))
        # radius of layer i
        lv = layer["c"][0]["c"][0].get("r") if layer["c"][0] is not None and layer["c"][0].get("k") == "DeclStmt" else None
        rasg = [y["c"][1] for y in F.walk(body) if y.get("k") == "BinaryOperator" and y.get("op") == "=" and astq.is_ref_to(sc(y["c"][0]), rad["r"])]
        rasg += [y["c"][0] for y in F.walk(body) if y.get("k") == "VarDecl" and y.get("r") == rad["r"] and y.get("c")]
        ok_r = False
        detail = ""
        if len(rasg) == 1 and lv is not None:
            i_ = sp.Symbol("i_layer", nonnegative=True)
            try:
                symb = norm.Sym(P, F, inline_locals=False, inline_consts=True, env={lv: i_})
                E = sp.simplify(symb(rasg[0]))
                others = sorted(E.free_symbols - {i_}, key=str)
                # inner at i = 0; outer at the loop's last index (bound - 1 for `i < n + 1`)
                cond = sc(layer["c"][1])
                last = None
                if cond.get("k") == "BinaryOperator" and cond.get("op") in ("<", "<=") and astq.is_ref_to(sc(cond["c"][0]), lv):
                    ub = symb(cond["c"][1])
                    last = sp.simplify(ub - 1) if cond["op"] == "<" else ub
                e0 = sp.simplify(E.subs(i_, 0))
                e1 = sp.simplify(E.subs(i_, last)) if last is not None else None
                lin = sp.Poly(E, i_).degree() == 1
                ok_r = lin and e0.is_Symbol and e1 is not None and e1.is_Symbol and e0 != e1
                detail = "radius(i) = %s: %s at the first layer, %s at the last" % (E, e0, e1)
            except Exception as e:
                detail = "radius not evaluated (%s)" % e
        if not ok_r:
            problems.append(detail or "layer radius is not assigned exactly once")
        if problems:
            rep.violation(rule, "sphere layers: " + "; ".join(problems), F.nloc(call), F.qn, norm.render(P, call)[:120],
                          "the nodes of a layer are not the unit shell moved onto that layer's radius", key=rule + "|layers",
                          witness="sphere grid with z_min = 0 (inner radius 0): every layer after the first is NaN")
        else:
            rep.ok(rule, "each layer is a fresh copy of the unit shell projected onto its radius; " + detail, F.nloc(call), F.qn)
    rep.floor(rule, n, 1, "layer loops that project the shell")


# ------------------------------------------------------------------------------------------------
def chunk_bounds_validation(P, rep, rule="GRID.bounds"):
    """gwb-grid refuses chunk bounds it cannot mesh: the release-active checks, taken together, must imply what their messages promise"""
    rep.rule(rule, "gwb-grid, chunk grid: the WBAssertThrow checks on the bounds together imply max latitude <= 90 degrees, min latitude >= -90 "
                   "degrees and longitude span <= 360 degrees (decided as a linear program over the asserted inequalities), and no check is "
                   "implied by the ones before it (a check that can never fail refuses nothing)")
    from scipy.optimize import linprog
    F = main_of(P, "gwb-grid")
    # the chunk branch: the block that holds the assertion mentioning the longitude span
    asserts = []
    for g in F.walk():
        if g.get("k") == "IfStmt" and g.get("m") == "WBAssertThrow" and not g.get("ma"):
            c = sc(g["c"][0])
            if c.get("k") == "UnaryOperator" and c.get("op") == "!":
                asserts.append((g, sc(c["c"][0])))
    names = ["x_min", "x_max", "y_min", "y_max"]
    keys = {}
    for nm in names:
        try:
            keys[nm] = var_by_name(F, nm)
        except AnalysisBroken:
            raise AnalysisBroken("gwb-grid: variable %s not found" % nm)
    syms = {nm: sp.Symbol(nm, real=True) for nm in names}
    symb = norm.Sym(P, F, inline_locals=False, env={keys[nm]: syms[nm] for nm in names},
                    hook=lambda n: sp.pi if n.get("k") == "DeclRefExpr" and P.d(n.get("r")).get("qn") == "WorldBuilder::Consts::PI" else None)
    chunk = []
    for g, c in asserts:
        if c.get("k") != "BinaryOperator" or c.get("op") not in ("<", "<=", ">", ">="):
            continue
        try:
            l, r = sp.expand(symb(c["c"][0])), sp.expand(symb(c["c"][1]))
        except Exception:
            continue
        e = l - r if c["op"] in ("<", "<=") else r - l        # the assertion says e <= 0
        if not e.free_symbols or (e.free_symbols - set(syms.values())):
            continue
        try:
            po = sp.Poly(e, *[syms[nm] for nm in names])
        except Exception:
            continue
        if po.total_degree() != 1:
            continue
        row = [float(po.coeff_monomial(syms[nm])) for nm in names]
        const = float(po.coeff_monomial(1))
        chunk.append((g, c, row, -const))      # row . v <= rhs
    # keep the run of assertions that belongs to the chunk geometry: those inside the same compound statement as the span check
    span = [t for t in chunk if t[2][0] != 0 and t[2][1] != 0 and abs(t[3]) > 1.0]
    if not span:
        raise AnalysisBroken("gwb-grid: longitude span check of the chunk grid not found")
    def block_of(g):
        """the block the assertion statement stands in (outside the macro's own do { } while (false))"""
        top = g
        for a in F.ancestors(g):
            if a.get("m") == "WBAssertThrow":
                top = a
        par = F.parent.get(top["i"])
        while par is not None and par.get("k") != "CompoundStmt":
            par = F.parent.get(par["i"])
        return par
    blk = block_of(span[0][0])
    chunk = [t for t in chunk if block_of(t[0]) is blk]
    rep.floor(rule, len(chunk), 5, "linear bound checks of the chunk grid")

    def maximum(obj, facts):
        """max of obj . v subject to facts (None = unbounded)"""
        import numpy as np
        if not facts:
            return None
        res = linprog(c=[-o for o in obj], A_ub=np.array([f[2] for f in facts]), b_ub=np.array([f[3] for f in facts]), bounds=[(None, None)] * 4, method="highs")
        if res.status == 3:
            return None
        if res.status != 0:
            return None
        return -res.fun
    import math
    # vacuous checks
    for i, t in enumerate(chunk):
        mx = maximum(t[2], chunk[:i])
        if mx is not None and mx <= t[3] + 1e-12:
            rep.violation(rule, "the check `%s` can never fail: it follows from the checks before it" % norm.render(P, t[1])[:80], F.nloc(t[0]), F.qn,
                          norm.render(P, t[1])[:120], "the bound its message promises is not enforced", key="%s|vacuous|%s" % (rule, norm.render(P, t[1])[:40]),
                          witness="a chunk that spans more than 360 degrees of longitude")
        else:
            rep.ok(rule, "`%s` restricts the bounds" % norm.render(P, t[1])[:70], F.nloc(t[0]), F.qn)
    # what the checks promise together
    targets = [("max latitude <= 90 degrees", [0, 0, 0, 1], math.pi / 2, "a chunk whose y_max is 120 degrees"),
               ("min latitude >= -90 degrees", [0, 0, -1, 0], math.pi / 2, "a chunk whose y_min is -120 degrees"),
               ("longitude span <= 360 degrees", [-1, 1, 0, 0], 2 * math.pi, "a chunk from -300 to 300 degrees longitude")]
    for label, obj, lim, wit in targets:
        mx = maximum(obj, chunk)
        if mx is None or mx > lim + 1e-9:
            rep.violation(rule, "the bound checks of the chunk grid do not imply %s (%s)" % (label, "unbounded" if mx is None else "up to %.4g rad" % mx),
                          F.nloc(chunk[0][0]), F.qn, "; ".join(norm.render(P, t[1])[:40] for t in chunk)[:200],
                          "an impossible chunk is meshed (the mesh folds over the pole / overlaps itself) instead of being refused",
                          key="%s|%s" % (rule, label.split(" <")[0].split(" >")[0]), witness=wit)
        else:
            rep.ok(rule, "the checks imply %s" % label, F.nloc(chunk[0][0]), F.qn)


def shell_radius_checks(P, rep, rule="GRID.radii"):
    """the three grids built on a spherical shell agree on the check of its radii"""
    rep.rule(rule, "gwb-grid: every grid type that names an inner and an outer radius (chunk, annulus, sphere: locals initialised from z_min and "
                   "z_max) refuses inner >= outer by a release-active check before it divides the shell into layers - the sibling branches "
                   "agree on their argument checks")
    F = main_of(P, "gwb-grid")
    try:
        zmin, zmax = var_by_name(F, "z_min"), var_by_name(F, "z_max")
    except AnalysisBroken:
        raise AnalysisBroken("gwb-grid: z_min / z_max not found")
    pairs = {}
    for v in F.walk():
        if v.get("k") == "VarDecl" and v.get("c"):
            i0 = sc(v["c"][0])
            if i0.get("k") == "DeclRefExpr" and i0.get("r") in (zmin, zmax):
                blk = astq.enclosing(F, v, ("CompoundStmt",))
                pairs.setdefault(blk["i"], {"blk": blk})["inner" if i0["r"] == zmin else "outer"] = v
    n = 0
    for bid, d in sorted(pairs.items()):
        if "inner" not in d or "outer" not in d:
            continue
        n += 1
        blk = d["blk"]
        ik, ok_ = d["inner"]["r"], d["outer"]["r"]
        found = None
        for g in F.walk(blk):
            if g.get("k") == "IfStmt" and g.get("m") == "WBAssertThrow" and not g.get("ma"):
                c = sc(g["c"][0])
                if c.get("k") == "UnaryOperator" and c.get("op") == "!":
                    c = sc(c["c"][0])
                    if c.get("k") == "BinaryOperator" and ((c.get("op") == "<" and astq.is_ref_to(sc(c["c"][0]), ik) and astq.is_ref_to(sc(c["c"][1]), ok_))
                                                           or (c.get("op") == ">" and astq.is_ref_to(sc(c["c"][0]), ok_) and astq.is_ref_to(sc(c["c"][1]), ik))):
                        found = g
        # which grid this is: the nearest enclosing `grid_type == "..."` test
        label = "?"
        for a in F.ancestors(blk):
            if a.get("k") == "IfStmt" and "grid_type" in norm.render(P, a["c"][0]) and any(y is blk for y in F.walk(a["c"][1])):
                lits = [y.get("v") for y in F.walk(a["c"][0]) if y.get("k") == "StringLiteral"]
                label = lits[0] if lits else "?"
                break
        if found is not None:
            rep.ok(rule, "%s grid: inner radius < outer radius is checked" % label, F.nloc(found), F.qn)
        else:
            rep.violation(rule, "%s grid: no release-active check that the inner radius is below the outer radius" % label, F.nloc(d["inner"]), F.qn,
                          norm.render(P, d["inner"])[:80], "a shell of zero or negative thickness is meshed (an empty mesh, exit 0) or ends in an allocation error "
                          "instead of being refused as the chunk grid does", key="%s|%s" % (rule, label), witness="%s grid with z_min = z_max" % label)
    rep.floor(rule, n, 3, "grid types with an inner and an outer radius")
