"""DIV.guard -- a floating point division whose denominator depends on the query is guarded against a zero denominator.

A value-sign analysis over the model functions: for every division `n / D` of floating type
  * the leaves of D are classified: query dependent (reached from a parameter of the function by the def-use closure) or
    world constant (members, world parameters, literals),
  * the conditions the division is control dependent on (CFG control dependence, with polarity; `&&`, `||`, `!`, `?:`, early
    exits) are collected as relational facts `E rel 0`,
  * D is decomposed (products, quotients, powers, square roots); every query-dependent factor must be non-zero by a fact
    (D = +-E + k with a suitable sign of k), by sympy's assumption calculus (loop counters that start at 1 / 0, positive
    constants) or by construction (a sum of a non-negative term and a positive constant).
World-constant denominators (the user's physical parameters) are outside this rule: they do not vary with the point.
"""
import sympy as sp

from .. import norm, astq
from ..astq import sc
from ..run import AnalysisBroken
from . import guard

POS_CONST = ("PI", "epsilon", "numeric_limits", "seconds_in_year", "cm2m")


def tainted_decls(P, F):
    """decl keys whose value can depend on the arguments of F: parameters and every local (transitively) computed from one"""
    t = set(F.params)
    changed = True
    defs = []
    for n in F.walk(F.body):
        k = n.get("k")
        if k == "VarDecl" and n.get("c"):
            defs.append((n["r"], n["c"][0]))
        elif k in ("BinaryOperator", "CompoundAssignOperator", "CXXOperatorCallExpr") and n.get("op") in norm.ASSIGN_OPS and len(n.get("c") or []) >= 2:
            tgt = n["c"][0]
            root = None
            for y in F.walk(tgt):
                if y.get("k") == "DeclRefExpr" and P.d(y["r"]).get("storage") == "local":
                    root = y["r"]
                    break
            if root is not None:
                defs.append((root, n["c"][1]))
        elif k == "CXXForRangeStmt" and n.get("c"):
            # the loop variable takes the elements of the range
            kids = [x for x in n["c"] if x is not None]
            lv = [x for x in kids if x.get("k") == "VarDecl"]
            if lv and len(kids) >= 2:
                defs.append((lv[-1].get("r"), kids[0]))
    while changed:
        changed = False
        for key, e in defs:
            if key in t:
                continue
            for y in F.walk(e):
                if y.get("k") == "DeclRefExpr" and y.get("r") in t:
                    t.add(key)
                    changed = True
                    break
    return t


def depth_params(P, F):
    """parameters that carry the query depth: named `depth` in the declaration of the model interface"""
    out = set()
    for pk in F.params:
        if P.d(pk).get("n") == "depth" and "double" in (P.d(pk).get("t") or ""):
            out.add(pk)
    return out


RIDGE_FN = "WorldBuilder::Utilities::calculate_ridge_distance_and_spreading"     # element [1] is the distance to the ridge
PLANE_FIELDS = ("distance_from_plane", "distance_along_plane")                     # of PointDistanceFromCurvedPlanes


def source_node(P, F, n, ridge_locals):
    """does this expression node read a quantity that attains zero at one of the degenerate locations the property lists
    (depth zero, on the ridge, on the slab surface / the trench line, a laterally varying bound that reaches zero)?"""
    k = n.get("k")
    if k == "MemberExpr":
        if n.get("n") == "interpolated_value":
            return "a laterally varying bound (value at points) that reaches zero"
        if n.get("n") in PLANE_FIELDS:
            base = (n.get("c") or [None])[0]
            if base is not None and "PointDistanceFromCurvedPlanes" in (base.get("t") or ""):
                return "a point on the slab surface / below the trench line (%s = 0)" % n.get("n")
    if k == "CXXMemberCallExpr" and n.get("c") and n["c"][0].get("k") == "MemberExpr" and n["c"][0].get("n") in ("norm", "norm_square"):
        base = norm.strip_casts((n["c"][0].get("c") or [None])[0])
        if base is not None and base.get("k") == "DeclRefExpr" and base.get("r") in F.params and "Point<3>" in (P.d(base["r"]).get("t") or ""):
            return "a query at the planet's centre (the position has length zero)"
    s = astq.subscript(n)
    if s:
        b = norm.strip_casts(s[0])
        i = norm.strip_casts(s[1])
        if b is not None and b.get("k") == "DeclRefExpr" and b.get("r") in ridge_locals and i is not None and i.get("k") == "IntegerLiteral" and int(i["v"]) == 1:
            return "a point on the spreading ridge (distance to the ridge = 0)"
    return None


def ridge_locals(P, F):
    out = set()
    for n in F.walk(F.body):
        if n.get("k") == "VarDecl" and n.get("c"):
            for y in F.walk(n["c"][0]):
                if y.get("k") == "CallExpr" and y.get("callee") and P.d(y["callee"]).get("qn") == RIDGE_FN:
                    out.add(n["r"])
    return out


class Facts:
    """relational facts `E rel 0` that hold at a program point"""

    def __init__(self):
        self.rel = []      # (E, rel) with rel in > >= < <= != ==

    def add(self, e, rel):
        self.rel.append((e, rel))

    def add_cond(self, c, truth):
        """c: sympy boolean / relational built by norm.Sym"""
        if isinstance(c, sp.Not):
            return self.add_cond(c.args[0], not truth)
        f = getattr(c, "func", None)
        name = getattr(f, "__name__", "")
        if name in ("op&&", "And"):
            if truth:
                for a in c.args:
                    self.add_cond(a, True)
            return
        if name in ("op||", "Or"):
            if not truth:
                for a in c.args:
                    self.add_cond(a, False)
            return
        if name == "lnot":
            return self.add_cond(c.args[0], not truth)
        if name in ("op!=", "op=="):
            eq = (name == "op==") == truth
            self.add(c.args[0] - c.args[1], "==" if eq else "!=")
            return
        if isinstance(c, (sp.Gt, sp.Ge, sp.Lt, sp.Le)):
            a, b = c.args
            r = {sp.StrictGreaterThan: ">", sp.GreaterThan: ">=", sp.StrictLessThan: "<", sp.LessThan: "<="}[type(c)]
            if not truth:
                r = {">": "<=", ">=": "<", "<": ">=", "<=": ">"}[r]
            self.add(a - b, r)
            return
        # a number used as a condition: `if (x)` is x != 0
        if truth and not isinstance(c, sp.logic.boolalg.Boolean):
            try:
                self.add(c, "!=")
            except Exception:
                pass


def sign_of(k):
    """'+', '-', '0', '+0' (>= 0), '-0' (<= 0) or None for a sympy term free of unknown signs"""
    try:
        if k.is_zero:
            return "0"
        if k.is_positive:
            return "+"
        if k.is_negative:
            return "-"
        if k.is_nonnegative:
            return "+0"
        if k.is_nonpositive:
            return "-0"
    except Exception:
        pass
    return None


def fact_implies_nonzero(D, facts):
    """some fact E rel 0 with D = s*E + k (k of known sign) excludes D == 0"""
    for (E, rel) in facts.rel:
        variants = [(E, rel)]
        # |X| - c > 0 with c >= 0 says X != 0
        try:
            for a in sp.Add.make_args(sp.expand(E)):
                if isinstance(a, sp.Abs):
                    rest = sp.expand(E - a)
                    s = sign_of(rest)
                    if rel in (">",) and s in ("0", "-", "-0"):
                        variants.append((a.args[0], "!="))
                    if rel in (">=",) and s in ("-",):
                        variants.append((a.args[0], "!="))
        except Exception:
            pass
        for (E2, rel2) in variants:
            for s in (1, -1):
                try:
                    k = sp.expand(D - s * E2)
                except Exception:
                    continue
                if k.free_symbols - {x for x in k.free_symbols if x.is_positive}:
                    # k must be a constant (positive named constants allowed)
                    if any(not (x.is_positive or x.is_number) for x in k.free_symbols):
                        continue
                sk = sign_of(k)
                if sk is None:
                    continue
                r = rel2 if s == 1 else {">": "<", ">=": "<=", "<": ">", "<=": ">=", "!=": "!=", "==": "=="}[rel2]
                # now D = E' + k with E' r 0
                if r == ">" and sk in ("0", "+", "+0"):
                    return True
                if r == ">=" and sk == "+":
                    return True
                if r == "<" and sk in ("0", "-", "-0"):
                    return True
                if r == "<=" and sk == "-":
                    return True
                if r == "!=" and sk == "0":
                    return True
    return False


class Judge:
    def __init__(self, P, F, tainted, inline):
        self.P, self.F, self.tainted, self.inline = P, F, tainted, inline
        self.sym_taint = {}
        self.Z = {}                # sympy atom -> why it can be zero
        self.depth = depth_params(P, F)
        self.ridge = ridge_locals(P, F)
        self.src_locals = {}       # decl key -> why
        self.derived = set()       # those that are arithmetic combinations (not selections) of zero-attaining quantities
        self.loopvars = self._loopvars()
        self.S = norm.Sym(P, F, inline_locals=False, see_through=True, inline_consts=inline, hook=self.hook)
        self.repl = {}

    def _loopvars(self):
        """loop counters that start at a literal >= 0 and are only incremented: key -> start value"""
        P, F = self.P, self.F
        out = {}
        for n in F.walk(F.body):
            if n.get("k") != "ForStmt" or not n.get("c") or n["c"][0] is None:
                continue
            for v in F.walk(n["c"][0]):
                if v.get("k") == "VarDecl" and v.get("c"):
                    i0 = norm.strip_casts(v["c"][0])
                    if i0 is not None and i0.get("k") == "IntegerLiteral" and int(i0["v"]) >= 0:
                        key = v["r"]
                        ok = True
                        for y in F.walk(n):
                            if y.get("k") in ("BinaryOperator", "CompoundAssignOperator") and y.get("op") in norm.ASSIGN_OPS:
                                t = norm.strip_casts(y["c"][0])
                                if t.get("k") == "DeclRefExpr" and t.get("r") == key and y.get("op") not in ("+=",):
                                    ok = False
                            if y.get("k") == "UnaryOperator" and y.get("op") == "--":
                                t = norm.strip_casts(y["c"][0])
                                if t.get("k") == "DeclRefExpr" and t.get("r") == key:
                                    ok = False
                        if ok:
                            out[key] = int(i0["v"])
        return out

    def node_tainted(self, n):
        for y in self.F.walk(n):
            if y.get("k") == "DeclRefExpr" and y.get("r") in self.tainted:
                return True
        return False

    def hook(self, n):
        k = n.get("k")
        why = source_node(self.P, self.F, n, self.ridge)
        if why:
            s = sp.Symbol(norm.render(self.P, n, nocast=True))
            self.sym_taint[s] = True
            self.Z[s] = why
            return s
        if k == "DeclRefExpr":
            key = n["r"]
            if key in self.src_locals and key in self.derived and self.inline and self.S.subst is not None and key in self.S.subst.vals:
                return None       # a named arithmetic combination: look through the name
            if key in self.depth or key in self.src_locals:
                s = sp.Symbol("%s@%s" % (n["n"], str(key)[-8:]))
                self.sym_taint[s] = True
                self.Z[s] = "depth zero" if key in self.depth else self.src_locals[key]
                return s
            if key in self.loopvars:
                s = sp.Symbol("%s@loop%s" % (n["n"], str(key)[-6:]), positive=True) if self.loopvars[key] >= 1 else \
                    sp.Symbol("%s@loop%s" % (n["n"], str(key)[-6:]), nonnegative=True)
                self.sym_taint[s] = False
                return s
            d = self.P.d(key)
            qn = d.get("qn", "") or ""
            if d.get("storage") in ("global", "static_member") and any(x in qn for x in POS_CONST):
                s = sp.Symbol(qn, positive=True)
                self.sym_taint[s] = False
                return s
            if "unsigned" in (d.get("t") or "") or "size_t" in (d.get("t") or ""):
                if self.inline and self.S.subst is not None and key in self.S.subst.vals:
                    return None
                s = sp.Symbol("%s@%s" % (n["n"], str(key)[-8:]), nonnegative=True)
                self.sym_taint[s] = key in self.tainted
                return s
            return None
        if k == "MemberExpr":
            c = n.get("c") or []
            base = c[0] if c else None
            if base is not None and base.get("k") != "CXXThisExpr":
                s = sp.Symbol(norm.render(self.P, n))
                self.sym_taint[s] = self.node_tainted(n)
                return s
            return None
        if k in ("CallExpr", "CXXMemberCallExpr"):
            d = self.P.d(n.get("callee")) if n.get("callee") else {}
            qn = d.get("qn", "") or ""
            if "numeric_limits" in qn and d.get("n") in ("epsilon", "min", "max"):
                s = sp.Symbol(qn, positive=True)
                self.sym_taint[s] = False
                return s
            if d.get("n") == "size" and k == "CXXMemberCallExpr":
                s = sp.Symbol(norm.render(self.P, n), nonnegative=True)
                self.sym_taint[s] = self.node_tainted(n)
                return s
        return None

    def term(self, n):
        return self.S(n)

    def is_tainted_term(self, t):
        for s in t.free_symbols:
            if s in self.sym_taint:
                if self.sym_taint[s]:
                    return True
            elif s in self.S.keys:
                if self.S.keys[s] in self.tainted:
                    return True
            else:
                nm = str(s)
                if nm.startswith("this."):
                    continue
                # unknown provenance: treat as query dependent
                if "::" in nm:
                    continue
                return True
        return False

    def nonzero(self, D, facts, depth=0):
        """True / 'const' (world constant, out of scope) / False (query dependent, not shown non-zero)"""
        if depth > 20:
            return False
        try:
            if D.is_number:
                return bool(D != 0)
        except Exception:
            pass
        if not self.is_tainted_term(D):
            return "const"
        sg = sign_of(D)
        if sg in ("+", "-"):
            return True
        try:
            if D.is_nonzero:
                return True
        except Exception:
            pass
        if fact_implies_nonzero(D, facts):
            return True
        if isinstance(D, sp.Mul):
            res = [self.nonzero(a, facts, depth + 1) for a in D.args]
            if all(res):
                return True if any(r is True for r in res) else "const"
            return False
        if isinstance(D, sp.Pow):
            return self.nonzero(D.args[0], facts, depth + 1)
        if isinstance(D, sp.Abs):
            return self.nonzero(D.args[0], facts, depth + 1)
        if isinstance(D, sp.Add):
            # a sum of terms all >= 0 with one > 0
            sgs = []
            for a in D.args:
                s = sign_of(a)
                if s is None and self.nonneg_by_fact(a, facts):
                    s = "+0"
                sgs.append(s)
            if all(s in ("+", "+0", "0") for s in sgs) and any(s == "+" for s in sgs):
                return True
            if all(s in ("-", "-0", "0") for s in sgs) and any(s == "-" for s in sgs):
                return True
        return False

    def vanishes(self, D):
        """why D can be zero at a degenerate location: some zero-attaining quantity z with D[z:=0] == 0, or two of them whose
        coincidence makes D vanish; None if no such reason is found"""
        zs = [z for z in self.Z if D.has(z)]
        for z in zs:
            try:
                v = D.subs(z, 0)
                if v == 0 or v.is_zero or sp.expand(v) == 0:
                    return "%s: %s" % (z, self.Z[z])
            except Exception:
                pass
        for i, a in enumerate(zs):
            for b in zs[i + 1:]:
                try:
                    v = D.subs(b, a)
                    if v == 0 or v.is_zero or sp.expand(v) == 0:
                        return "%s = %s (%s; %s)" % (a, b, self.Z[a], self.Z[b])
                except Exception:
                    pass
        return None

    def find_source_locals(self):
        """locals (never reassigned) whose initialiser vanishes when a zero-attaining quantity does, or selects one"""
        P, F = self.P, self.F
        self.S._scan()
        changed = True
        rounds = 0
        while changed and rounds < 6:
            changed = False
            rounds += 1
            for key, init in list(self.S._inits.items()):
                if key in self.src_locals or self.S._assigned.get(key) or P.d(key).get("storage") != "local":
                    continue
                if not ("double" in (P.d(key).get("t") or "")):
                    continue
                try:
                    t = self.S(init)
                except Exception:
                    continue
                why = None
                # ite(c, a, b) / Min / Max: any selectable arm
                arms = [t]
                if getattr(t.func, "__name__", "") == "ite":
                    arms = list(t.args[1:])
                elif isinstance(t, (sp.Min, sp.Max)):
                    arms = list(t.args)
                for a in arms:
                    w = self.vanishes(a) if self.is_tainted_term(a) else None
                    if w:
                        why = w
                        break
                if why:
                    self.src_locals[key] = why
                    if arms == [t]:
                        self.derived.add(key)
                    changed = True

    def nonneg_by_fact(self, a, facts):
        for (E, rel) in facts.rel:
            try:
                if rel in (">", ">=") and sp.expand(a - E) == 0:
                    return True
                if rel in ("<", "<=") and sp.expand(a + E) == 0:
                    return True
            except Exception:
                pass
        return False


def conditions_at(P, F, node, ctrl, binfo):
    """[(condition node, truth)] the node is control dependent on"""
    b = F.block_of(node)
    out = []
    if b is None:
        return None
    for (bb, idx) in ctrl.get(b, ()):
        kind, c = binfo.get(bb, ("other", None))
        if kind in ("cond", "assert") and c is not None:
            out.append((c, idx == 0))
        elif kind == "loop" and c is not None and idx == 0:
            out.append((c, True))
    return out


def divisions(P, F):
    for n in F.walk(F.body):
        if n.get("k") in ("BinaryOperator", "CompoundAssignOperator") and n.get("op") in ("/", "/=") and len(n.get("c") or []) == 2:
            t = (n.get("t") or "") + " " + (n["c"][1].get("t") or "")
            if "double" in t or "float" in t:
                yield n
        elif n.get("k") == "CXXOperatorCallExpr" and n.get("op") in ("/", "/="):
            kids = [x for x in (n.get("c") or []) if x is not None]
            if len(kids) >= 2 and "Point<" in (kids[-2].get("t") or "") and "double" in (kids[-1].get("t") or ""):
                yield n


def denominator(n):
    kids = [x for x in (n.get("c") or []) if x is not None]
    return kids[-1]


def analyse_function(P, F):
    """[(division node, verdict, detail)] with verdict in ok / const / open"""
    tainted = tainted_decls(P, F)
    ctrl = guard.controlling(F)
    binfo = guard.branch_info(P, F)
    out = []
    judges = {}
    for n in divisions(P, F):
        conds = conditions_at(P, F, n, ctrl, binfo)
        verdict = None
        detail = ""
        for inline in (False, True):
            J = judges.get(inline)
            if J is None:
                J = judges[inline] = Judge(P, F, tainted, inline)
                J.find_source_locals()
            try:
                D = J.term(denominator(n))
                facts = Facts()
                for (c, truth) in (conds or []):
                    try:
                        facts.add_cond(J.term(c), truth)
                    except Exception:
                        pass
                r = J.nonzero(D, facts)
            except Exception as e:       # a term sympy cannot handle
                r = False
                detail = "not analysed: %s" % e
            if r is True:
                verdict = "ok"
                break
            if r == "const":
                verdict = "const"
                break
            verdict = "open"
            try:
                why = J.vanishes(D)
            except Exception:
                why = None
            if why:
                verdict = "zero"
                detail = "the denominator `%s` is zero for %s and no condition the division depends on excludes it (conditions: %s)" % (
                    norm.render(P, denominator(n), nocast=True)[:80], why, "; ".join("%s %s 0" % (e, rl) for (e, rl) in facts.rel[:5]) or "none")
            if not detail:
                detail = "denominator %s; facts %s" % (D, ["%s %s 0" % (e, rl) for (e, rl) in facts.rel][:6])
        out.append((n, verdict, detail if verdict in ("open", "zero") else ""))
    return out


def division_guards(P, rep, rule="DIV.guard", reach=None):
    rep.rule(rule, "in the model functions (features/*) and in the gravity and coordinate-system models reachable from a query no floating-point division has a denominator that vanishes at a degenerate "
                   "location the property lists -- depth zero, the planet's centre, a point on the spreading ridge, on the slab surface or below the "
                   "trench line, a laterally varying bound that reaches zero, or two such quantities coinciding -- unless a condition "
                   "the division is control dependent on excludes the zero (sign analysis over the CFG's control dependences; "
                   "world-constant denominators are out of scope, other query-dependent denominators are counted as not judged)")
    n_fun = n_div = 0
    tally = {"ok": 0, "const": 0, "open": 0, "zero": 0}
    for F in sorted(P.funcs.values(), key=lambda f: (f.file, f.qn)):
        if F.body is None:
            continue
        in_models = "/source/world_builder/features/" in F.file
        on_path = reach is not None and F.key in reach and any(d in F.file for d in ("/source/world_builder/gravity_model/", "/source/world_builder/coordinate_systems/"))
        if not (in_models or on_path):
            continue
        if not any(True for _ in divisions(P, F)):
            continue
        n_fun += 1
        try:
            res = analyse_function(P, F)
        except AnalysisBroken:
            raise
        except Exception as e:
            rep.unknown(rule, "%s: not analysed (%s)" % (F.qn, e))
            continue
        for (n, verdict, detail) in res:
            n_div += 1
            tally[verdict] += 1
            if verdict == "zero":
                den = norm.render(P, denominator(n), nocast=True)
                rep.violation(rule, "%s: division by `%s`" % (F.qn.replace("WorldBuilder::Features::", ""), den[:60]), F.nloc(n), F.qn,
                              norm.render(P, n)[:140], detail, key="%s|%s|%s" % (rule, F.qn, den[:80]),
                              witness="a query at that degenerate location returns NaN or infinity")
        rep.ok(rule, "%s: %d divisions" % (F.qn.replace("WorldBuilder::Features::", ""), len(res)), F.loc, F.qn)
    rep.analysed.setdefault("division_census", {}).update(tally)
    _ = ("divisions: %d guarded or non-zero by construction, %d world-constant denominators (out of scope), %d query-dependent but not judged, %d vanishing unguarded" % (
        tally["ok"], tally["const"], tally["open"], tally["zero"]))
    rep.floor(rule, n_div, 100, "floating-point divisions in model functions")
    rep.floor(rule + ".guarded", tally["ok"], 20, "divisions shown non-zero")
