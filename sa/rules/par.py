"""PAR — parallel loop discipline in gwb-grid (DESIGN §3.11)."""
import sympy as sp

from .. import effects as EF
from .. import norm
from ..astq import sc
from ..tu import AnalysisBroken


def parallel_sites(P):
    """[(caller Func, call node, lambda node, lambda call-operator Func, parallel_for instantiation Func)]"""
    out = []
    for F in P.funcs.values():
        for n in F.walk():
            if n.get("k") == "CXXMemberCallExpr" and P.d(n.get("callee")).get("qn", "").endswith("ThreadPool::parallel_for"):
                args = n["c"][1:]
                lam = None
                for a in args:
                    a = norm.strip_casts(a)
                    if a is not None and a.get("k") == "LambdaExpr":
                        lam = a
                if lam is None:
                    raise AnalysisBroken("parallel_for at %s called with a non-lambda callable" % F.nloc(n))
                op = P.funcs.get(lam.get("lam"))
                if op is None:
                    raise AnalysisBroken("lambda body at %s not found" % F.nloc(n))
                out.append((F, n, lam, op, P.funcs.get(n["callee"])))
    return out


def index_chain(n):
    """X[p1]...[pn] -> (base node, [index nodes])"""
    idx = []
    while True:
        n = norm.strip_casts(n)
        if n.get("k") == "CXXOperatorCallExpr" and n.get("op") == "[]":
            idx.append(n["c"][1])
            n = n["c"][0]
        elif n.get("k") == "ArraySubscriptExpr":
            idx.append(n["c"][1])
            n = n["c"][0]
        elif n.get("k") == "CXXMemberCallExpr" and n["c"][0].get("n") == "at":
            idx.append(n["c"][1])
            n = n["c"][0]["c"][0]
        elif n.get("k") == "CXXMemberCallExpr" and n["c"][0].get("n") in ("back", "front") and len(n["c"]) == 1:
            idx.append(n)       # the last / first element: an element access without a written index
            n = n["c"][0]["c"][0]
        else:
            break
    return n, idx[::-1]


def check_lambda(P, rep, F, call, lam, op, rule="PAR.stores"):
    rep.rule(rule, "in a callable passed to parallel_for every write to a captured object is an element store "
                   "A[path][a*i+b] with the same stride a for all stores into one array and 0<=b<a; arrays written "
                   "are not read; everything else captured is only read")
    E = EF.Effects(P)
    sym = norm.Sym(P, op, inline_locals=True)
    if len(op.params) != 1:
        rep.unknown(rule, "parallel callable with %d parameters at %s" % (len(op.params), F.nloc(call)))
        return
    ivar_key = op.params[0]
    ivar = sym.symbol(P.d(ivar_key).get("n"), ivar_key)
    stores = []   # (base key, path syms, (a, b), node)
    written = set()
    nodes = list(op.walk())
    for n in nodes:
        k = n.get("k")
        target = None
        how = None
        if k in ("BinaryOperator", "CompoundAssignOperator") and n.get("op") in norm.ASSIGN_OPS:
            target, how = n["c"][0], "assignment"
        elif k == "UnaryOperator" and n.get("op") in ("++", "--"):
            target, how = n["c"][0], "increment"
        elif k == "CXXOperatorCallExpr" and n.get("op") in norm.ASSIGN_OPS and n.get("memop"):
            target, how = n["c"][0], "class assignment"
        if target is None:
            continue
        roots = E.resolve(op, target)
        cap = [r for r in roots if r[0] == "captured"]
        other = [r for r in roots if r[0] not in ("captured", "local", "fresh")]
        if other:
            rep.violation(rule, "store to non-local non-captured object", op.nloc(n), op.qn, norm.render(P, target),
                          "parallel callable writes %s" % (other,), key="%s|%s|other" % (rule, norm.render(P, target)))
            continue
        if not cap:
            continue
        base, idx = index_chain(target)
        base = norm.strip_casts(base)
        if base.get("k") != "DeclRefExpr" or not idx:
            rep.violation(rule, "write to captured %s is not an element store" % norm.render(P, target), op.nloc(n), op.qn,
                          norm.render(P, n), "a captured object is written as a whole from every thread",
                          key="%s|whole|%s" % (rule, norm.render(P, base)),
                          witness="two threads execute this statement concurrently")
            continue
        path = [sp.expand(sym(x)) for x in idx[:-1]]
        last = sp.expand(sym(idx[-1]))
        if any(p.has(ivar) for p in path):
            rep.unknown(rule, "path index depends on the loop parameter at %s" % op.nloc(n))
            continue
        ab = norm.affine_in(last, ivar)
        if ab is None or not ab[0].is_Integer or not ab[1].is_Integer:
            rep.violation(rule, "store index %s is not affine in the loop parameter" % norm.render(P, idx[-1]), op.nloc(n),
                          op.qn, norm.render(P, target), "cannot be injective with constant stride",
                          key="%s|nonaffine|%s" % (rule, norm.render(P, target)))
            continue
        stores.append((base["r"], path, (int(ab[0]), int(ab[1])), n, target))
        written.add(base["r"])
    # group by base array
    by_base = {}
    for s in stores:
        by_base.setdefault(s[0], []).append(s)
    for bkey, ss in by_base.items():
        name = P.d(bkey).get("n")
        # split by constant path; a non-constant path joins every constant path it may equal
        groups = {}
        nonconst = []
        for s in ss:
            if all(p.is_Integer for p in s[1]):
                groups.setdefault(tuple(int(p) for p in s[1]), []).append(s)
            else:
                nonconst.append(s)
        for s in nonconst:
            lo = path_lower_bound(P, sym, s[1])
            joined = False
            for cp, g in list(groups.items()):
                if lo is not None and len(cp) == len(lo) and any(c < l for c, l in zip(cp, lo)):
                    continue   # provably a different array
                g.append(s)
                joined = True
            groups.setdefault(("nonconst", str(s[1])), []).append(s)
            _ = joined
        for cp, g in groups.items():
            strides = {s[2][0] for s in g}
            desc = "%s%s" % (name, "".join("[%s]" % c for c in cp) if cp and cp[0] != "nonconst" else cp[1] if cp else "")
            if len(strides) != 1:
                s = g[-1]
                rep.violation(rule, "stores into %s use different strides %s" % (desc, sorted(strides)), op.nloc(s[3]), op.qn,
                              "; ".join(norm.render(P, x[4]) for x in g), "images of different iterations may overlap",
                              key="%s|stride|%s" % (rule, desc), witness="iterations i and j with a1*i+b1 == a2*j+b2")
                continue
            a = strides.pop()
            bad = [s for s in g if a <= 0 or not (0 <= s[2][1] < a)]
            if bad:
                s = bad[0]
                rep.violation(rule, "store %s: offset %d outside [0,%d)" % (norm.render(P, s[4]), s[2][1], a), op.nloc(s[3]),
                              op.qn, norm.render(P, s[4]), "iteration i writes an element that belongs to iteration i+-1",
                              key="%s|offset|%s|%d" % (rule, desc, s[2][1]),
                              witness="two neighbouring nodes handled by different threads")
                continue
            rep.ok(rule, "%s in %s: %d stores, stride %d, offsets %s" % (desc, op.nloc(op.body), len(g), a, sorted({s[2][1] for s in g})),
                   op.nloc(g[0][3]), op.qn)
    # other effects on captured objects (non-const member calls, by-ref arguments, ...)
    eff, _ = E.local_effects(op)
    for root, site in eff.items():
        if root[0] == "captured" and root[1] not in written:
            rep.violation(rule, "captured %s is modified other than by an element store" % P.d(root[1]).get("n"),
                          op.nloc(site[1]), op.qn, site[2], "shared object modified from every thread",
                          key="%s|modify|%s" % (rule, P.d(root[1]).get("n")))
        elif root[0] in ("ptrfield", "global", "unknown", "this", "param"):
            if root[0] == "unknown":
                rep.unknown(rule, "%s at %s" % (root[1], op.nloc(site[1])))
            else:
                rep.violation(rule, "parallel callable writes %s" % (root,), op.nloc(site[1]), op.qn, site[2], "shared write",
                              key="%s|write|%s" % (rule, root[0]))
    # every non-store effect through a captured object that was also stored (e.g. data_set.resize()) is a whole-object write
    for n in nodes:
        if n.get("k") in ("CXXMemberCallExpr",):
            d = P.d(n.get("callee"))
            if d.get("const") or d.get("n") in EF.ACCESSORS:
                continue
            me = n["c"][0]
            base = me.get("c", [None])[0] if me.get("k") == "MemberExpr" else None
            if base is None:
                continue
            roots = E.resolve_pointee(op, base) if me.get("arrow") else E.resolve(op, base)
            for r in roots:
                if r[0] == "captured":
                    rep.violation(rule, "non-const member %s called on captured %s" % (d.get("n"), P.d(r[1]).get("n")),
                                  op.nloc(n), op.qn, norm.render(P, n), "shared object modified from every thread",
                                  key="%s|call|%s|%s" % (rule, d.get("n"), P.d(r[1]).get("n")))
    # written arrays are not read
    for n in nodes:
        if n.get("k") == "DeclRefExpr" and n["r"] in written:
            # is this occurrence the base of a store target?
            is_store = False
            for s in stores:
                for x in op.walk(s[4]):
                    if x is n:
                        is_store = True
            if not is_store:
                rep.violation(rule, "array %s is written by the callable and also read" % n.get("n"), op.nloc(n), op.qn,
                              norm.render(P, n), "a thread may read an element another thread writes",
                              key="%s|readwrite|%s" % (rule, n.get("n")))
    rep.ok(rule + ".callable", "callable at %s: %d element stores into %d arrays" % (F.nloc(call), len(stores), len(by_base)),
           F.nloc(call), op.qn)
    return stores


def path_lower_bound(P, sym, path):
    """lower bound of path index terms that are `const + nonneg-var` (unsigned loop variables)"""
    out = []
    for p in path:
        if p.is_Integer:
            out.append(int(p))
            continue
        const = sp.Integer(0)
        ok = True
        for term in sp.Add.make_args(p):
            if term.is_Integer:
                const += term
                continue
            coeff, rest = term.as_coeff_Mul()
            if not (coeff.is_Integer and coeff >= 0 and rest.is_Symbol):
                ok = False
                break
            key = sym.keys.get(rest)
            t = P.d(key).get("t", "") if key else ""
            if not ("unsigned" in t or "size_t" in t):
                ok = False
                break
        if not ok:
            return None
        out.append(int(const))
    return out


# ---------------------------------------------------------------------------------------------
def check_pool(P, rep, PF, rule="PAR.pool"):
    """ThreadPool::parallel_for<callable>: launched ranges form a chain from start to end, every
    launched thread is joined on every path, the worker loop calls func(k) once for k in [k1,k2)"""
    rep.rule(rule, "parallel_for launches func over ranges [start,i2),[i1,i2)...,[i1,end) that chain (lower of each "
                   "launch is the previous upper), joins every thread of the pool on every path to the exit, and the "
                   "worker loop runs k = k1; k < k2; k += 1 calling func(k) exactly once")
    R = lambda n: norm.render(P, n)
    if len(PF.params) != 3:
        rep.unknown(rule, "parallel_for has %d parameters" % len(PF.params))
        return
    start_k, end_k, func_k = PF.params
    # worker lambda
    lams = [n for n in PF.walk() if n.get("k") == "LambdaExpr"]
    if len(lams) != 1:
        rep.unknown(rule, "%d lambdas in parallel_for" % len(lams))
        return
    W = P.funcs.get(lams[0].get("lam"))
    if W is None or len(W.params) != 2:
        rep.unknown(rule, "worker lambda shape")
        return
    loops = [n for n in W.walk() if n.get("k") in ("ForStmt", "WhileStmt", "DoStmt", "CXXForRangeStmt")]
    if len(loops) != 1 or loops[0]["k"] != "ForStmt":
        rep.unknown(rule, "worker lambda is not a single for loop")
        return
    init, cond, inc, body = loops[0]["c"]
    ok = True
    iv = None
    if init and init.get("k") == "DeclStmt" and len(init["c"]) == 1 and init["c"][0].get("c"):
        iv = init["c"][0]["r"]
        i0 = norm.strip_casts(init["c"][0]["c"][0])
        if not (i0.get("k") == "DeclRefExpr" and i0["r"] == W.params[0]):
            rep.violation(rule, "worker loop starts at %s, not at its first argument" % R(i0), W.nloc(init), W.qn, R(init["c"][0]["c"][0]),
                          "first node of a slice skipped or foreign node processed", key=rule + "|worker-init",
                          witness="a grid whose node count is not divisible by the thread count")
            ok = False
    else:
        rep.unknown(rule, "worker loop init")
        return
    cond = norm.strip_casts(cond)
    if not (cond.get("k") == "BinaryOperator" and cond.get("op") == "<" and norm.strip_casts(cond["c"][0]).get("r") == iv
            and norm.strip_casts(cond["c"][1]).get("r") == W.params[1]):
        rep.violation(rule, "worker loop condition is %s, expected k < k2" % R(cond), W.nloc(cond), W.qn, R(cond),
                      "the slice boundary node is processed twice or not at all", key=rule + "|worker-cond",
                      witness="any grid with two or more threads")
        ok = False
    inc = norm.strip_casts(inc)
    if not (inc.get("k") == "UnaryOperator" and inc.get("op") == "++" and norm.strip_casts(inc["c"][0]).get("r") == iv):
        rep.violation(rule, "worker loop step is %s, expected k++" % R(inc), W.nloc(inc), W.qn, R(inc),
                      "nodes skipped", key=rule + "|worker-step")
        ok = False
    calls = [n for n in W.walk(body) if n.get("k") in ("CXXOperatorCallExpr", "CallExpr") and n.get("op", "()") == "()"]
    fcalls = []
    for n in calls:
        tgt = norm.strip_casts(n["c"][0])
        if tgt.get("k") == "DeclRefExpr" and tgt["r"] == func_k:
            fcalls.append(n)
    if len(fcalls) != 1 or len(fcalls[0]["c"]) != 2 or norm.strip_casts(fcalls[0]["c"][1]).get("r") != iv:
        rep.violation(rule, "worker loop body does not call func(k) exactly once", W.nloc(body), W.qn,
                      "; ".join(R(n) for n in fcalls), "a node is evaluated with the wrong index or not at all",
                      key=rule + "|worker-call")
        ok = False
    # assignments to the induction variable inside the body
    for n in W.walk(body):
        if n.get("k") in ("BinaryOperator", "CompoundAssignOperator", "UnaryOperator") and n.get("op") in norm.ASSIGN_OPS + ("++", "--"):
            t = norm.strip_casts(n["c"][0])
            if t.get("r") == iv:
                rep.violation(rule, "worker loop variable modified in the body", W.nloc(n), W.qn, R(n), "nodes skipped",
                              key=rule + "|worker-body-write")
                ok = False
    if ok:
        rep.ok(rule, "worker loop of %s" % PF.qn, W.loc, W.qn, "for (k = k1; k < k2; ++k) func(k)")

    # launches
    launches = []
    for n in PF.walk():
        if n.get("k") in ("CXXConstructExpr", "CXXTemporaryObjectExpr") and "std::thread" in n.get("t", "") and not n.get("copy"):
            launches.append(n)
    if len(launches) != 2:
        generic_launch_conditions(P, rep, PF, launches, start_k, end_k, rule)
        return
    # variables i1 / i2: the lower/upper arguments of the launch inside the loop
    in_loop = [n for n in launches if any(a.get("k") in ("ForStmt", "WhileStmt") for a in PF.ancestors(n))]
    tail = [n for n in launches if n not in in_loop]
    if len(in_loop) != 1 or len(tail) != 1:
        rep.unknown(rule, "launch placement (in loop: %d, after loop: %d)" % (len(in_loop), len(tail)))
        return
    L, T = in_loop[0], tail[0]
    la = [norm.strip_casts(x) for x in L["c"]]
    ta = [norm.strip_casts(x) for x in T["c"]]
    if len(la) != 3 or len(ta) != 3:
        rep.unknown(rule, "thread constructor arity")
        return
    if la[1].get("k") != "DeclRefExpr" or la[2].get("k") != "DeclRefExpr":
        rep.unknown(rule, "loop launch bounds are not variables: %s" % R(L))
        return
    i1, i2 = la[1]["r"], la[2]["r"]
    inits = {}
    assigns = {}
    for n in PF.walk():
        if n.get("k") == "VarDecl" and n.get("c"):
            inits[n["r"]] = n["c"][0]
        if n.get("k") in ("BinaryOperator", "CompoundAssignOperator") and n.get("op") in norm.ASSIGN_OPS:
            t = norm.strip_casts(n["c"][0])
            if t.get("k") == "DeclRefExpr":
                assigns.setdefault(t["r"], []).append(n)
        if n.get("k") == "UnaryOperator" and n.get("op") in ("++", "--"):
            t = norm.strip_casts(n["c"][0])
            if t.get("k") == "DeclRefExpr":
                assigns.setdefault(t["r"], []).append(n)
    good = True
    # (1) i1 starts at `start`
    i1_init = norm.strip_casts(inits.get(i1)) if inits.get(i1) else None
    if not (i1_init is not None and i1_init.get("k") == "DeclRefExpr" and i1_init["r"] == start_k):
        rep.violation(rule, "first range starts at %s, not at start" % (R(i1_init) if i1_init else "?"), PF.nloc(L), PF.qn,
                      R(inits.get(i1)) if inits.get(i1) else "", "leading nodes are never evaluated", key=rule + "|i1-init")
        good = False
    # (2) the only assignment to i1 is `i1 = i2` after the loop launch in the same block
    a1 = assigns.get(i1, [])
    if len(a1) != 1 or a1[0].get("op") != "=" or norm.strip_casts(a1[0]["c"][1]).get("r") != i2:
        rep.violation(rule, "lower bound is not advanced by `lower = upper`", PF.nloc(a1[0]) if a1 else PF.loc, PF.qn,
                      "; ".join(R(x) for x in a1), "ranges overlap or leave gaps", key=rule + "|i1-step",
                      witness="node count not divisible by the thread count")
        good = False
    else:
        bl, ba = PF.block_of(L), PF.block_of(a1[0])
        if bl != ba or a1[0].get("l", 0) < L.get("l", 0):
            rep.violation(rule, "`lower = upper` is not executed right after the launch", PF.nloc(a1[0]), PF.qn, R(a1[0]),
                          "ranges overlap or leave gaps", key=rule + "|i1-step-place")
            good = False
    # (3) every assignment / the initialiser of i2 is min(..., end)
    srcs = [inits.get(i2)] + [a["c"][1] for a in assigns.get(i2, []) if a.get("op") == "="]
    if any(a.get("op") != "=" for a in assigns.get(i2, [])):
        rep.violation(rule, "upper bound updated by a compound assignment", PF.loc, PF.qn, "", "upper bound may pass end",
                      key=rule + "|i2-compound")
        good = False
    for s in srcs:
        s0 = norm.strip_casts(s) if s else None
        okmin = False
        if s0 is not None and s0.get("k") == "CallExpr" and P.d(s0.get("callee")).get("qn") == "std::min":
            args = [norm.strip_casts(x) for x in s0["c"][1:]]
            okmin = any(a.get("k") == "DeclRefExpr" and a["r"] == end_k for a in args)
        if not okmin:
            rep.violation(rule, "upper bound %s is not clamped to end" % (R(s) if s else "?"), PF.nloc(s) if s else PF.loc, PF.qn,
                          R(s) if s else "", "a slice may run past the last node", key=rule + "|i2-clamp",
                          witness="more threads than nodes")
            good = False
    # (4) remainder launch is (i1, end) under `i1 < end`, outside the loop, reached on every path after the loop
    if not (ta[1].get("k") == "DeclRefExpr" and ta[1]["r"] == i1 and ta[2].get("k") == "DeclRefExpr" and ta[2]["r"] == end_k):
        rep.violation(rule, "remainder launch covers [%s,%s), expected [lower,end)" % (R(ta[1]), R(ta[2])), PF.nloc(T), PF.qn, R(T),
                      "trailing nodes are not evaluated", key=rule + "|tail-range",
                      witness="node count not divisible by the thread count")
        good = False
    guard = None
    for a in PF.ancestors(T):
        if a.get("k") == "IfStmt":
            guard = a
            break
    if guard is None:
        rep.unknown(rule, "remainder launch is unguarded")
    else:
        g = norm.strip_casts(guard["c"][0])
        if not (g.get("k") == "BinaryOperator" and g.get("op") == "<" and norm.strip_casts(g["c"][0]).get("r") == i1
                and norm.strip_casts(g["c"][1]).get("r") == end_k):
            rep.violation(rule, "remainder launch guarded by %s, expected lower < end" % R(g), PF.nloc(guard), PF.qn, R(g),
                          "trailing nodes are not evaluated", key=rule + "|tail-guard")
            good = False
    # (5) joins: a range-for over the pool member that joins, post-dominating both launches
    joins = [n for n in PF.walk() if n.get("k") == "CXXMemberCallExpr" and P.d(n.get("callee")).get("qn") == "std::thread::join"]
    if not joins:
        # the join loop may live in a member helper called from here (`join_all()`): this rule reads parallel_for itself
        cls_ = PF.qn.rsplit("::", 1)[0]
        for c_ in PF.walk():
            if c_.get("k") == "CXXMemberCallExpr" and c_.get("callee") in P.funcs:
                G_ = P.funcs[c_["callee"]]
                if G_.body is not None and G_.qn.rsplit("::", 1)[0] == cls_ and any(
                        y.get("k") == "CXXMemberCallExpr" and P.d(y.get("callee")).get("qn") == "std::thread::join" for y in G_.walk()):
                    rep.unknown(rule, "the threads are joined in the member helper %s; the launch/join analysis is written over parallel_for alone" % G_.qn)
                    return
    if len(joins) != 1:
        rep.violation(rule, "%d join() calls" % len(joins), PF.loc, PF.qn, "", "threads are not joined before results are used",
                      key=rule + "|join-count", witness="results read while workers still run")
        good = False
    else:
        J = joins[0]
        loop = None
        for a in PF.ancestors(J):
            if a.get("k") == "CXXForRangeStmt":
                loop = a
                break
        if loop is None:
            rep.unknown(rule, "join() not inside a range-for")
        else:
            rng = norm.strip_casts(loop["c"][1])
            pool_field = None
            for ln in (L, T):
                pass
            # the launches are assigned to elements of the same member
            tgt_ok = rng.get("k") == "MemberExpr"
            for ln in (L, T):
                asg = None
                for a in PF.ancestors(ln):
                    if a.get("k") == "CXXOperatorCallExpr" and a.get("op") == "=":
                        asg = a
                        break
                if asg is None:
                    rep.unknown(rule, "launch is not assigned into the pool")
                    tgt_ok = False
                    continue
                b, idx = index_chain_of(asg["c"][0])
                if not (b.get("k") == "MemberExpr" and b.get("r") == rng.get("r")):
                    tgt_ok = False
            if not tgt_ok:
                rep.violation(rule, "join loop does not range over the vector the threads are stored in", PF.nloc(loop), PF.qn,
                              R(loop["c"][1]), "some threads are never joined", key=rule + "|join-range")
                good = False
            # join guarded only by joinable() of the same thread
            # post-dominance of the loop header over the launches
            pd = PF.postdominators()
            jb = PF.block_of(loop["hidden"][3]) if loop.get("hidden") and loop["hidden"][3] else PF.block_of(J)
            for ln in (L, T):
                lb = PF.block_of(ln)
                if jb is None or lb is None or jb not in pd.get(lb, set()):
                    rep.violation(rule, "the join loop does not post-dominate a launch", PF.nloc(ln), PF.qn, R(ln),
                                  "a path leaves parallel_for with a running thread", key=rule + "|join-postdom")
                    good = False
            # a pool entry whose launch is conditional stays a default-constructed std::thread: join() on it throws, so the join has
            # to be under joinable() unless every entry is launched unconditionally
            guarded = any(a.get("k") == "IfStmt" and norm.strip_casts(a["c"][0]).get("k") == "CXXMemberCallExpr"
                          and P.d(norm.strip_casts(a["c"][0]).get("callee")).get("qn") == "std::thread::joinable" for a in PF.ancestors(J))
            cond_launch = []
            for ln in (L, T):
                for a in PF.ancestors(ln):
                    if a.get("k") == "IfStmt":
                        cond_launch.append(R(a["c"][0]))
                    if a.get("k") == "ForStmt" and a["c"][1] is not None and sc(a["c"][1]).get("k") == "BinaryOperator" and sc(a["c"][1]).get("op") == "&&":
                        cond_launch.append(R(a["c"][1]))
            if not guarded and cond_launch:
                rep.violation(rule, "join() is not guarded by joinable() although launches are conditional (%s)" % "; ".join(sorted(set(cond_launch)))[:120],
                              PF.nloc(J), PF.qn, R(J), "a pool entry that was never launched is joined: std::system_error instead of the output file",
                              key=rule + "|join-unlaunched", witness="more threads than grid nodes (-j larger than the node count)")
                good = False
            # conditions the join is control dependent on inside the loop: only t.joinable()
            for a in PF.ancestors(J):
                if a is loop:
                    break
                if a.get("k") == "IfStmt":
                    c = norm.strip_casts(a["c"][0])
                    if not (c.get("k") == "CXXMemberCallExpr" and P.d(c.get("callee")).get("qn") == "std::thread::joinable"):
                        rep.violation(rule, "join() is conditional on %s" % R(c), PF.nloc(a), PF.qn, R(c),
                                      "some threads are not joined", key=rule + "|join-guard")
                        good = False
    # (6) the loop launch index is the loop's induction variable, the remainder uses pool.size()-1, and the loop
    #     condition keeps the induction variable below pool.size()-1
    if good:
        rep.ok(rule, "launch/join structure of %s" % PF.qn, PF.loc, PF.qn,
               "ranges chain from start to end; join loop post-dominates both launches")


def generic_launch_conditions(P, rep, PF, launches, start_k, end_k, rule):
    """the launch structure is not the known chain: test necessary conditions of 'the ranges tile [start,end)' that
    must be evident whatever the slicing scheme; otherwise the idiom is unknown (exit 2)"""
    R = lambda n: norm.render(P, n)
    inits = {n["r"]: n["c"][0] for n in PF.walk() if n.get("k") == "VarDecl" and n.get("c")}

    def inline(e, depth=0):
        """nodes of e with single-definition locals replaced by their initialisers"""
        out = []
        for x in PF.walk(e):
            out.append(x)
            if x.get("k") == "DeclRefExpr" and x["r"] in inits and depth < 6 and P.d(x["r"]).get("storage") == "local":
                out.extend(inline(inits[x["r"]], depth + 1))
        return out
    found = False
    anchored = False
    for L in launches:
        args = [norm.strip_casts(a) for a in L["c"]]
        if len(args) != 3:
            rep.unknown(rule, "thread constructor with %d arguments" % len(args))
            return
        for which, a in (("lower", args[1]), ("upper", args[2])):
            nodes = inline(a)
            fp = [x for x in nodes if x.get("t", "").replace("const ", "") in ("double", "float", "long double") or x.get("k") == "FloatingLiteral"]
            if fp:
                found = True
                rep.violation(rule, "slice %s bound %s is computed in floating-point arithmetic" % (which, R(a)), PF.nloc(L), PF.qn, R(L)[:120],
                              "that consecutive slices tile [start,end) exactly then depends on rounding, not on the structure of the code",
                              key="%s|fp-bound|%s" % (rule, which),
                              witness="node counts / thread counts for which (i+1)*step rounds below the next integer: the last node is never evaluated")
        if any(x.get("k") == "DeclRefExpr" and x["r"] == end_k for x in inline(args[2])):
            anchored = True
    if not found and not anchored and launches:
        found = True
        rep.violation(rule, "no launched range has `end` as its upper bound", PF.nloc(launches[0]), PF.qn, "; ".join(R(l)[:60] for l in launches),
                      "the last nodes of [start,end) are not covered by construction", key=rule + "|no-end-anchor",
                      witness="node count not divisible by the thread count")
    if not launches:
        rep.violation(rule, "parallel_for starts no thread", PF.loc, PF.qn, "", "no node is evaluated", key=rule + "|no-launch")
        found = True
    if not found:
        rep.unknown(rule, "%d thread launches in parallel_for (known shape: loop launch + remainder launch)" % len(launches))


def index_chain_of(n):
    return index_chain(n)


def after_join_single_threaded(P, rep, F, rule="PAR.after"):
    """nothing else in gwb-grid's main starts threads"""
    rep.rule(rule, "std::thread objects are created only inside ThreadPool::parallel_for")
    n_t = 0
    for G in P.funcs.values():
        if G.tu != "gwb-grid":
            continue
        for n in G.walk():
            if n.get("k") in ("CXXConstructExpr", "CXXTemporaryObjectExpr") and "std::thread" in n.get("t", "") and not n.get("copy") \
                    and n.get("c"):
                n_t += 1
                if "ThreadPool::parallel_for" not in G.qn:
                    rep.violation(rule, "thread started in %s" % G.qn, G.nloc(n), G.qn, norm.render(P, n),
                                  "concurrency outside the audited pool", key="%s|%s" % (rule, G.qn))
            if n.get("k") == "CallExpr" and P.d(n.get("callee")).get("qn") in ("std::async", "pthread_create"):
                rep.violation(rule, "async task started in %s" % G.qn, G.nloc(n), G.qn, norm.render(P, n),
                              "concurrency outside the audited pool", key="%s|async|%s" % (rule, G.qn))
    rep.ok(rule, "%d thread constructions, all inside parallel_for" % n_t)
