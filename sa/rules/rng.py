"""RNG — entropy discipline (DESIGN §3.12) and index agreement of per-composition tables."""
import re

import sympy as sp

from .. import astq, effects as EF, norm
from ..astq import sc
from ..tu import AnalysisBroken

BANNED = {
    "std::random_device", "rand", "srand", "random", "srandom", "drand48", "lrand48", "time", "clock", "std::time",
    "std::clock", "getpid", "gettimeofday", "clock_gettime", "std::rand", "std::srand", "rand_r", "getrandom", "arc4random",
}
BANNED_RE = re.compile(r"^std::chrono::.*::now$|^std::random_device::|^std::this_thread::get_id$")


def lib_functions(P):
    return [F for F in P.funcs.values() if F.tu.startswith("lib")]


def banned_sources(P, rep, rule="RNG.sources"):
    rep.rule(rule, "the library uses no entropy source other than the world's seeded engine: no random_device, rand/srand, "
                   "time/clock/chrono::now, getpid, no default-constructed or locally seeded engine")
    n = 0
    engines = 0
    for F in lib_functions(P):
        n += 1
        for x in F.walk():
            k = x.get("k")
            qn = None
            if k in ("CallExpr", "CXXMemberCallExpr", "CXXOperatorCallExpr") and x.get("callee"):
                qn = P.d(x["callee"]).get("qn", "")
            elif k == "DeclRefExpr":
                d = P.d(x["r"])
                if d.get("k") in ("Function", "CXXMethod"):
                    qn = d.get("qn", "")
            if qn and (qn in BANNED or BANNED_RE.match(qn)):
                rep.violation(rule, "%s uses %s" % (F.qn, qn), F.nloc(x), F.qn, norm.render(P, x), "entropy that is not a function of file and seed",
                              key="%s|%s|%s" % (rule, F.qn, qn), witness="two worlds built alike and queried alike")
            if k in ("CXXConstructExpr", "CXXTemporaryObjectExpr", "VarDecl"):
                t = x.get("t", "")
                if re.search(r"random_device", t):
                    rep.violation(rule, "%s constructs %s" % (F.qn, t), F.nloc(x), F.qn, t, "non-deterministic entropy source",
                                  key="%s|%s|random_device" % (rule, F.qn))
                if k != "VarDecl" and re.search(r"mersenne_twister_engine|linear_congruential_engine|subtract_with_carry_engine|default_random_engine", t) \
                        and "distribution" not in t:
                    engines += 1
                    # the only engine object is World::random_number_engine, built in World's constructor
                    if not (F.qn == "WorldBuilder::World::World"):
                        rep.violation(rule, "%s constructs its own random engine" % F.qn, F.nloc(x), F.qn, norm.render(P, x),
                                      "draws not tied to the world's seed", key="%s|%s|engine" % (rule, F.qn))
    rep.ok(rule, "%d library functions scanned; %d engine constructions (World constructor only)" % (n, engines))


def draws(P, rep, rule="RNG.draws"):
    """every distribution is invoked on world->get_random_number_engine()"""
    rep.rule(rule, "every std::*_distribution::operator() in the library takes World::get_random_number_engine() of the owning "
                   "world as its engine, and only the documented random models draw")
    E = EF.Effects(P)
    callers = {}
    n = 0
    for F in lib_functions(P):
        for x in F.walk():
            if x.get("k") == "CXXOperatorCallExpr" and x.get("op") == "()" and "_distribution" in sc(x["c"][0]).get("t", ""):
                n += 1
                eng = x["c"][1] if len(x["c"]) > 1 else None
                roots = E.resolve(F, eng) if eng is not None else set()
                if len(roots) == 1 and list(roots)[0][0] == "param" and P.d(F.key).get("k") == "Function":
                    # a file-local helper that draws on an engine handed in by reference: judged at its call sites
                    from .pure import is_random_model as _irm
                    pidx = list(roots)[0][1]
                    sites_ok = True
                    sites = P.callsites.get(F.key, [])
                    for G, call in sites:
                        if G.file != F.file or not _irm(G) or 1 + pidx >= len(call["c"]):
                            sites_ok = False
                            continue
                        aroots = E.resolve(G, call["c"][1 + pidx])
                        if aroots != {EF.RNG}:
                            sites_ok = False
                    if sites and sites_ok:
                        for G, call in sites:
                            callers.setdefault(G.qn, []).append(x)
                        continue
                if roots != {EF.RNG}:
                    rep.violation(rule, "%s draws from %s" % (F.qn, norm.render(P, eng)), F.nloc(x), F.qn, norm.render(P, x),
                                  "engine is not the world's seeded engine", key="%s|%s|engine" % (rule, F.qn),
                                  witness="two worlds with the same seed")
                    continue
                # receiver of get_random_number_engine is the model's own world pointer
                g = sc(eng)
                me = g["c"][0] if g.get("k") == "CXXMemberCallExpr" else None
                base = sc(me["c"][0]) if me and me.get("c") else None
                if not (base is not None and base.get("k") == "MemberExpr" and base.get("n") == "world" and astq.is_this_field(P, base)):
                    rep.violation(rule, "%s draws from another world's engine: %s" % (F.qn, norm.render(P, eng)), F.nloc(x), F.qn, norm.render(P, x),
                                  "engine does not belong to the world being queried", key="%s|%s|foreign-world" % (rule, F.qn))
                    continue
                callers.setdefault(F.qn, []).append(x)
    from .pure import is_random_model
    for qn, sites in sorted(callers.items()):
        F = P.funcs_named(qn)[0]
        if is_random_model(F):
            rep.ok(rule, "%s: %d draws from world->get_random_number_engine()" % (qn, len(sites)), F.loc, qn)
        else:
            rep.violation(rule, "%s draws random numbers but is not a documented random model" % qn, F.nloc(sites[0]), qn, norm.render(P, sites[0]),
                          "answers of a non-random model depend on the query history", key="%s|%s|undocumented" % (rule, qn),
                          witness="query q twice")
    rep.floor(rule, len(callers), 12, "random model classes (5 uniform + 6 deflected grains + 1 composition)")
    # get_random_number_engine is called nowhere else
    g = P.func("WorldBuilder::World::get_random_number_engine")
    for F, node in P.callsites.get(g.key, []):
        if F.qn not in callers:
            rep.violation(rule, "%s obtains the random engine" % F.qn, F.nloc(node), F.qn, norm.render(P, node), "engine handed out to a non-random-model",
                          key="%s|%s|getter" % (rule, F.qn))
    return callers


def engine_writes(P, rep, rule="RNG.seed"):
    """World::random_number_engine: initialised from the constructor's seed parameter, reseeded only in
    parse_entries from the 'random number seed' entry (+ MPI rank) under `>= 0`, handed out only by the getter"""
    rep.rule(rule, "World::random_number_engine is initialised from the constructor's seed argument, re-seeded only in "
                   "World::parse_entries with a value derived from the 'random number seed' entry and MPI_RANK under the test "
                   "`seed >= 0`, and otherwise touched only by get_random_number_engine()")
    fld = None
    for k, d in P.decls.items():
        if d.get("qn") == "WorldBuilder::World::random_number_engine":
            fld = k
    if fld is None:
        raise AnalysisBroken("field World::random_number_engine not found")
    ctor = [f for f in P.funcs_named("WorldBuilder::World::World") if len(f.params) >= 4]
    if len(ctor) != 1:
        raise AnalysisBroken("World constructor not found")
    C = ctor[0]
    seeded = False
    for ini in C.inits or []:
        if ini.get("field") == fld:
            args = ini["c"][0].get("c", []) if ini["c"] and ini["c"][0] else []
            a = sc(args[0]) if args else None
            if a is not None and astq.is_ref_to(a, C.params[3]):
                seeded = True
                rep.ok(rule, "constructor: random_number_engine(random_number_seed)", C.loc, C.qn)
            else:
                rep.violation(rule, "constructor seeds the engine with %s" % (norm.render(P, a) if a else "nothing"), C.loc, C.qn,
                              norm.render(P, ini["c"][0]) if ini["c"] else "", "the seed argument does not reach the engine",
                              key=rule + "|ctor", witness="two worlds with different seed arguments")
                seeded = True
    if not seeded:
        rep.violation(rule, "constructor does not initialise the engine from its seed parameter", C.loc, C.qn, "", "default-seeded engine",
                      key=rule + "|ctor-missing")
    uses = 0
    for F in P.funcs.values():
        for x in F.walk():
            if x.get("k") == "MemberExpr" and x.get("r") == fld:
                uses += 1
                if F.qn == "WorldBuilder::World::get_random_number_engine":
                    par = F.parent.get(x["i"])
                    if par is not None and par.get("k") == "ReturnStmt":
                        rep.ok(rule, "getter returns the engine", F.nloc(x), F.qn)
                        continue
                if F.qn == "WorldBuilder::World::parse_entries":
                    par = F.parent.get(x["i"])
                    gp = F.parent.get(par["i"]) if par is not None else None
                    if par is not None and par.get("k") == "MemberExpr" and par.get("n") == "seed" and gp is not None and gp.get("k") == "CXXMemberCallExpr":
                        arg = gp["c"][1]
                        sym = norm.Sym(P, F, inline_locals=False)
                        e = sym(arg)
                        names = {str(s).split("@")[0] for s in e.free_symbols}
                        # local_seed must be prm.get<int>("random number seed")
                        seedvar = None
                        for n2 in F.walk():
                            if n2.get("k") == "VarDecl" and n2.get("c"):
                                c0 = sc(n2["c"][0])
                                if c0.get("k") == "CXXMemberCallExpr" and c0["c"][0].get("n") == "get":
                                    a0 = sc(c0["c"][1]) if len(c0["c"]) > 1 else None
                                    lit = first_string(F, a0)
                                    if lit == "random number seed":
                                        seedvar = n2
                        ok = seedvar is not None and seedvar["n"] in names and names <= {seedvar["n"], "this.MPI_RANK"}
                        lin = sp.expand(e)
                        try:
                            sv = [s for s in lin.free_symbols if str(s).startswith(seedvar["n"] + "@")][0] if seedvar is not None else None
                            ok = ok and sv is not None and sp.diff(lin, sv) == 1
                        except Exception:
                            ok = False
                        guard = astq.enclosing(F, gp, ("IfStmt",))
                        gok = False
                        if guard is not None and seedvar is not None:
                            g = sc(guard["c"][0])
                            gok = (g.get("k") == "BinaryOperator" and g.get("op") == ">=" and astq.is_ref_to(g["c"][0], seedvar["r"])
                                   and sc(g["c"][1]).get("k") == "IntegerLiteral" and sc(g["c"][1])["v"] == 0)
                        if ok and gok:
                            rep.ok(rule, "parse_entries reseeds with %s under `%s`" % (norm.render(P, arg), norm.render(P, guard["c"][0])), F.nloc(gp), F.qn)
                        else:
                            rep.violation(rule, "parse_entries reseeds with %s%s" % (norm.render(P, arg), "" if gok else " under a different guard"),
                                          F.nloc(gp), F.qn, norm.render(P, gp), "the file's seed entry does not determine the stream",
                                          key=rule + "|reseed", witness="two files differing only in 'random number seed'")
                        continue
                rep.violation(rule, "%s touches World::random_number_engine" % F.qn, F.nloc(x), F.qn, norm.render(P, F.parent.get(x["i"])),
                              "engine state modified or copied outside the three audited sites", key="%s|%s|use" % (rule, F.qn))
    rep.floor(rule, uses, 2, "uses of the engine field")


def first_string(F, n):
    if n is None:
        return None
    for x in F.walk(n):
        if x.get("k") == "StringLiteral":
            return x.get("v")
    return None


# ------------------------------------------------------------------------------------------------
def leader_index_agreement(P, rep, funcs, rule="A2.same-index"):
    """inside the loop that selects composition k from the `compositions` list, every other per-composition
    table (member vector) is indexed with the same k"""
    rep.rule(rule, "in a model that selects the requested composition by walking its `compositions` list, every companion "
                   "per-composition member vector is read at the index of the matching entry (never at a literal index or "
                   "through the composition *value*)")
    n = 0
    for F in funcs:
        comp_param = None
        for p in F.params:
            if P.d(p).get("n") == "composition_number":
                comp_param = p
        if comp_param is None:
            continue
        member_vecs = {}
        for x in F.walk():
            if x.get("k") == "MemberExpr" and astq.is_this_field(P, x) and "vector<" in x.get("t", ""):
                member_vecs[x["n"]] = x["r"]
        if "compositions" not in member_vecs:
            continue
        # loops over compositions
        for loop in [x for x in F.walk() if x.get("k") in ("ForStmt", "CXXForRangeStmt")]:
            leader_idx = None
            value_var = None
            if loop["k"] == "ForStmt":
                from .layout import forward_loop
                okl, iv, bound = forward_loop(P, F, loop)
                bm = astq.member_call(P, bound, "size") if bound is not None else None
                if okl and bm and astq.is_this_field(P, bm[0], "compositions"):
                    leader_idx = iv
            else:
                rng = sc(loop["c"][1])
                if astq.is_this_field(P, rng, "compositions"):
                    value_var = loop["c"][0]["r"]
            if leader_idx is None and value_var is None:
                continue
            n += 1
            body = loop["c"][-1]
            bad = []
            for x in F.walk(body):
                s = astq.subscript(x)
                if not s:
                    continue
                b = sc(s[0])
                if not (b.get("k") == "MemberExpr" and astq.is_this_field(P, b) and "vector<" in b.get("t", "")):
                    continue
                if b["n"] == "compositions":
                    if leader_idx is not None and not astq.is_ref_to(s[1], leader_idx):
                        bad.append((x, "compositions[%s]" % norm.render(P, s[1])))
                    continue
                i = sc(s[1])
                if leader_idx is not None:
                    if not astq.is_ref_to(i, leader_idx):
                        bad.append((x, "%s[%s] inside the loop over compositions[%s]" % (b["n"], norm.render(P, i), P.d(leader_idx).get("n"))))
                else:
                    bad.append((x, "%s[%s] while the loop variable is the composition value, not its position" % (b["n"], norm.render(P, i))))
            if bad:
                for x, what in bad:
                    rep.violation(rule, "%s: %s" % (F.qn, what), F.nloc(x), F.qn, norm.render(P, x),
                                  "composition k gets the parameters of another composition", key="%s|%s|%s" % (rule, F.qn, what.split(" ")[0]),
                                  witness="two compositions with different per-composition parameters; query the second one")
            else:
                rep.ok(rule, "%s: companions indexed like compositions" % F.qn, F.nloc(loop), F.qn)
    return n


# ------------------------------------------------------------------------------------------------
def rotation_identity(P, rep, funcs, rule="EXPR.rotation"):
    """the 9 matrix entries assigned per grain satisfy R R^T = I and det R = +1 identically"""
    rep.rule(rule, "the nine entries assigned to a random rotation matrix, as functions of the three uniform draws, satisfy "
                   "R*R^T = I and det R = +1 identically (computer-algebra normalisation of one straight-line block)")
    for F in funcs:
        # stores it[r][c] = expr inside a range-for over grains_local.rotation_matrices
        blocks = {}
        for x in F.walk():
            if x.get("k") == "BinaryOperator" and x.get("op") == "=":
                s1 = astq.subscript(x["c"][0])
                s0 = astq.subscript(s1[0]) if s1 else None
                if s0 and sc(s0[0]).get("k") == "DeclRefExpr" and sc(s0[1]).get("k") == "IntegerLiteral" and sc(s1[1]).get("k") == "IntegerLiteral":
                    loop = astq.enclosing(F, x, ("CXXForRangeStmt",))
                    if loop is not None and "rotation_matrices" in norm.render(P, loop["c"][1]):
                        blocks.setdefault((loop["i"], sc(s0[0])["r"]), {})[(sc(s0[1])["v"], sc(s1[1])["v"])] = x["c"][1]
        # keep the generated matrix: the block whose entries are computed (not copied element-wise from another matrix)
        blocks = {k: v for k, v in blocks.items() if len(v) == 9 or not all(astq.subscript(e) for e in v.values())}
        if not blocks:
            rep.unknown(rule, "%s: no rotation matrix block found" % F.qn)
            continue
        for (lid, var), ent in blocks.items():
            if set(ent) != {(r, c) for r in range(3) for c in range(3)}:
                rep.violation(rule, "%s: only %d of 9 matrix entries assigned" % (F.qn, len(ent)), F.loc, F.qn, "", "matrix partly stale",
                              key="%s|%s|entries" % (rule, F.qn))
                continue
            draws_ = []

            def hook(n):
                if n.get("k") == "CXXOperatorCallExpr" and n.get("op") == "()" and "_distribution" in sc(n["c"][0]).get("t", ""):
                    s = sp.Symbol("u%d" % n["i"], positive=True)
                    draws_.append(s)
                    return s
                if n.get("k") == "DeclRefExpr" and P.d(n["r"]).get("qn") == "WorldBuilder::Consts::PI":
                    return sp.pi
                return None
            sym = norm.Sym(P, F, inline_locals=True, hook=hook)
            M = sp.Matrix(3, 3, lambda r, c: sym(ent[(r, c)]))
            # the draws appear under sqrt: give them their true range for the algebra (0 <= u <= 1)
            I3 = (M * M.T - sp.eye(3)).applyfunc(lambda e: sp.simplify(sp.trigsimp(sp.expand(e))))
            det = sp.simplify(sp.trigsimp(sp.expand(M.det())))
            if I3 == sp.zeros(3, 3) and sp.simplify(det - 1) == 0:
                loop = F.nodes[lid]
                lv = loop["c"][0]["r"]
                how = "stored directly in the grain"
                if var != lv:
                    # it = multiply_3x3_matrices(R, basis_rotation_matrices[i])  (product of two rotations)
                    asg = [y for y in F.walk(loop["c"][2]) if y.get("k") in ("BinaryOperator", "CXXOperatorCallExpr") and y.get("op") == "="
                           and astq.is_ref_to(y["c"][0], lv)]
                    good = False
                    if len(asg) == 1:
                        v = sc(asg[0]["c"][1])
                        if v.get("k") == "DeclRefExpr":
                            for y in F.walk(loop["c"][2]):
                                if y.get("k") == "VarDecl" and y.get("r") == v["r"] and y.get("c"):
                                    v = sc(y["c"][0])
                        if v.get("k") == "CallExpr" and P.d(v.get("callee")).get("qn", "").endswith("multiply_3x3_matrices"):
                            a = [sc(z) for z in v["c"][1:]]
                            if len(a) == 2 and astq.is_ref_to(a[0], var) and "basis_rotation_matrices[" in norm.render(P, a[1]):
                                good = True
                    if not good:
                        rep.violation(rule, "%s: generated rotation does not reach the grain as R * basis[i]" % F.qn, F.nloc(loop), F.qn, "",
                                      "grain orientation is not a rotation of the configured basis", key="%s|%s|compose" % (rule, F.qn))
                        continue
                    how = "composed as multiply_3x3_matrices(R, basis_rotation_matrices[i])"
                rep.ok(rule, "%s: R*R^T = I and det R = 1 for all draws; %s" % (F.qn, how), F.loc, F.qn)
            else:
                # numeric refutation at a sample point to print a witness
                subs = {s: sp.Rational(1, 3) + sp.Rational(i, 7) for i, s in enumerate(sorted(M.free_symbols, key=str))}
                rep.violation(rule, "%s: rotation matrix is not orthonormal with det +1" % F.qn, F.loc, F.qn,
                              "det = %s" % det, "R*R^T - I = %s at a sample point" % (M * M.T - sp.eye(3)).subs(subs).evalf(5).tolist(),
                              key="%s|%s" % (rule, F.qn), witness="any draw")


def pure_table_guard(P, cond):
    """the condition is exactly normalize_grain_sizes[<index>] (no further conjunct that could switch the normalisation off)"""
    c = sc(cond)
    s = astq.subscript(c)
    if s is None:
        return False
    b = sc(s[0])
    return b.get("k") == "MemberExpr" and b.get("n") == "normalize_grain_sizes"


def size_normalisation(P, rep, funcs, rule="EXPR.sizes"):
    """sizes: it = (grain_sizes[i] < 0 ? draw : grain_sizes[i]); total += it; if (normalize[i]) sizes *= 1/total"""
    rep.rule(rule, "grain sizes: each size is the configured value (or a draw when negative), total accumulates exactly the sizes "
                   "assigned, and under exactly the condition normalize_grain_sizes[i] (no further conjunct) every size is multiplied by 1/total (so they sum to one)")
    for F in funcs:
        ok = True
        why = []
        tot = None
        # total_size accumulation
        for x in F.walk():
            if x.get("k") == "CompoundAssignOperator" and x.get("op") == "+=":
                loop = astq.enclosing(F, x, ("CXXForRangeStmt",))
                if loop is not None and "sizes" in norm.render(P, loop["c"][1]):
                    if not astq.is_ref_to(x["c"][1], loop["c"][0]["r"]):
                        ok = False
                        why.append("total accumulates %s, not the size just assigned" % norm.render(P, x["c"][1]))
                    tot = sc(x["c"][0]).get("r")
                    # the assignment to the loop variable
                    asg = [y for y in F.walk(loop["c"][2]) if y.get("k") == "BinaryOperator" and y.get("op") == "=" and astq.is_ref_to(y["c"][0], loop["c"][0]["r"])]
                    if len(asg) != 1:
                        ok = False
                        why.append("size assigned %d times" % len(asg))
                    else:
                        v = sc(asg[0]["c"][1])
                        if v.get("k") != "ConditionalOperator":
                            ok = False
                            why.append("size is %s" % norm.render(P, v))
                        else:
                            cnd, a, b = [sc(z) for z in v["c"]]
                            r_fixed = norm.render(P, b)
                            if not (cnd.get("k") == "BinaryOperator" and cnd.get("op") == "<" and norm.render(P, cnd["c"][0]) == r_fixed
                                    and sc(cnd["c"][1]).get("v") == 0 and "grain_sizes[" in r_fixed and "_distribution" in norm.render(P, a) + sc(a["c"][0]).get("t", "") if a.get("c") else False):
                                ok = False
                                why.append("size rule is %s" % norm.render(P, v))
        if tot is None:
            rep.unknown(rule, "%s: no size accumulation found" % F.qn)
            continue
        # normalisation: lambda multiplies by a captured 1/total
        lam_ok = False
        for x in F.walk():
            if x.get("k") == "CallExpr" and P.d(x.get("callee")).get("qn") == "std::transform":
                a = x["c"][1:]
                if len(a) == 4 and "sizes" in norm.render(P, a[0]) and norm.render(P, a[0]) == norm.render(P, a[2]) and "end" in norm.render(P, a[1]):
                    lam = sc(a[3])
                    op = P.funcs.get(lam.get("lam")) if lam.get("k") == "LambdaExpr" else None
                    if op is not None:
                        rets = [sc(y["c"][0]) for y in op.walk() if y.get("k") == "ReturnStmt" and y.get("c")]
                        if len(rets) == 1 and rets[0].get("k") == "BinaryOperator" and rets[0].get("op") == "*":
                            l, r = sc(rets[0]["c"][0]), sc(rets[0]["c"][1])
                            names = {l.get("r"), r.get("r")}
                            if op.params[0] in names:
                                cap = (names - {op.params[0]}).pop()
                                init = None
                                for y in F.walk():
                                    if y.get("k") == "VarDecl" and y.get("r") == cap and y.get("c"):
                                        init = sc(y["c"][0])
                                if init is not None and init.get("k") == "BinaryOperator" and init.get("op") == "/" and sc(init["c"][0]).get("v") == 1 \
                                        and astq.is_ref_to(init["c"][1], tot):
                                    guard = astq.enclosing(F, x, ("IfStmt",))
                                    if guard is not None and pure_table_guard(P, guard["c"][0]):
                                        lam_ok = True
        if not lam_ok:
            # idiom 2: for (auto &&size : grains_local.sizes) size = size * one_over_total_size;
            for x in F.walk():
                if x.get("k") == "CXXForRangeStmt" and "sizes" in norm.render(P, x["c"][1]):
                    lv = x["c"][0]["r"]
                    asg = [y for y in F.walk(x["c"][2]) if y.get("k") in ("BinaryOperator", "CompoundAssignOperator") and y.get("op") in norm.ASSIGN_OPS
                           and astq.is_ref_to(y["c"][0], lv)]
                    if len(asg) != 1:
                        continue
                    a = asg[0]
                    factor = None
                    if a.get("op") == "*=":
                        factor = sc(a["c"][1])
                    elif a.get("op") == "=":
                        r = sc(a["c"][1])
                        if r.get("k") == "BinaryOperator" and r.get("op") == "*":
                            l2, r2 = sc(r["c"][0]), sc(r["c"][1])
                            if astq.is_ref_to(l2, lv):
                                factor = r2
                            elif astq.is_ref_to(r2, lv):
                                factor = l2
                    if factor is None or factor.get("k") != "DeclRefExpr":
                        continue
                    init = None
                    for y in F.walk():
                        if y.get("k") == "VarDecl" and y.get("r") == factor["r"] and y.get("c"):
                            init = sc(y["c"][0])
                    if init is not None and init.get("k") == "BinaryOperator" and init.get("op") == "/" and sc(init["c"][0]).get("v") == 1 \
                            and astq.is_ref_to(init["c"][1], tot):
                        guard = astq.enclosing(F, x, ("IfStmt",))
                        if guard is not None and pure_table_guard(P, guard["c"][0]):
                            lam_ok = True
        if not lam_ok:
            ok = False
            why.append("normalisation is not `sizes[k] *= 1/total` under normalize_grain_sizes[i]")
        if ok:
            rep.ok(rule, "%s: sizes and normalisation" % F.qn, F.loc, F.qn)
        else:
            rep.violation(rule, "%s: %s" % (F.qn, "; ".join(why)), F.loc, F.qn, "", "normalised sizes do not sum to one / fixed sizes altered",
                          key="%s|%s" % (rule, F.qn), witness="grains request with 3 grains, normalize true")


def broadcast_single_value(P, rep, rule="RNG.broadcast"):
    """a single listed bound stands for all compositions"""
    rep.rule(rule, "where a model accepts one value for all its compositions (`if (X.size() == 1)`), X is grown to compositions.size() "
                   "with that one value as the fill (`X.resize(n, X[0])`, the value read before the resize): every composition gets "
                   "the listed bound, none a default of 0")
    n = 0
    for F in sorted(P.funcs.values(), key=lambda f: f.key):
        if F.body is None or F.name != "parse_entries" or "Models::" not in F.qn:
            continue
        for x in F.walk():
            if x.get("k") != "IfStmt":
                continue
            c = sc(x["c"][0])
            if not (c.get("k") == "BinaryOperator" and c.get("op") == "==" and sc(c["c"][1]).get("v") == 1):
                continue
            mc = astq.member_call(P, c["c"][0], "size")
            if not mc or not astq.is_this_field(P, mc[0]):
                continue
            fld = sc(mc[0])
            n += 1
            rs = [y for y in F.walk(x["c"][1]) if astq.member_call(P, y, "resize") and astq.is_this_field(P, astq.member_call(P, y, "resize")[0], fld.get("n"))]
            good = False
            why = "no resize of %s in the broadcast branch" % fld.get("n")
            if len(rs) == 1:
                args = astq.member_call(P, rs[0], "resize")[2]
                args = [a for a in args if a is not None and a.get("k") != "CXXDefaultArgExpr"]
                if len(args) < 2:
                    why = "%s.resize(%s) has no fill value: the added entries are 0" % (fld.get("n"), norm.render(P, args[0], nocast=True) if args else "")
                else:
                    v = sc(args[1])
                    if v.get("k") == "DeclRefExpr":
                        for d in F.walk(x["c"][1]):
                            if d.get("k") == "VarDecl" and d.get("r") == v.get("r") and d.get("c"):
                                v = sc(d["c"][0])
                    sub = astq.subscript(v)
                    if sub is not None and astq.is_this_field(P, sub[0], fld.get("n")) and sc(sub[1]).get("v") == 0 and "compositions.size()" in norm.render(P, args[0], nocast=True).replace(" ", ""):
                        good = True
                    else:
                        why = "%s is resized to %s with fill %s" % (fld.get("n"), norm.render(P, args[0], nocast=True), norm.render(P, args[1], nocast=True))
            if good:
                rep.ok(rule, "%s: %s broadcast as resize(compositions.size(), %s[0])" % (F.qn.split("Features::")[-1], fld.get("n"), fld.get("n")), F.nloc(x), F.qn)
            else:
                rep.violation(rule, "%s: %s" % (F.qn.split("Features::")[-1], why), F.nloc(x), F.qn, norm.render(P, x["c"][1])[:160],
                              "compositions after the first do not get the listed value", key="%s|%s|%s" % (rule, F.qn, fld.get("n")),
                              witness="several compositions with one shared bound")
    rep.floor(rule, n, 2, "single-value broadcasts")
