"""SEG -- one segment of the slab-frame kernel (Utilities::distance_point_from_curved_planes) equals the elementary
construction: a straight line for equal top and bottom dip, a circular arc for a dip that varies along the segment.
The two branches of the per-segment step are evaluated symbolically (veceval) on a generic begin point, dip, length and
check point, and compared with the closed forms of the construction by computer algebra."""
import sympy as sp

from .. import astq, norm
from ..astq import sc
from ..tu import AnalysisBroken
from .veceval import VecEval, EPS

KERNEL = "WorldBuilder::Utilities::distance_point_from_curved_planes"
ANCHORS = ["new_distance", "new_along_plane_distance", "new_depth_reference_surface", "begin_segment", "end_segment", "check_point_2d",
           "interpolated_angle_top", "interpolated_angle_bottom", "interpolated_segment_length", "start_radius",
           "difference_in_angle_along_segment"]


def _zero(e):
    try:
        e = sp.simplify(sp.expand_trig(sp.expand(e)))
        return e == 0
    except Exception:
        return False


def _setup(P, rep, rule):
    F = P.func(KERNEL)
    keys = {}
    for n in F.walk(F.body):
        if n.get("k") == "VarDecl" and n.get("n") in ANCHORS:
            keys.setdefault(n["n"], n["r"])
    for pk in F.params:
        if P.d(pk).get("n") in ANCHORS:
            keys.setdefault(P.d(pk)["n"], pk)
    miss = [a for a in ANCHORS if a not in keys]
    if miss:
        rep.unknown(rule, "distance_point_from_curved_planes: the variables %s this rule is written over no longer exist (renamed?)" % miss)
        return None
    # the per-segment step: the if/else inside a for loop whose two arms both assign the three per-segment results
    cands = []
    for s in F.walk(F.body):
        if s.get("k") == "IfStmt" and len(s.get("c") or []) > 2 and s["c"][2] is not None:
            def assigns(arm):
                got = set()
                for y in F.walk(arm):
                    if y.get("k") in ("BinaryOperator",) and y.get("op") == "=":
                        t = sc(y["c"][0])
                        if t.get("k") == "DeclRefExpr" and t.get("r") in (keys["new_distance"], keys["new_along_plane_distance"], keys["new_depth_reference_surface"]):
                            got.add(t["r"])
                return got
            if len(assigns(s["c"][1])) == 3 and len(assigns(s["c"][2])) == 3 and astq.enclosing(F, s, ("ForStmt",)) is not None:
                cands.append(s)
    # the outermost such statement
    cands = [s for s in cands if not any(o is not s and any(y is s for y in F.walk(o)) for o in cands)]
    if len(cands) != 1:
        rep.unknown(rule, "distance_point_from_curved_planes: the line/arc step of the segment loop was not identified (%d candidates)" % len(cands))
        return None
    step = cands[0]
    loop = astq.enclosing(F, step, ("ForStmt",))
    # begin_segment = end_segment precedes the step in the loop body (each segment starts where the previous one ended)
    body = astq.stmts_of(loop["c"][-1])
    handed = False
    for st in body:
        if st is step or any(y is step for y in F.walk(st)):
            break
        for y in F.walk(st):
            if y.get("k") in ("BinaryOperator", "CXXOperatorCallExpr") and y.get("op") == "=":
                kids = [x for x in y["c"] if x is not None]
                if astq.is_ref_to(kids[-2], keys["begin_segment"]) and astq.is_ref_to(kids[-1], keys["end_segment"]):
                    handed = True
    return F, keys, step, loop, handed


def straight_segment(P, rep, rule="SEG.line"):
    rep.rule(rule, "a segment with equal top and bottom dip theta and length L that starts at B ends at B + L*(cos theta, -sin theta); for a "
                   "check point C with D = C - B, d = (cos theta, -sin theta), n = (sin theta, cos theta): the point is attributed to the segment "
                   "iff 0 <= D.d <= L (closed), the distance below the surface is -(D.n), the distance along it D.d, the reference depth "
                   "start_radius - (B_y - (D.d) sin theta); otherwise all three are +infinity. Each segment starts where the previous one ended")
    su = _setup(P, rep, rule)
    if su is None:
        return
    F, K, step, loop, handed = su
    if not handed:
        rep.violation(rule, "the segment loop does not start a segment at the end of the previous one (begin_segment = end_segment)", F.nloc(loop), F.qn, "",
                      "segments are not chained", key=rule + "|chain", witness="a slab with two segments of different dip")
    bx, by, cx, cy, th, R = sp.symbols("bx by cx cy theta R", real=True)
    L = sp.Symbol("L", positive=True)
    d = (sp.cos(th), -sp.sin(th))
    nrm = (sp.sin(th), sp.cos(th))
    D = (cx - bx, cy - by)
    Dd = D[0] * d[0] + D[1] * d[1]
    Dn = D[0] * nrm[0] + D[1] * nrm[1]
    results = {}
    for accepted in (True, False):
        for below in (True, False):
            if not accepted and not below:
                continue
            conds = []

            def choose(cv, node, accepted=accepted, below=below):
                txt = str(cv)
                fs = cv.free_symbols
                # the segment is long enough to be built
                if fs <= {L, EPS} and L in fs:
                    return True if cv.subs({L: 1, EPS: sp.Rational(1, 10 ** 15)}) == sp.true else False
                if isinstance(cv, (sp.Or, sp.And)) or (cx in fs or cy in fs):
                    conds.append((cv, node))
                    if isinstance(cv, sp.Or):
                        return not accepted          # the rejection test `c1 < 0 || c2 < c1`
                    if isinstance(cv, sp.And):
                        return accepted
                    return below if len(conds) > 1 or accepted else None
                return None
            env = {K["begin_segment"]: (bx, by), K["end_segment"]: (bx, by), K["check_point_2d"]: (cx, cy), K["interpolated_angle_top"]: th,
                   K["interpolated_segment_length"]: L, K["start_radius"]: R}
            # named constants defined before the step inside the loop (degree_90_to_rad)
            V = VecEval(P, F, env=env, choose=choose)
            for st in astq.stmts_of(loop["c"][-1]):
                if st is step:
                    break
                if st.get("k") == "DeclStmt":
                    for v in st["c"]:
                        if v.get("k") == "VarDecl" and v.get("c") and v["r"] not in env and norm.is_arith(v.get("t", "")):
                            try:
                                val = VecEval(P, F, env={}).ev(v["c"][0])
                                if not val.free_symbols:
                                    V.env[v["r"]] = val
                            except AnalysisBroken:
                                pass
            try:
                V.stmt(step["c"][1])
            except AnalysisBroken as e:
                rep.unknown(rule, "straight branch: %s" % e)
                return
            results[(accepted, below)] = (V, list(conds))
    ok = True

    def bad(what, got, want, key, witness="a slab with one straight segment, dip 30 degrees, and a point 10 km below its surface"):
        nonlocal ok
        ok = False
        rep.violation(rule, "straight segment: %s is %s" % (what, str(got)[:120]), F.nloc(step), F.qn, str(got)[:140], "expected %s" % want,
                      key="%s|%s" % (rule, key), witness=witness)
    V, conds = results[(True, True)]
    e = V.env[K["end_segment"]]
    if not (_zero(e[0] - (bx + L * sp.cos(th))) and _zero(e[1] - (by - L * sp.sin(th)))):
        bad("the end point", e, "B + L*(cos theta, -sin theta)", "end")
    # the acceptance test
    rej = [cv for (cv, nd) in conds if isinstance(cv, (sp.Or, sp.And))]
    if len(rej) != 1:
        rep.unknown(rule, "straight branch: the attribution test was not identified")
        return
    rj = rej[0]
    want_rej = sp.Or(sp.Lt(L * Dd, 0), sp.Lt(L ** 2, L * Dd))
    atoms = []
    for a in (rj.args if isinstance(rj, sp.Or) else [rj]):
        if isinstance(a, (sp.Lt, sp.Gt, sp.Le, sp.Ge)):
            lhs, rhs = a.args
            strict = isinstance(a, (sp.Lt, sp.Gt))
            diff = (rhs - lhs) if isinstance(a, (sp.Lt, sp.Le)) else (lhs - rhs)     # diff > 0 (or >= 0)
            atoms.append((sp.simplify(sp.expand_trig(sp.expand(diff))), strict))
    wanted = [sp.simplify(sp.expand(-L * Dd)), sp.simplify(sp.expand(L * Dd - L ** 2))]
    got_ok = isinstance(rj, sp.Or) and len(atoms) == 2 and all(st for _, st in atoms) and \
        all(any(_zero(a - w) for a, _ in atoms) for w in wanted)
    if not got_ok:
        bad("the rejection test", rj, "c1 < 0 || c2 < c1 with c1 = L*(D.d), c2 = L^2, i.e. attribution on the closed range 0 <= D.d <= L", "accept",
            witness="a point whose foot is exactly at the end of a segment")
    for below in (True, False):
        V, conds = results[(True, below)]
        side = [cv for (cv, nd) in conds if not isinstance(cv, (sp.Or, sp.And))]
        nd_ = V.env[K["new_distance"]]
        want = -Dn
        # on this side of the line the sign of D.n is known: |D.n| = +-D.n
        if not _zero(nd_ ** 2 - Dn ** 2):
            bad("the distance", nd_, "+-|D.n|", "distance")
            break
        if side:
            sv = side[-1]
            lhs, rhs = sv.args
            cross = sp.simplify(sp.expand_trig(sp.expand(lhs - rhs)))
            # the side test must be `L*(D.n) > 0` up to a positive factor, in the form cross < 0 with cross = -L*(D.n)
            if not (isinstance(sv, sp.Lt) and _zero(cross + L * Dn)) and not (isinstance(sv, sp.Gt) and _zero(cross - L * Dn)):
                bad("the side test", sv, "(B-E) x (C-B) < 0, i.e. D.n > 0 (point above the surface) gives the negative sign", "side")
                break
    V, _ = results[(True, True)]
    Vn, _ = results[(True, False)]
    al = V.env[K["new_along_plane_distance"]]
    if not _zero(al ** 2 - Dd ** 2):
        bad("the distance along the surface", al, "|D.d|", "along")
    dr = V.env[K["new_depth_reference_surface"]]
    if not _zero(dr - (R - (by - Dd * sp.sin(th)))):
        bad("the reference depth", dr, "start_radius - (B_y - (D.d) sin theta)", "depthref")
    # the signs of the two factors
    dist_t, dist_f = V.env[K["new_distance"]], Vn.env[K["new_distance"]]
    if ok and not _zero(dist_t + dist_f):
        bad("the sign factor", (dist_t, dist_f), "opposite signs on the two sides of the surface", "sign")
    if ok:
        # which one is negative: substitute a point above the surface of a horizontal segment (theta = 0, C = B + (L/2, +1)): D.n = 1 > 0
        sub = {th: 0, bx: 0, by: 0, cx: sp.Rational(1, 2), cy: 1, L: 1, R: 0}
        side = [cv for (cv, nd) in results[(True, True)][1] if not isinstance(cv, (sp.Or, sp.And))]
        if side:
            truth = bool(side[-1].subs(sub))
            val = (dist_t if truth else dist_f).subs(sub)
            if not (val < 0):
                bad("the sign of the distance", val, "negative above the surface, positive below", "signconv")
    Vr, _ = results[(False, True)]
    for nm in ("new_distance", "new_along_plane_distance", "new_depth_reference_surface"):
        if Vr.env.get(K[nm]) != sp.oo:
            bad("%s of a point outside the segment's range" % nm, Vr.env.get(K[nm]), "+infinity", "reject-" + nm, witness="a point beyond the end of the last segment")
    if ok:
        rep.ok(rule, "straight segment: end point, closed attribution range, signed distance -(D.n), along distance D.d and reference depth equal the planar construction",
               F.nloc(step), F.qn)


def arc_segment(P, rep, rule="SEG.arc"):
    rep.rule(rule, "a segment whose dip changes linearly from theta_t to theta_b (Delta = theta_t - theta_b, s = sign Delta) over the length L is the "
                   "circular arc of radius r = L/|Delta| about O = B + s*r*(sin theta_t, cos theta_t) (the point at distance r on the normal at B; also "
                   "in the special cases theta_t = 90 and 270 degrees); it ends at O + Rot(Delta)(B - O); for a check point C = O + rho*(-sin a, cos a) "
                   "the dip of the surface on its radial is phi = pi - a (s > 0) or 2 pi - a (s < 0); the point is attributed to the segment iff phi "
                   "lies between theta_b and theta_t (closed, tolerance <= 1e-8), the distance below the surface is s*(rho - r), the distance along it "
                   "r*|theta_t - phi|, the reference depth start_radius - (O_y + r cos a); otherwise the three results keep the value they had")
    su = _setup(P, rep, rule)
    if su is None:
        return
    F, K, step, loop, handed = su
    bx, by, th, tb, R, alpha = sp.symbols("bx by theta_t theta_b R alpha", real=True)
    L = sp.Symbol("L", positive=True)
    rho = sp.Symbol("rho", positive=True)
    INIT = {K["new_distance"]: sp.Symbol("nd0"), K["new_along_plane_distance"]: sp.Symbol("na0"), K["new_depth_reference_surface"]: sp.Symbol("nr0")}
    n_ok = 0
    n_paths = 0
    for s in (1, -1):
        for case, tval in (("general", None), ("90 degrees", sp.pi / 2), ("270 degrees", 3 * sp.pi / 2)):
            for accepted in (True, False):
                n_paths += 1
                tht = th if tval is None else tval
                delta = tht - tb
                r = L / (s * delta)                      # = L/|Delta| on this path
                O = (bx + s * r * sp.sin(tht), by + s * r * sp.cos(tht))
                C = (O[0] - rho * sp.sin(alpha), O[1] + rho * sp.cos(alpha))
                # a sample point of this region decides the branches; the results are compared symbolically
                t_s = sp.Rational(9, 10) if tval is None else tval
                tb_s = t_s - s * sp.Rational(1, 5)
                phi_s = t_s - s * (sp.Rational(1, 10) if accepted else -sp.Rational(1, 2))
                a_s = (sp.pi - phi_s) if s > 0 else (2 * sp.pi - phi_s)
                sample = {bx: 0, by: 0, R: 0, L: 1, tb: tb_s, rho: 5 + sp.Rational(3, 10), alpha: a_s, EPS: sp.Rational(1, 10 ** 15)}
                if tval is None:
                    sample[th] = t_s

                def choose(cv, node, sample=sample):
                    try:
                        v = cv.subs(sample)
                        v = v.subs({sy: 0 for sy in v.free_symbols}) if getattr(v, "free_symbols", None) else v
                        if v in (sp.true, sp.false):
                            return v is sp.true or v == sp.true
                        return bool(v)
                    except Exception:
                        return None
                env = {K["begin_segment"]: (bx, by), K["end_segment"]: (bx, by), K["check_point_2d"]: C, K["interpolated_angle_top"]: tht,
                       K["interpolated_angle_bottom"]: tb, K["interpolated_segment_length"]: L, K["start_radius"]: R,
                       K["difference_in_angle_along_segment"]: delta}
                env.update(INIT)
                V = VecEval(P, F, env=env, choose=choose)
                try:
                    V.stmt(step["c"][2])
                except AnalysisBroken as e:
                    rep.unknown(rule, "arc branch (%s, Delta %s 0): %s" % (case, ">" if s > 0 else "<", e))
                    return
                path = "%s, Delta %s 0, %s" % (case, ">" if s > 0 else "<", "attributed" if accepted else "not attributed")

                def bad(what, got, want, key):
                    rep.violation(rule, "arc segment (%s): %s is %s" % (path, what, str(got)[:110]), F.nloc(step), F.qn, str(got)[:140], "expected %s" % want,
                                  key="%s|%s" % (rule, key), witness="a slab segment whose dip changes from 20 to 60 degrees, and a point 10 km below its surface")
                good = True
                # on this path acos(cos a) is a (0 <= a <= pi, left of the centre) or 2 pi - a
                a_num = float(a_s)
                inv = alpha if a_num <= float(sp.pi) else 2 * sp.pi - alpha

                def norm_(e):
                    e = sp.simplify(sp.expand_trig(sp.expand(e))) if not e.has(sp.acos) else e
                    if e.has(sp.acos):
                        def fix(x):
                            arg = sp.simplify(x.args[0])
                            if _zero(arg - sp.cos(alpha)):
                                return inv
                            return x
                        e = e.replace(lambda x: isinstance(x, sp.acos), fix)
                        e = sp.simplify(sp.expand_trig(sp.expand(e)))
                    return e
                e = V.env[K["end_segment"]]
                BO = (bx - O[0], by - O[1])
                want_e = (sp.cos(delta) * BO[0] - sp.sin(delta) * BO[1] + O[0], sp.sin(delta) * BO[0] + sp.cos(delta) * BO[1] + O[1])
                if not (_zero(e[0] - want_e[0]) and _zero(e[1] - want_e[1])):
                    bad("the end point", e, "O + Rot(Delta)(B - O) with O = B + s*r*(sin theta_t, cos theta_t)", "end")
                    good = False
                phi = (sp.pi - alpha) if s > 0 else (2 * sp.pi - alpha)
                if accepted:
                    nd = norm_(V.env[K["new_distance"]])
                    if not _zero(nd - s * (rho - r)):
                        bad("the distance", nd, "s*(rho - r): positive below the surface", "distance")
                        good = False
                    na = norm_(V.env[K["new_along_plane_distance"]])
                    if not _zero(na - s * r * (tht - phi)):
                        bad("the distance along the surface", na, "r*|theta_t - phi|", "along")
                        good = False
                    nr = norm_(V.env[K["new_depth_reference_surface"]])
                    if not _zero(nr - (R - (O[1] + r * sp.cos(alpha)))):
                        bad("the reference depth", nr, "start_radius - (O_y + r cos a)", "depthref")
                        good = False
                else:
                    for nm in ("new_distance", "new_along_plane_distance", "new_depth_reference_surface"):
                        if V.env[K[nm]] != INIT[K[nm]]:
                            bad("%s of a point outside the segment's angular range" % nm, V.env[K[nm]], "unchanged (+infinity from the start of the step)", "reject-" + nm)
                            good = False
                # the attribution test: closed interval between theta_b and theta_t in the right order, tolerances tiny
                acc = [cv for (cv, t) in V.trace if isinstance(cv, (sp.Or, sp.And)) and cv.has(tb)]
                if len(acc) != 1:
                    rep.unknown(rule, "arc branch (%s): the attribution test was not identified" % path)
                    return
                cvn = acc[0]
                tol_bad = []

                def atom(x):
                    # tolerance atoms |phi - theta| < c  ->  false (checked separately); order atoms are kept
                    if isinstance(x, (sp.Lt, sp.Le)) and x.args[0].has(sp.Abs) and x.args[1].is_number:
                        if float(x.args[1]) > 1e-8:
                            tol_bad.append(x.args[1])
                        return sp.false
                    return x
                stripped = cvn.replace(lambda x: isinstance(x, (sp.Lt, sp.Le, sp.Gt, sp.Ge)), atom)
                phic = norm_(phi)
                # evaluate the stripped test on the path's sign of Delta, at phi inside / at the ends / outside
                def holds(phival):
                    sub = dict(sample)
                    a_v = (sp.pi - phival) if s > 0 else (2 * sp.pi - phival)
                    sub[alpha] = a_v
                    v = stripped.subs(sub)
                    try:
                        return bool(v)
                    except Exception:
                        return None
                lo_, hi_ = min(t_s, tb_s), max(t_s, tb_s)
                # the side on which the radial of a point lies is decided by the branch `x <= O_x`; near the ends stay on this path's side
                probes = {"inside": ((lo_ + hi_) / 2, True), "at theta_t": (t_s, True), "at theta_b": (tb_s, True),
                          "beyond theta_t": (t_s + s * sp.Rational(1, 20), False), "beyond theta_b": (tb_s - s * sp.Rational(1, 20), False)}
                if accepted:
                    for nm, (pv, want) in probes.items():
                        # evaluate the recorded condition value: it contains acos(...) of the sample geometry
                        got = holds(pv)
                        if got is None:
                            continue
                        if got != want:
                            bad("the attribution test at phi %s" % nm, cvn, "theta_b <= phi <= theta_t (closed, in the order given by the sign of Delta)", "accept")
                            good = False
                            break
                    if tol_bad:
                        bad("a tolerance of the attribution test", tol_bad[0], "at most 1e-8 rad", "tolerance")
                        good = False
                if good:
                    n_ok += 1
    if n_ok == n_paths:
        rep.ok(rule, "arc segment: centre, end point, attribution range, signed distance, along distance and reference depth equal the circular construction on %d paths "
                     "(3 centre cases x sign of the dip change x attributed / not)" % n_paths, F.nloc(step), F.qn)
    rep.floor(rule, n_paths, 12, "paths of the arc step")
