"""SEG -- one segment of the slab-frame kernel (Utilities::distance_point_from_curved_planes) equals the elementary
construction: a straight line for equal top and bottom dip, a circular arc for a dip that varies along the segment.
The two branches of the per-segment step are evaluated symbolically (veceval) on a generic begin point, dip, length and
check point, and compared with the closed forms of the construction by computer algebra."""
import sympy as sp

from .. import astq, norm
from ..astq import sc
from ..tu import AnalysisBroken
from .veceval import VecEval, EPS

KERNEL = "WorldBuilder::Utilities::distance_point_from_curved_planes"
ANCHORS = ["new_distance", "new_along_plane_distance", "new_depth_reference_surface", "begin_segment", "end_segment", "check_point_2d",
           "interpolated_angle_top", "interpolated_angle_bottom", "interpolated_segment_length", "start_radius",
           "difference_in_angle_along_segment"]


def _zero(e):
    try:
        e = sp.simplify(sp.expand_trig(sp.expand(e)))
        return e == 0
    except Exception:
        return False


def _setup(P, rep, rule):
    F = P.func(KERNEL)
    keys = {}
    for n in F.walk(F.body):
        if n.get("k") == "VarDecl" and n.get("n") in ANCHORS:
            keys.setdefault(n["n"], n["r"])
    for pk in F.params:
        if P.d(pk).get("n") in ANCHORS:
            keys.setdefault(P.d(pk)["n"], pk)
    miss = [a for a in ANCHORS if a not in keys]
    if miss:
        rep.unknown(rule, "distance_point_from_curved_planes: the variables %s this rule is written over no longer exist (renamed?)" % miss)
        return None
    # the per-segment step: the if/else inside a for loop whose two arms both assign the three per-segment results
    cands = []
    for s in F.walk(F.body):
        if s.get("k") == "IfStmt" and len(s.get("c") or []) > 2 and s["c"][2] is not None:
            def assigns(arm):
                got = set()
                for y in F.walk(arm):
                    if y.get("k") in ("BinaryOperator",) and y.get("op") == "=":
                        t = sc(y["c"][0])
                        if t.get("k") == "DeclRefExpr" and t.get("r") in (keys["new_distance"], keys["new_along_plane_distance"], keys["new_depth_reference_surface"]):
                            got.add(t["r"])
                return got
            if len(assigns(s["c"][1])) == 3 and len(assigns(s["c"][2])) == 3 and astq.enclosing(F, s, ("ForStmt",)) is not None:
                cands.append(s)
    # the outermost such statement
    cands = [s for s in cands if not any(o is not s and any(y is s for y in F.walk(o)) for o in cands)]
    if len(cands) != 1:
        rep.unknown(rule, "distance_point_from_curved_planes: the line/arc step of the segment loop was not identified (%d candidates)" % len(cands))
        return None
    step = cands[0]
    loop = astq.enclosing(F, step, ("ForStmt",))
    # begin_segment = end_segment precedes the step in the loop body (each segment starts where the previous one ended)
    body = astq.stmts_of(loop["c"][-1])
    handed = False
    for st in body:
        if st is step or any(y is step for y in F.walk(st)):
            break
        for y in F.walk(st):
            if y.get("k") in ("BinaryOperator", "CXXOperatorCallExpr") and y.get("op") == "=":
                kids = [x for x in y["c"] if x is not None]
                if astq.is_ref_to(kids[-2], keys["begin_segment"]) and astq.is_ref_to(kids[-1], keys["end_segment"]):
                    handed = True
    return F, keys, step, loop, handed


def straight_segment(P, rep, rule="SEG.line"):
    rep.rule(rule, "a segment with equal top and bottom dip theta and length L that starts at B ends at B + L*(cos theta, -sin theta); for a "
                   "check point C with D = C - B, d = (cos theta, -sin theta), n = (sin theta, cos theta): the point is attributed to the segment "
                   "iff 0 <= D.d <= L (closed), the distance below the surface is -(D.n), the distance along it D.d, the reference depth "
                   "start_radius - (B_y - (D.d) sin theta); otherwise all three are +infinity. Each segment starts where the previous one ended")
    su = _setup(P, rep, rule)
    if su is None:
        return
    F, K, step, loop, handed = su
    if not handed:
        rep.violation(rule, "the segment loop does not start a segment at the end of the previous one (begin_segment = end_segment)", F.nloc(loop), F.qn, "",
                      "segments are not chained", key=rule + "|chain", witness="a slab with two segments of different dip")
    bx, by, cx, cy, th, R = sp.symbols("bx by cx cy theta R", real=True)
    L = sp.Symbol("L", positive=True)
    d = (sp.cos(th), -sp.sin(th))
    nrm = (sp.sin(th), sp.cos(th))
    D = (cx - bx, cy - by)
    Dd = D[0] * d[0] + D[1] * d[1]
    Dn = D[0] * nrm[0] + D[1] * nrm[1]
    results = {}
    for accepted in (True, False):
        for below in (True, False):
            if not accepted and not below:
                continue
            conds = []

            def choose(cv, node, accepted=accepted, below=below):
                txt = str(cv)
                fs = cv.free_symbols
                # the segment is long enough to be built
                if fs <= {L, EPS} and L in fs:
                    return True if cv.subs({L: 1, EPS: sp.Rational(1, 10 ** 15)}) == sp.true else False
                if isinstance(cv, (sp.Or, sp.And)) or (cx in fs or cy in fs):
                    conds.append((cv, node))
                    if isinstance(cv, sp.Or):
                        return not accepted          # the rejection test `c1 < 0 || c2 < c1`
                    if isinstance(cv, sp.And):
                        return accepted
                    return below if len(conds) > 1 or accepted else None
                return None
            env = {K["begin_segment"]: (bx, by), K["end_segment"]: (bx, by), K["check_point_2d"]: (cx, cy), K["interpolated_angle_top"]: th,
                   K["interpolated_segment_length"]: L, K["start_radius"]: R}
            # named constants defined before the step inside the loop (degree_90_to_rad)
            V = VecEval(P, F, env=env, choose=choose)
            for st in astq.stmts_of(loop["c"][-1]):
                if st is step:
                    break
                if st.get("k") == "DeclStmt":
                    for v in st["c"]:
                        if v.get("k") == "VarDecl" and v.get("c") and v["r"] not in env and norm.is_arith(v.get("t", "")):
                            try:
                                val = VecEval(P, F, env={}).ev(v["c"][0])
                                if not val.free_symbols:
                                    V.env[v["r"]] = val
                            except AnalysisBroken:
                                pass
            try:
                V.stmt(step["c"][1])
            except AnalysisBroken as e:
                rep.unknown(rule, "straight branch: %s" % e)
                return
            results[(accepted, below)] = (V, list(conds))
    ok = True

    def bad(what, got, want, key, witness="a slab with one straight segment, dip 30 degrees, and a point 10 km below its surface"):
        nonlocal ok
        ok = False
        rep.violation(rule, "straight segment: %s is %s" % (what, str(got)[:120]), F.nloc(step), F.qn, str(got)[:140], "expected %s" % want,
                      key="%s|%s" % (rule, key), witness=witness)
    V, conds = results[(True, True)]
    e = V.env[K["end_segment"]]
    if not (_zero(e[0] - (bx + L * sp.cos(th))) and _zero(e[1] - (by - L * sp.sin(th)))):
        bad("the end point", e, "B + L*(cos theta, -sin theta)", "end")
    # the acceptance test
    rej = [cv for (cv, nd) in conds if isinstance(cv, (sp.Or, sp.And))]
    if len(rej) != 1:
        rep.unknown(rule, "straight branch: the attribution test was not identified")
        return
    rj = rej[0]
    want_rej = sp.Or(sp.Lt(L * Dd, 0), sp.Lt(L ** 2, L * Dd))
    atoms = []
    for a in (rj.args if isinstance(rj, sp.Or) else [rj]):
        if isinstance(a, (sp.Lt, sp.Gt, sp.Le, sp.Ge)):
            lhs, rhs = a.args
            strict = isinstance(a, (sp.Lt, sp.Gt))
            diff = (rhs - lhs) if isinstance(a, (sp.Lt, sp.Le)) else (lhs - rhs)     # diff > 0 (or >= 0)
            atoms.append((sp.simplify(sp.expand_trig(sp.expand(diff))), strict))
    wanted = [sp.simplify(sp.expand(-L * Dd)), sp.simplify(sp.expand(L * Dd - L ** 2))]
    got_ok = isinstance(rj, sp.Or) and len(atoms) == 2 and all(st for _, st in atoms) and \
        all(any(_zero(a - w) for a, _ in atoms) for w in wanted)
    if not got_ok:
        bad("the rejection test", rj, "c1 < 0 || c2 < c1 with c1 = L*(D.d), c2 = L^2, i.e. attribution on the closed range 0 <= D.d <= L", "accept",
            witness="a point whose foot is exactly at the end of a segment")
    for below in (True, False):
        V, conds = results[(True, below)]
        side = [cv for (cv, nd) in conds if not isinstance(cv, (sp.Or, sp.And))]
        nd_ = V.env[K["new_distance"]]
        want = -Dn
        # on this side of the line the sign of D.n is known: |D.n| = +-D.n
        if not _zero(nd_ ** 2 - Dn ** 2):
            bad("the distance", nd_, "+-|D.n|", "distance")
            break
        if side:
            sv = side[-1]
            lhs, rhs = sv.args
            cross = sp.simplify(sp.expand_trig(sp.expand(lhs - rhs)))
            # the side test must be `L*(D.n) > 0` up to a positive factor, in the form cross < 0 with cross = -L*(D.n)
            if not (isinstance(sv, sp.Lt) and _zero(cross + L * Dn)) and not (isinstance(sv, sp.Gt) and _zero(cross - L * Dn)):
                bad("the side test", sv, "(B-E) x (C-B) < 0, i.e. D.n > 0 (point above the surface) gives the negative sign", "side")
                break
    V, _ = results[(True, True)]
    Vn, _ = results[(True, False)]
    al = V.env[K["new_along_plane_distance"]]
    if not _zero(al ** 2 - Dd ** 2):
        bad("the distance along the surface", al, "|D.d|", "along")
    dr = V.env[K["new_depth_reference_surface"]]
    if not _zero(dr - (R - (by - Dd * sp.sin(th)))):
        bad("the reference depth", dr, "start_radius - (B_y - (D.d) sin theta)", "depthref")
    # the signs of the two factors
    dist_t, dist_f = V.env[K["new_distance"]], Vn.env[K["new_distance"]]
    if ok and not _zero(dist_t + dist_f):
        bad("the sign factor", (dist_t, dist_f), "opposite signs on the two sides of the surface", "sign")
    if ok:
        # which one is negative: substitute a point above the surface of a horizontal segment (theta = 0, C = B + (L/2, +1)): D.n = 1 > 0
        sub = {th: 0, bx: 0, by: 0, cx: sp.Rational(1, 2), cy: 1, L: 1, R: 0}
        side = [cv for (cv, nd) in results[(True, True)][1] if not isinstance(cv, (sp.Or, sp.And))]
        if side:
            truth = bool(side[-1].subs(sub))
            val = (dist_t if truth else dist_f).subs(sub)
            if not (val < 0):
                bad("the sign of the distance", val, "negative above the surface, positive below", "signconv")
    Vr, _ = results[(False, True)]
    for nm in ("new_distance", "new_along_plane_distance", "new_depth_reference_surface"):
        if Vr.env.get(K[nm]) != sp.oo:
            bad("%s of a point outside the segment's range" % nm, Vr.env.get(K[nm]), "+infinity", "reject-" + nm, witness="a point beyond the end of the last segment")
    if ok:
        rep.ok(rule, "straight segment: end point, closed attribution range, signed distance -(D.n), along distance D.d and reference depth equal the planar construction",
               F.nloc(step), F.qn)


def _mp(v):
    import mpmath
    return mpmath.mpf(sp.N(v, 50)) if not isinstance(v, (int, float)) else mpmath.mpf(v)


def _at(e, pt):
    """value of a sympy expression / condition at a point, in 40-digit floating point (no exact symbolic evaluation)"""
    import mpmath
    mpmath.mp.dps = 40
    syms = sorted(e.free_symbols, key=str)
    if any(x not in pt for x in syms):
        raise KeyError("free symbol")
    f = sp.lambdify(syms, e, modules="mpmath")
    return f(*[_mp(pt[x]) for x in syms])


def arc_segment(P, rep, rule="SEG.arc"):
    rep.rule(rule, "a segment whose dip changes linearly from theta_t to theta_b (Delta = theta_t - theta_b, s = sign Delta) over the length L is the "
                   "circular arc of radius r = L/|Delta| about O = B + s*r*(sin theta_t, cos theta_t) (the point at distance r on the normal at B; also "
                   "in the special cases theta_t = 90 and 270 degrees); it ends at O + Rot(Delta)(B - O); for a check point C = O + rho*(-sin a, cos a) "
                   "the dip of the surface on its radial is phi = pi - a (s > 0) or 2 pi - a (s < 0); the point is attributed to the segment iff phi "
                   "lies between theta_b and theta_t (closed), the distance below the surface is s*(rho - r), the distance along it r*|theta_t - phi|, "
                   "the reference depth start_radius - (O_y + r cos a); otherwise the three results keep the value they had.  The branch is "
                   "evaluated symbolically on 14 paths (3 centre cases x sign of Delta x attributed / not; dips are in (0, 180) degrees, so the 270-degree case has no attributed path; plus, for each sign, a dip 2e-7 rad away from 90 degrees and a dip change of 2e-7 rad over 100 km, where the rounding guards of the special cases must no longer apply); each resulting expression is "
                   "compared with its closed form by a 40-digit zero test at 6 points of the path's region (the branch conditions recorded on "
                   "the path are re-checked at every point)")
    su = _setup(P, rep, rule)
    if su is None:
        return
    F, K, step, loop, handed = su
    import random
    bx, by, th, tb, R, alpha = sp.symbols("bx by theta_t theta_b R alpha", real=True)
    L = sp.Symbol("L", positive=True)
    rho = sp.Symbol("rho", positive=True)
    INIT = {K["new_distance"]: sp.Symbol("nd0"), K["new_along_plane_distance"]: sp.Symbol("na0"), K["new_depth_reference_surface"]: sp.Symbol("nr0")}
    n_ok = n_paths = 0
    for s in (1, -1):
        for case, tval, force in (("general", None, {}), ("90 degrees", sp.pi / 2, {}), ("270 degrees", 3 * sp.pi / 2, {}),
                                  # just outside the rounding guards: the general construction must already be in use there
                                  ("2e-7 rad from 90 degrees", None, {"t": sp.pi / 2 + sp.Rational(2, 10 ** 7)}),
                                  ("dip change of 2e-7 rad over 100 km", None, {"u": sp.Rational(2, 10 ** 7), "L": sp.Integer(100000)})):
            for accepted in (True, False):
                if force and not accepted:
                    continue
                if accepted and case == "270 degrees":
                    continue       # dips lie in (0, 180) degrees: only the centre and the end point of this special case are compared
                n_paths += 1
                rnd = random.Random(1000 * n_paths + 7)
                tht = th if tval is None else tval
                delta = tht - tb
                r = L / (s * delta)                      # = L/|Delta| on this path
                O = (bx + s * r * sp.sin(tht), by + s * r * sp.cos(tht))
                C = (O[0] - rho * sp.sin(alpha), O[1] + rho * sp.cos(alpha))
                phi = (sp.pi - alpha) if s > 0 else (2 * sp.pi - alpha)

                def point():
                    Q = lambda a, b: sp.Rational(rnd.randint(int(a * 1000), int(b * 1000)), 1000)
                    t_s = (Q(0.25, 1.25) if rnd.random() < 0.5 else Q(1.9, 2.9)) if tval is None else tval
                    t_s = force.get("t", t_s)
                    u = force.get("u", Q(0.1, 0.6))
                    tb_s = t_s - s * u
                    frac = Q(0.1, 0.9)
                    phi_s = (t_s - s * u * frac) if accepted else (t_s + s * Q(0.1, 0.4) if rnd.random() < 0.5 else tb_s - s * Q(0.1, 0.4))
                    a_s = (sp.pi - phi_s) if s > 0 else (2 * sp.pi - phi_s)
                    L_s = force.get("L", Q(0.5, 3))
                    r_s = L_s / u
                    pt = {bx: Q(-2, 2), by: Q(-2, 2), R: Q(-2, 2), L: L_s, tb: tb_s, rho: r_s * Q(0.6, 1.5), alpha: a_s, EPS: sp.Rational(1, 10 ** 15)}
                    if tval is None:
                        pt[th] = t_s
                    return pt
                sample = point()

                def choose(cv, node, sample=sample):
                    try:
                        return bool(_at(cv, sample))
                    except Exception:
                        return None
                env = {K["begin_segment"]: (bx, by), K["end_segment"]: (bx, by), K["check_point_2d"]: C, K["interpolated_angle_top"]: tht,
                       K["interpolated_angle_bottom"]: tb, K["interpolated_segment_length"]: L, K["start_radius"]: R,
                       K["difference_in_angle_along_segment"]: delta}
                env.update(INIT)
                V = VecEval(P, F, env=env, choose=choose)
                path = "%s, Delta %s 0, %s" % (case, ">" if s > 0 else "<", "attributed" if accepted else "not attributed")
                try:
                    sel = V.ev(step["c"][0])      # the test that selects line or arc is part of the path
                    if bool(_at(sel, sample)):
                        rep.violation(rule, "arc segment (%s): the straight-line construction is used" % path, F.nloc(step), F.qn, norm.render(P, step["c"][0])[:120],
                                      "a dip that changes along the segment is built as a line with the top dip: distances are off by up to L*|Delta|/2",
                                      key="%s|select" % rule, witness="a 300 km segment whose dip changes from 30 to 30.1 degrees")
                        continue
                    V.trace.append((sel, False))
                    V.stmt(step["c"][2])
                except AnalysisBroken as e:
                    rep.unknown(rule, "arc branch (%s): %s" % (path, e))
                    return
                except Exception as e:
                    rep.unknown(rule, "arc branch (%s): %s" % (path, e))
                    return
                # points of the region of this path: same truth value of every recorded condition
                pts = [sample]
                tries = 0
                while len(pts) < 6 and tries < 200:
                    tries += 1
                    pt = point()
                    try:
                        same = all(bool(_at(cv, pt)) == t for (cv, t) in V.trace)
                    except Exception:
                        same = False
                    if same:
                        pts.append(pt)
                if len(pts) < 4:
                    rep.unknown(rule, "arc branch (%s): only %d points of the path's region found" % (path, len(pts)))
                    return

                def same(got, want):
                    if isinstance(got, tuple):
                        return all(same(g, w) for g, w in zip(got, want))
                    for pt in pts:
                        try:
                            d_ = _at(got - want, pt)
                            scale = 1 + abs(_at(want, pt))
                        except Exception:
                            return False
                        if not (abs(d_) < scale * 1e-25):
                            return False
                    return True
                good = True

                def bad(what, got, want, key, path=path):
                    rep.violation(rule, "arc segment (%s): %s is %s" % (path, what, str(got)[:110]), F.nloc(step), F.qn, str(got)[:140], "expected %s" % want,
                                  key="%s|%s" % (rule, key), witness="a slab segment whose dip changes from 20 to 60 degrees, and a point 10 km below its surface")
                BO = (bx - O[0], by - O[1])
                want_e = (sp.cos(delta) * BO[0] - sp.sin(delta) * BO[1] + O[0], sp.sin(delta) * BO[0] + sp.cos(delta) * BO[1] + O[1])
                if not same(V.env[K["end_segment"]], want_e):
                    bad("the end point", V.env[K["end_segment"]], "O + Rot(Delta)(B - O) with O = B + s*r*(sin theta_t, cos theta_t)", "end")
                    good = False
                if accepted:
                    if not same(V.env[K["new_distance"]], s * (rho - r)):
                        bad("the distance", V.env[K["new_distance"]], "s*(rho - r): positive below the surface", "distance")
                        good = False
                    if not same(V.env[K["new_along_plane_distance"]], s * r * (tht - phi)):
                        bad("the distance along the surface", V.env[K["new_along_plane_distance"]], "r*|theta_t - phi|", "along")
                        good = False
                    if not same(V.env[K["new_depth_reference_surface"]], R - (O[1] + r * sp.cos(alpha))):
                        bad("the reference depth", V.env[K["new_depth_reference_surface"]], "start_radius - (O_y + r cos a)", "depthref")
                        good = False
                else:
                    for nm in ("new_distance", "new_along_plane_distance", "new_depth_reference_surface"):
                        if V.env[K[nm]] != INIT[K[nm]]:
                            bad("%s of a point outside the segment's angular range" % nm, V.env[K[nm]], "unchanged (+infinity from the start of the step)", "reject-" + nm)
                            good = False
                # the attribution test at and around the ends of the angular range
                acc = [cv for (cv, t) in V.trace if isinstance(cv, (sp.Or, sp.And)) and cv.has(tb)]
                if len(acc) != 1:
                    rep.unknown(rule, "arc branch (%s): the attribution test was not identified" % path)
                    return
                if accepted:
                    cvn = acc[0]
                    base = dict(sample)
                    t_s = base[th] if tval is None else tval
                    tb_s = base[tb]
                    probes = {"inside": ((t_s + tb_s) / 2, True), "at theta_t": (t_s, True), "at theta_b": (tb_s, True),
                              "beyond theta_t": (t_s + s * sp.Rational(1, 50), False), "beyond theta_b": (tb_s - s * sp.Rational(1, 50), False)}
                    for nm, (pv, want) in probes.items():
                        pt = dict(base)
                        pt[alpha] = (sp.pi - pv) if s > 0 else (2 * sp.pi - pv)
                        try:
                            got = bool(_at(cvn, pt))
                        except Exception:
                            continue
                        if got != want:
                            bad("the attribution test for a point whose radial has the dip %s" % nm, cvn, "theta_b <= phi <= theta_t (closed, in the order given by the sign of Delta)", "accept")
                            good = False
                            break
                if good:
                    n_ok += 1
    if n_ok == n_paths:
        rep.ok(rule, "arc segment: centre, end point, attribution range, signed distance, along distance and reference depth equal the circular construction on %d paths "
                     "(centre cases x sign of the dip change x attributed / not, and just outside the rounding guards)" % n_paths, F.nloc(step), F.qn)
    rep.floor(rule, n_paths, 14, "paths of the arc step")


def frame_axes(P, rep, rule="SEG.frame"):
    rep.rule(rule, "the local 2D frame of the slab kernel: where the horizontal axis is built from the up direction v and the trench direction u "
                   "(check point exactly below the trench line) it is the rotation of v by a quarter turn about u, x = u (u.v) +- u x v "
                   "(Rodrigues' formula with cos = 0, sin = +-1; polynomial identity in the six components); the check point and the start of "
                   "the first segment are projected on the same two axes from the same origin")
    F = P.func(KERNEL)
    miss = astq.missing_anchors(P, F, ["x_axis", "y_axis", "normal_to_plane", "check_point_2d", "begin_segment"])
    if miss:
        rep.unknown(rule, "distance_point_from_curved_planes: the variables %s this rule is written over no longer exist (renamed?)" % miss)
        return
    key = {}
    for n in F.walk(F.body):
        if n.get("k") == "VarDecl" and n.get("n") in ("x_axis", "y_axis", "normal_to_plane", "check_point_2d", "begin_segment"):
            key.setdefault(n["n"], n["r"])
    u = sp.symbols("u0 u1 u2", real=True)
    v = sp.symbols("v0 v1 v2", real=True)
    # (1) x_axis = Point<3>(p0, p1, p2) built from components of y_axis and normal_to_plane
    cands = []
    for y in F.walk(F.body):
        if y.get("k") in ("CXXOperatorCallExpr", "BinaryOperator") and y.get("op") == "=":
            kids = [x for x in y["c"] if x is not None]
            if astq.is_ref_to(kids[-2], key["x_axis"]):
                rhs = sc(kids[-1])
                while rhs is not None and rhs.get("k") in ("MaterializeTemporaryExpr", "CXXBindTemporaryExpr", "ExprWithCleanups", "CXXFunctionalCastExpr") and rhs.get("c"):
                    rhs = sc(rhs["c"][0])
                if rhs is not None and rhs.get("k") in ("CXXTemporaryObjectExpr", "CXXConstructExpr") and "Point<3>" in (rhs.get("t") or ""):
                    args = [a for a in rhs["c"] if a is not None and a.get("k") != "CXXDefaultArgExpr" and "CoordinateSystem" not in (sc(a).get("t") or "")]
                    if len(args) == 3 and any(z.get("k") == "BinaryOperator" and z.get("op") == "*" for a in args for z in F.walk(a)):
                        cands.append((y, rhs))
    if len(cands) != 1:
        rep.unknown(rule, "distance_point_from_curved_planes: %d component-wise constructions of x_axis (1 expected)" % len(cands))
        return
    y, rhs = cands[0]
    V = VecEval(P, F, env={key["y_axis"]: tuple(v), key["normal_to_plane"]: tuple(u)})
    # the shorthand locals in front of it, in the same block
    blk = astq.enclosing(F, y, ("CompoundStmt",))
    try:
        for st in astq.stmts_of(blk):
            if st is y or any(z is y for z in F.walk(st)):
                break
            if st.get("k") == "DeclStmt" and all(d_.get("k") == "VarDecl" and norm.is_arith(d_.get("t", "")) for d_ in st["c"]):
                try:
                    V.stmt(st)
                except AnalysisBroken:
                    pass
        got = V.ev(rhs)
    except AnalysisBroken as e:
        rep.unknown(rule, "x_axis construction: %s" % e)
        return
    dot = sum(a * b for a, b in zip(u, v))
    cross = (u[1] * v[2] - u[2] * v[1], u[2] * v[0] - u[0] * v[2], u[0] * v[1] - u[1] * v[0])
    wants = [tuple(sp.expand(u[i] * dot + sgn * cross[i]) for i in range(3)) for sgn in (1, -1)]
    gote = tuple(sp.expand(g) for g in got)
    if any(all(sp.expand(g - w) == 0 for g, w in zip(gote, want)) for want in wants):
        rep.ok(rule, "x_axis = u (u.v) + u x v: the up direction rotated by a quarter turn about the trench direction", F.nloc(y), F.qn)
    else:
        diffs = [sp.expand(g - w) for g, w in zip(gote, wants[0])]
        comp = [i for i, d_ in enumerate(diffs) if d_ != 0]
        rep.violation(rule, "x_axis is not the quarter-turn rotation of the up direction about the trench direction: component %s differs from u (u.v) + u x v by %s" % (
            comp, [str(diffs[i]) for i in comp][:2]), F.nloc(y), F.qn, norm.render(P, y)[:160],
            "for a point exactly below a spherical trench line the horizontal axis is not perpendicular to the vertical: the distance from the slab surface jumps",
            key="%s|rodrigues" % rule, witness="spherical slab with its trench along the meridian 0 at latitude 45: query exactly below a trench coordinate and 1e-7 degrees next to it")
    # (2) both projections use the same axes and the same origin
    decls = {}
    for n in F.walk(F.body):
        if n.get("k") == "VarDecl" and n.get("r") in (key["check_point_2d"], key["begin_segment"]) and n.get("c"):
            decls[n["n"]] = n
    if len(decls) != 2:
        rep.unknown(rule, "projections of the check point / segment start not found")
        return
    ax = sp.symbols("x0 x1 x2", real=True)
    ay = sp.symbols("y0 y1 y2", real=True)
    forms = {}
    for nm, d_ in decls.items():
        syms = {}

        def pt(name):
            return tuple(sp.Symbol("%s_%d" % (name, i), real=True) for i in range(3))
        env = {key["x_axis"]: ax, key["y_axis"]: ay}
        # every other Point<3> the initialiser mentions becomes a generic point named after its declaration
        for z in F.walk(d_["c"][0]):
            if z.get("k") == "DeclRefExpr" and z["r"] not in env and "Point<3>" in (P.d(z["r"]).get("t") or ""):
                env[z["r"]] = pt(z.get("n"))
        try:
            forms[nm] = VecEval(P, F, env=env).ev(d_["c"][0])
        except AnalysisBroken as e:
            rep.unknown(rule, "projection %s: %s" % (nm, e))
            return
    okp = True
    origin = {}
    for nm, val in forms.items():
        if not (isinstance(val, tuple) and len(val) == 2):
            okp = False
            continue
        # component 0 is x_axis . (A - O), component 1 is y_axis . (A - O) with the same A - O
        d0 = [sp.expand(val[0]).coeff(a) for a in ax]
        d1 = [sp.expand(val[1]).coeff(a) for a in ay]
        if sp.expand(val[0] - sum(a * b for a, b in zip(ax, d0))) != 0 or sp.expand(val[1] - sum(a * b for a, b in zip(ay, d1))) != 0 or \
                any(sp.expand(a - b) != 0 for a, b in zip(d0, d1)):
            okp = False
        origin[nm] = d0
    if okp and len(origin) == 2:
        a_, b_ = origin["check_point_2d"], origin["begin_segment"]
        # (A - O) and (B - O): the difference must not contain the origin
        diff = [sp.expand(x - y_) for x, y_ in zip(a_, b_)]
        sub_syms = set().union(*[d_.free_symbols for d_ in diff])
        common = (set().union(*[x.free_symbols for x in a_])) & (set().union(*[x.free_symbols for x in b_]))
        if not common or (common & sub_syms):
            okp = False
    if okp:
        rep.ok(rule, "check_point_2d and begin_segment are (x_axis . (A - O), y_axis . (A - O)) with one origin O", F.nloc(decls["check_point_2d"]), F.qn)
    else:
        rep.violation(rule, "the check point and the start of the first segment are not projected on the same axes from the same origin", F.nloc(decls["check_point_2d"]), F.qn,
                      str(forms)[:160], "distances in the local frame are offset", key="%s|projection" % rule, witness="any slab")


def sphere_projection(P, rep, rule="GRID.sphere-projection"):
    rep.rule(rule, "gwb-grid project_on_sphere(R, x, y, z) moves the point along its ray from the centre onto the sphere of radius R: the three "
                   "outputs equal R*(x, y, z)/|(x, y, z)| (40-digit zero test of the extracted expressions at points of all eight octants)")
    fs = [F for F in P.funcs.values() if F.qn.endswith("project_on_sphere") and F.body is not None and F.tu.startswith("gwb-grid")]
    if len(fs) != 1 or len(fs[0].params) != 4:
        rep.unknown(rule, "project_on_sphere(radius, x, y, z) not found")
        return
    F = fs[0]
    R, x, y, z = sp.symbols("R x y z", real=True)
    V = VecEval(P, F, env=dict(zip(F.params, (R, x, y, z))))
    try:
        V.run(astq.stmts_of(F.body))
    except AnalysisBroken as e:
        rep.unknown(rule, "project_on_sphere: %s" % e)
        return
    out = [V.env[pk] for pk in F.params[1:]]
    nrm = sp.sqrt(x ** 2 + y ** 2 + z ** 2)
    want = [R * x / nrm, R * y / nrm, R * z / nrm]
    bad = None
    for sx in (1, -1):
        for sy in (1, -1):
            for sz in (1, -1):
                pt = {R: sp.Rational(6371, 1), x: sx * sp.Rational(3, 7), y: sy * sp.Rational(11, 13), z: sz * sp.Rational(5, 9)}
                for i, (g, w) in enumerate(zip(out, want)):
                    try:
                        d_ = _at(g - w, pt)
                    except Exception as e:
                        rep.unknown(rule, "project_on_sphere: %s" % e)
                        return
                    if not abs(d_) < 1e-25:
                        bad = (i, pt, g)
    if bad:
        rep.violation(rule, "project_on_sphere: output %d is %s" % (bad[0], str(bad[2])[:100]), F.loc, F.qn, str(bad[2])[:140], "expected R*p/|p|",
                      key=rule, witness="a sphere grid: nodes are not on their rays / not at the requested radius")
    else:
        rep.ok(rule, "project_on_sphere = R*p/|p| in all octants", F.loc, F.qn)


def bilinear_patch(P, rep, rule="GRID.patch"):
    rep.rule(rule, "gwb-grid lay_points: every node of a sphere block is the bilinear combination N1*P1 + N2*P2 + N3*P3 + N4*P4 of the four block "
                   "corners with one set of weights for x, y and z; the weights are a partition of unity; the lattice parameters reach exactly "
                   "-1 and +1 at i (j) = 0 and level, where the combination reduces to the corners (+-1, +-1) -> P1..P4 in order and to the "
                   "edges, so neighbouring blocks share their edge nodes")
    fs = [F for F in P.funcs.values() if F.qn.endswith("lay_points") and F.body is not None and F.tu.startswith("gwb-grid")]
    if len(fs) != 1 or len(fs[0].params) < 17:
        rep.unknown(rule, "lay_points(12 corner coordinates, x, y, z, hull, level) not found")
        return
    F = fs[0]
    loops = [n for n in F.walk(F.body) if n.get("k") == "ForStmt"]
    loops.sort(key=lambda l: len(list(F.ancestors(l))))
    if len(loops) != 2:
        rep.unknown(rule, "lay_points: %d loops (2 expected)" % len(loops))
        return
    corner = [sp.symbols("x%d y%d z%d" % (k, k, k), real=True) for k in (1, 2, 3, 4)]
    env = {}
    for k in range(4):
        for c_ in range(3):
            env[F.params[3 * k + c_]] = corner[k][c_]
    outs = F.params[12:15]
    level = sp.Symbol("level", positive=True, integer=True)
    env[F.params[16]] = level
    ivs = []
    for l in loops:
        init = l["c"][0]
        iv = init["c"][0] if init is not None and init.get("k") == "DeclStmt" and init["c"] else None
        cond = sc(l["c"][1])
        if iv is None or not iv.get("c") or sc(iv["c"][0]).get("k") != "IntegerLiteral" or int(sc(iv["c"][0])["v"]) != 0 or cond is None or cond.get("op") != "<":
            rep.unknown(rule, "lay_points: loop shape not recognised")
            return
        bound = VecEval(P, F, env=env).ev(cond["c"][1])
        if sp.expand(bound - (level + 1)) != 0:
            rep.violation(rule, "lay_points: a lattice loop runs to %s, not to level + 1" % bound, F.nloc(l), F.qn, "", "blocks do not have (level+1)^2 nodes", key=rule + "|range")
            return
        ivs.append(iv["r"])
    jk, ik = ivs          # outer, inner
    i_s, j_s = sp.symbols("i j", real=True)
    env[ik], env[jk] = i_s, j_s
    V = VecEval(P, F, env=env)
    body = astq.stmts_of(loops[1]["c"][3])
    stores = {}
    # named constants hoisted out of the inner loop: declarations of the function body and of the outer loop body in front of it
    for outer in (astq.stmts_of(F.body), astq.stmts_of(loops[0]["c"][3])):
        for st in outer:
            if st is loops[0] or st is loops[1] or any(z is loops[1] for z in F.walk(st)):
                break
            if st.get("k") == "DeclStmt" and all(d_.get("k") == "VarDecl" and norm.is_arith(d_.get("t", "")) and d_.get("c") for d_ in st["c"]):
                try:
                    V.stmt(st)
                except AnalysisBroken:
                    pass
    try:
        for st in body:
            if st.get("k") == "DeclStmt":
                V.stmt(st)
            elif st.get("k") == "BinaryOperator" and st.get("op") == "=":
                sub = astq.subscript(st["c"][0])
                if sub and sc(sub[0]).get("k") == "DeclRefExpr" and sc(sub[0])["r"] in outs:
                    stores[sc(sub[0])["r"]] = V.ev(st["c"][1])
    except AnalysisBroken as e:
        rep.unknown(rule, "lay_points: %s" % e)
        return
    if set(stores) != set(outs):
        rep.unknown(rule, "lay_points: the three coordinate stores were not found")
        return
    problems = []
    weights = None
    for c_, pk in enumerate(outs):
        e = sp.expand(stores[pk])
        w = [e.coeff(corner[k][c_]) for k in range(4)]
        if sp.expand(e - sum(w[k] * corner[k][c_] for k in range(4))) != 0:
            problems.append("coordinate %d is not a combination of the four corners' coordinate %d" % (c_, c_))
        if weights is None:
            weights = w
        elif any(sp.simplify(a - b) != 0 for a, b in zip(w, weights)):
            problems.append("coordinate %d uses other weights than coordinate 0" % c_)
    if weights is not None and not problems:
        if sp.simplify(sum(weights) - 1) != 0:
            problems.append("the weights sum to %s, not 1" % sp.simplify(sum(weights)))
        for (iv_, jv_, want) in ((0, 0, 0), (level, 0, 1), (level, level, 2), (0, level, 3)):
            ws = [sp.simplify(w.subs({i_s: iv_, j_s: jv_})) for w in weights]
            if ws != [1 if k == want else 0 for k in range(4)]:
                problems.append("at (i, j) = (%s, %s) the weights are %s, not corner P%d" % (iv_, jv_, ws, want + 1))
        # an edge depends on its two corners only
        for (fix, val, pair) in ((j_s, 0, (0, 1)), (i_s, level, (1, 2)), (j_s, level, (2, 3)), (i_s, 0, (3, 0))):
            ws = [sp.simplify(w.subs(fix, val)) for w in weights]
            if any(ws[k] != 0 for k in range(4) if k not in pair):
                problems.append("the edge %s = %s involves a corner that is not on it" % (fix, val))
    if problems:
        rep.violation(rule, "lay_points: %s" % "; ".join(problems[:3]), F.loc, F.qn, "", "sphere blocks do not fit together / nodes are misplaced", key=rule,
                      witness="gwb-grid with grid_type sphere")
    else:
        rep.ok(rule, "lay_points: bilinear patch, partition of unity, corners and edges reproduced", F.loc, F.qn)


def great_circle(P, rep, rule="EXPR.greatcircle"):
    rep.rule(rule, "CoordinateSystems::Spherical::distance_between_points_at_same_depth(p1, p2), p_i = (R, lon_i, lat_i): the value is "
                   "R*acos(clamp(c)) with c = sin(lat1) sin(lat2) + cos(lat1) cos(lat2) cos(lon1 - lon2), the cosine of the central angle "
                   "(the callee spherical_to_cartesian_coordinates is evaluated with the arguments; trigonometric identity); the clamp is "
                   "min(1, max(-1, .)), i.e. the identity on [-1, 1]")
    F = P.func("WorldBuilder::CoordinateSystems::Spherical::distance_between_points_at_same_depth")
    if len(F.params) != 2:
        rep.unknown(rule, "distance_between_points_at_same_depth no longer takes two points")
        return
    R = sp.Symbol("R", positive=True)
    l1, f1, l2, f2 = sp.symbols("lon1 lat1 lon2 lat2", real=True)
    V = VecEval(P, F, env={F.params[0]: (R, l1, f1), F.params[1]: (R, l2, f2)},
                inline=lambda qn: qn.endswith("spherical_to_cartesian_coordinates"))
    try:
        val = V.run_function(astq.stmts_of(F.body))
    except AnalysisBroken as e:
        rep.unknown(rule, "distance_between_points_at_same_depth: %s" % e)
        return
    if val is None:
        rep.unknown(rule, "distance_between_points_at_same_depth: no returned value")
        return
    # val = R * acos(Min(1, Max(-1, c)))
    acs = [a for a in val.atoms(sp.acos)]
    ok = False
    why = str(val)[:120]
    if len(acs) == 1 and sp.simplify(val / acs[0] - R) == 0:
        arg = acs[0].args[0]
        inner = None
        if isinstance(arg, sp.Min) and len(arg.args) == 2 and sp.Integer(1) in arg.args:
            mx = [a for a in arg.args if a != 1][0]
            if isinstance(mx, sp.Max) and len(mx.args) == 2 and sp.Integer(-1) in mx.args:
                inner = [a for a in mx.args if a != -1][0]
        if inner is None:
            why = "the argument of acos is %s, not min(1, max(-1, c))" % str(arg)[:80]
        else:
            want = sp.sin(f1) * sp.sin(f2) + sp.cos(f1) * sp.cos(f2) * sp.cos(l1 - l2)
            if sp.simplify(sp.expand_trig(sp.expand(inner - want))) == 0:
                ok = True
            else:
                why = "the cosine of the central angle is %s" % str(sp.simplify(inner))[:100]
    if ok:
        rep.ok(rule, "same-depth distance = R*acos(clamp(sin lat1 sin lat2 + cos lat1 cos lat2 cos(lon1 - lon2)))", F.loc, F.qn)
    else:
        rep.violation(rule, "distance_between_points_at_same_depth: %s" % why, F.loc, F.qn, str(val)[:140], "expected R*acos(min(1, max(-1, cos of the central angle)))",
                      key=rule, witness="two points 135 degrees apart on the sphere")


def conversion_paths(P, rep, rule="EXPR.conversion.paths"):
    rep.rule(rule, "spherical_to_cartesian_coordinates(cartesian_to_spherical_coordinates(p)) == p on every path of the two functions: they are "
                   "evaluated symbolically at representative points of all eight octants, on the coordinate planes and close to both poles "
                   "(the branch conditions are decided at the representative), and the composed expressions are compared with p by a 40-digit "
                   "zero test at that point and at three more points on which the recorded conditions have the same truth value; the latitude "
                   "must lie in [-pi/2, pi/2]")
    C2S = P.func("WorldBuilder::Utilities::cartesian_to_spherical_coordinates")
    S2C = P.func("WorldBuilder::Utilities::spherical_to_cartesian_coordinates")
    x, y, z = sp.symbols("x y z", real=True)
    Q = sp.Rational
    reps = []
    for sx in (1, -1):
        for sy in (1, -1):
            for sz in (1, -1):
                reps.append(("octant %+d%+d%+d" % (sx, sy, sz), (sx * Q(3, 7), sy * Q(11, 13), sz * Q(5, 9))))
                reps.append(("near the %s pole, %+d%+d" % ("north" if sz > 0 else "south", sx, sy), (sx * Q(1, 1000), sy * Q(1, 700), sz * Q(5, 1))))
                reps.append(("very near the %s pole, %+d%+d" % ("north" if sz > 0 else "south", sx, sy), (sx * Q(1, 10 ** 7), sy * Q(3, 10 ** 7), sz * Q(2, 1))))
    reps += [("equatorial plane", (Q(2, 3), Q(-1, 5), Q(0))), ("plane y = 0", (Q(-2, 3), Q(0), Q(1, 5))), ("plane x = 0", (Q(0), Q(4, 3), Q(-1, 5)))]
    n_ok = 0
    seen_paths = set()
    for label, pt0 in reps:
        sample = {x: pt0[0], y: pt0[1], z: pt0[2], EPS: sp.Rational(1, 10 ** 300)}

        def choose(cv, node, sample=sample):
            try:
                return bool(_at(cv, sample))
            except Exception:
                return None
        V = VecEval(P, C2S, env={C2S.params[0]: (x, y, z)}, choose=choose)
        try:
            sph = V.run_function(astq.stmts_of(C2S.body))
            if not (isinstance(sph, tuple) and len(sph) == 3):
                rep.unknown(rule, "cartesian_to_spherical_coordinates does not return three components (%s)" % str(sph)[:60])
                return
            V2 = VecEval(P, S2C, env={S2C.params[0]: sph}, choose=choose)
            back = V2.run_function(astq.stmts_of(S2C.body))
        except AnalysisBroken as e:
            rep.unknown(rule, "%s: %s" % (label, e))
            return
        if not (isinstance(back, tuple) and len(back) == 3):
            rep.unknown(rule, "spherical_to_cartesian_coordinates does not return a point (%s)" % str(back)[:60])
            return
        trace = list(V.trace) + list(V2.trace)
        seen_paths.add(tuple((str(cv), t) for cv, t in trace))
        # more points of the same region: scale the representative (all conditions of these functions are homogeneous or compare ratios)
        pts = [sample]
        for f_ in (Q(7, 3), Q(1, 5), Q(113, 10)):
            cand = {x: pt0[0] * f_, y: pt0[1] * f_, z: pt0[2] * f_, EPS: sample[EPS]}
            try:
                if all(bool(_at(cv, cand)) == t for cv, t in trace):
                    pts.append(cand)
            except Exception:
                pass
        bad = None
        for pt in pts:
            try:
                vals = [_at(b_ - w_, pt) for b_, w_ in zip(back, (x, y, z))]
                lat = _at(sph[2], pt)
            except Exception as e:
                rep.unknown(rule, "%s: %s" % (label, e))
                return
            scale = 1 + float(abs(_mp(pt[x])) + abs(_mp(pt[y])) + abs(_mp(pt[z])))
            if any(not (abs(v_) < scale * 1e-25) for v_ in vals):
                bad = ("the round trip gives (%s)" % ", ".join("%.6g" % float(_at(b_, pt)) for b_ in back), pt)
                break
            import mpmath
            if not (-mpmath.pi / 2 - mpmath.mpf("1e-30") <= lat <= mpmath.pi / 2 + mpmath.mpf("1e-30")):
                bad = ("the latitude is %.6g rad" % float(lat), pt)
                break
        if bad:
            rep.violation(rule, "%s: for p = (%s, %s, %s) %s" % (label, bad[1][x], bad[1][y], bad[1][z], bad[0]), C2S.loc, C2S.qn, str(sph[2])[:120],
                          "spherical_to_cartesian(cartesian_to_spherical(p)) != p on this path", key="%s|%s" % (rule, label.split(",")[0]),
                          witness="a query point in that region")
        else:
            n_ok += 1
    if n_ok == len(reps):
        rep.ok(rule, "round trip exact on %d representatives covering %d distinct paths" % (len(reps), len(seen_paths)), C2S.loc, C2S.qn)
    rep.floor(rule, len(reps), 20, "representative points")
