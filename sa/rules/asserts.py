"""ASSERT — validation discipline (DESIGN §3.7): release-active length checks (A1), parallel arrays
(A2), dead checks and string dispatch (A3/A4), exception types (A5)."""
import re

from .. import astq, norm
from ..astq import sc
from ..tu import AnalysisBroken


class UF:
    def __init__(self):
        self.p = {}

    def find(self, x):
        self.p.setdefault(x, x)
        while self.p[x] != x:
            self.p[x] = self.p[self.p[x]]
            x = self.p[x]
        return x

    def union(self, a, b):
        self.p[self.find(a)] = self.find(b)

    def same(self, a, b):
        return self.find(a) == self.find(b)


def this_vec(P, n):
    """field key if n is `this->V` with V a std::vector member"""
    n = sc(n)
    if n is not None and n.get("k") == "MemberExpr" and astq.is_this_field(P, n) and "vector<" in n.get("t", ""):
        return n["r"]
    return None


def size_of(P, n):
    """field key if n is `this->V.size()`"""
    mc = astq.member_call(P, n, "size")
    if mc:
        return this_vec(P, mc[0])
    return None


def assert_conditions(F, macro):
    """conditions C of `if (!(C)) throw` produced by the given assertion macro in F"""
    out = []
    for n in F.walk():
        if n.get("k") == "IfStmt" and n.get("m") == macro and not n.get("ma"):
            c = sc(n["c"][0])
            if c.get("k") == "UnaryOperator" and c.get("op") == "!":
                out.append((n, sc(c["c"][0])))
            else:
                out.append((n, None))
    return out


def conjuncts(c):
    c = sc(c)
    if c is not None and c.get("k") == "BinaryOperator" and c.get("op") == "&&":
        return conjuncts(c["c"][0]) + conjuncts(c["c"][1])
    return [c]


class Facts:
    def __init__(self):
        self.eq = UF()
        self.minsize = {}     # field key -> int
        self.key_of = {}      # field key -> json key it is parsed from
        self.schema = {}      # json key -> (min, max)
        self.derived = {}     # field key -> how (sized by code)
        self.input = set()    # fields filled from Parameters

    def min_of(self, f):
        best = 0
        root = self.eq.find(f)
        for g, k in self.minsize.items():
            if self.eq.find(g) == root:
                best = max(best, k)
        return best


def literal_int(n):
    n = sc(n)
    if n is not None and n.get("k") == "IntegerLiteral":
        return n["v"]
    return None


def relation_facts(P, c, facts, record=None):
    """facts implied by the truth of condition c (a conjunct)"""
    c = sc(c)
    if c is None:
        return False
    k = c.get("k")
    if k == "BinaryOperator":
        op = c.get("op")
        a, b = c["c"]
        sa, sb = size_of(P, a), size_of(P, b)
        la, lb = literal_int(a), literal_int(b)
        if op == "==" and sa and sb:
            facts.eq.union(sa, sb)
            if record is not None:
                record.append(("eq", sa, sb))
            return True
        if sa and lb is not None:
            m = {"==": lb, ">=": lb, ">": lb + 1, "!=": 1 if lb == 0 else None}.get(op)
            if m is not None:
                facts.minsize[sa] = max(facts.minsize.get(sa, 0), m)
                if record is not None:
                    record.append(("min", sa, m))
                return True
        if sb and la is not None:
            m = {"==": la, "<=": la, "<": la + 1, "!=": 1 if la == 0 else None}.get(op)
            if m is not None:
                facts.minsize[sb] = max(facts.minsize.get(sb, 0), m)
                if record is not None:
                    record.append(("min", sb, m))
                return True
    if k == "UnaryOperator" and c.get("op") == "!":
        mc = astq.member_call(P, c["c"][0], "empty")
        if mc and this_vec(P, mc[0]):
            f = this_vec(P, mc[0])
            facts.minsize[f] = max(facts.minsize.get(f, 0), 1)
            if record is not None:
                record.append(("min", f, 1))
            return True
    return False


def is_size_relation(P, c):
    """does the condition relate the size of a member vector to another size / a constant?"""
    for x in conjuncts(c):
        x = sc(x)
        if x is None:
            continue
        if x.get("k") == "BinaryOperator" and x.get("op") in ("==", ">=", ">", "<=", "<", "!="):
            a, b = x["c"]
            if size_of(P, a) or size_of(P, b):
                return True
        if x.get("k") == "UnaryOperator":
            mc = astq.member_call(P, x["c"][0], "empty")
            if mc and this_vec(P, mc[0]):
                return True
    return False


def ancestors_of(P, cls):
    out = [cls]
    i = 0
    while i < len(out):
        for b in P.records.get(out[i], {}).get("bases", []):
            if b["qn"] not in out:
                out.append(b["qn"])
        i += 1
    return out


def parse_functions(P, cls):
    """parse-time member functions of cls: parse_entries + members it calls on this (+ bases)"""
    out = []
    seen = set()
    work = [f for c in ancestors_of(P, cls) for f in P.funcs_named(c + "::parse_entries")]
    while work:
        F = work.pop()
        if F.key in seen:
            continue
        seen.add(F.key)
        out.append(F)
        for n in F.walk():
            if n.get("k") == "CXXMemberCallExpr":
                me = n["c"][0]
                base = sc(me["c"][0]) if me.get("c") else None
                if base is not None and base.get("k") == "CXXThisExpr":
                    G = P.funcs.get(n.get("callee"))
                    if G is not None and not G.decl.get("const"):
                        work.append(G)
    return out


def string_lit(F, n):
    n = sc(n)
    if n is None:
        return None
    if n.get("k") == "StringLiteral":
        return n.get("v")
    if n.get("k") in ("CXXConstructExpr", "CXXTemporaryObjectExpr") and n.get("c"):
        return string_lit(F, n["c"][0])
    return None


def schema_of(P, cls):
    """json key -> (min items, max items) from declare_entry(key, Types::Array(...)) in cls and its bases"""
    out = {}
    for c in ancestors_of(P, cls):
        for F in P.funcs_named(c + "::declare_entries"):
            for n in F.walk():
                mc = astq.member_call(P, n, "declare_entry")
                if not mc:
                    continue
                args = mc[2]
                key = string_lit(F, args[0]) if args else None
                if key is None or len(args) < 2:
                    continue
                ty = sc(args[1])
                if ty is not None and ty.get("k") in ("CXXConstructExpr", "CXXTemporaryObjectExpr") and ty.get("t", "").endswith("Types::Array"):
                    a = ty.get("c", [])
                    mn = literal_int(a[1]["c"][0] if a[1].get("k") == "CXXDefaultArgExpr" and a[1].get("c") else a[1]) if len(a) > 1 else 0
                    mx = None
                    if len(a) > 2 and a[2].get("k") != "CXXDefaultArgExpr":
                        mx = literal_int(a[2])
                    out.setdefault(key, (mn if mn is not None else 0, mx))
    return out


def collect_facts(P, cls):
    facts = Facts()
    facts.schema = schema_of(P, cls)
    records = []
    for F in parse_functions(P, cls):
        for n in F.walk():
            k = n.get("k")
            # field <- Parameters::get*("key")
            if (k == "BinaryOperator" and n.get("op") == "=") or (k == "CXXOperatorCallExpr" and n.get("op") == "="):
                f = this_vec(P, n["c"][0])
                rhs = sc(n["c"][1]) if len(n["c"]) > 1 else None
                if f and rhs is not None:
                    mc = astq.member_call(P, rhs)
                    if mc and mc[1] in ("get_vector", "get", "get_vector_or_double") and mc[2]:
                        key = string_lit(F, mc[2][0])
                        if key is not None:
                            facts.key_of[f] = key
                            facts.input.add(f)
                            if key in facts.schema:
                                mn, mx = facts.schema[key]
                                facts.minsize[f] = max(facts.minsize.get(f, 0), mn)
                    else:
                        facts.derived[f] = norm.render(P, rhs)[:60]
            # V.resize(W.size()) / V.resize(k)
            mc = astq.member_call(P, n, "resize")
            if mc:
                f = this_vec(P, mc[0])
                if f and mc[2]:
                    s = size_of(P, mc[2][0])
                    if s:
                        facts.eq.union(f, s)
                    lit = literal_int(mc[2][0])
                    if lit is not None:
                        facts.minsize[f] = max(facts.minsize.get(f, 0), lit)
                    # resize(other.size(), value) keeps sizes equal when guarded by size()==1 (broadcast idiom)
        for node, c in assert_conditions(F, "WBAssertThrow"):
            if c is None:
                continue
            for x in conjuncts(c):
                relation_facts(P, x, facts, records)
    return facts, records


def feature_classes(P):
    """classes under WorldBuilder::Features (features and models) that have a parse_entries"""
    out = []
    for qn in P.records:
        if qn.startswith("WorldBuilder::Features::") and P.funcs_named(qn + "::parse_entries") and not qn.endswith("Interface"):
            out.append(qn)
    return sorted(out)


def query_methods(P, cls, R):
    return [P.funcs[k] for k in R if k in P.funcs and P.funcs[k].qn.rsplit("::", 1)[0] == cls]


def index_leader(P, F, idx):
    """classify an index expression:
       ('loop', field)      induction variable of `for (i = 0; i < this->L.size(); ++i)`
       ('bracket', field)   upper/lower_bound position in this->L (index, index-1 inside the open bracket)
       ('literal', k)
       ('other', text)"""
    from .layout import forward_loop
    i = sc(idx)
    lit = literal_int(i)
    if lit is not None:
        return ("literal", lit)
    off = 0
    if i.get("k") == "BinaryOperator" and i.get("op") in ("-", "+") and literal_int(i["c"][1]) is not None:
        off = literal_int(i["c"][1]) * (1 if i["op"] == "+" else -1)
        i = sc(i["c"][0])
    if i.get("k") != "DeclRefExpr":
        return ("other", norm.render(P, idx))
    key = i["r"]
    # induction variable?
    for loop in F.walk():
        if loop.get("k") == "ForStmt":
            okl, iv, bound = forward_loop(P, F, loop)
            if iv == key:
                if not okl:
                    return ("other", "irregular loop over %s" % norm.render(P, bound))
                s = size_of(P, bound)
                if s and off == 0:
                    return ("loop", s)
                return ("other", "loop bounded by %s" % norm.render(P, bound))
    # index = distance(L.begin(), upper) with upper = upper_bound(L.begin(), L.end(), x)
    for n in F.walk():
        if n.get("k") == "VarDecl" and n.get("r") == key and n.get("c"):
            init = sc(n["c"][0])
            if init.get("k") == "CallExpr" and P.d(init.get("callee")).get("qn") == "std::distance":
                a = [sc(x) for x in init["c"][1:]]
                mb = astq.member_call(P, a[0], "begin")
                L = this_vec(P, mb[0]) if mb else None
                if L and a[1].get("k") == "DeclRefExpr":
                    for m in F.walk():
                        if m.get("k") == "VarDecl" and m.get("r") == a[1]["r"] and m.get("c"):
                            ub = sc(m["c"][0])
                            if ub.get("k") == "CallExpr" and P.d(ub.get("callee")).get("qn") in ("std::upper_bound", "std::lower_bound"):
                                b0 = astq.member_call(P, ub["c"][1], "begin")
                                if b0 and this_vec(P, b0[0]) == L and off in (0, -1):
                                    return ("bracket", L)
    return ("other", norm.render(P, idx))


def parallel_arrays(P, Pdbg, rep, R, rule="A2"):
    rep.rule(rule, "every element access to an input-derived member vector on the query path of a feature/model class is "
                   "covered by a release-active size fact established while parsing: V[i] in a loop over L needs "
                   "size(V)==size(L); front()/back()/V[k] need a minimum size (schema minItems or WBAssertThrow); "
                   "V[index], V[index-1] in the bracket of L need size(V)==size(L)")
    n_acc = 0
    n_cls = 0
    for cls in feature_classes(P):
        facts, _ = collect_facts(P, cls)
        methods = query_methods(P, cls, R)
        if not methods:
            continue
        n_cls += 1
        fname = lambda f: P.d(f).get("n", "?")
        for F in methods:
            for n in F.walk():
                acc = None
                s = astq.subscript(n)
                if s:
                    f = this_vec(P, s[0])
                    if f:
                        acc = (f, index_leader(P, F, s[1]), n)
                mc = astq.member_call(P, n)
                if mc and mc[1] in ("front", "back") and mc[0] is not None:
                    f = this_vec(P, mc[0])
                    if f:
                        acc = (f, ("literal", 0), n)
                if not acc:
                    continue
                f, lead, node = acc
                if f not in facts.input:
                    continue    # not filled from the input file (derived tables are C10's provenance rule)
                n_acc += 1
                inst = "%s: %s[%s]" % (F.qn, fname(f), norm.render(P, s[1]) if s else mc[1] + "()")
                keyp = "%s|%s|%s" % (rule, cls, fname(f))
                if lead[0] == "loop":
                    L = lead[1]
                    if L == f or facts.eq.same(L, f):
                        rep.ok(rule, inst, F.nloc(node), F.qn, "size(%s)==size(%s)" % (fname(f), fname(L)))
                    else:
                        rep.violation(rule, inst, F.nloc(node), F.qn, norm.render(P, node),
                                      "indexed by the loop over %s but no release-active check relates size(%s) to size(%s)" % (fname(L), fname(f), fname(L)),
                                      key=keyp + "|loop|" + fname(L),
                                      witness="schema-valid file with '%s' shorter than '%s'" % (facts.key_of.get(f, fname(f)), facts.key_of.get(L, fname(L))))
                elif lead[0] == "bracket":
                    L = lead[1]
                    if L == f or facts.eq.same(L, f):
                        rep.ok(rule, inst, F.nloc(node), F.qn, "bracket of %s" % fname(L))
                    else:
                        rep.violation(rule, inst, F.nloc(node), F.qn, norm.render(P, node),
                                      "indexed by a position in %s but no release-active check relates size(%s) to size(%s)" % (fname(L), fname(f), fname(L)),
                                      key=keyp + "|bracket|" + fname(L),
                                      witness="schema-valid file with '%s' shorter than '%s'" % (facts.key_of.get(f, fname(f)), facts.key_of.get(L, fname(L))))
                elif lead[0] == "literal":
                    need = lead[1] + 1
                    have = facts.min_of(f)
                    if have >= need:
                        rep.ok(rule, inst, F.nloc(node), F.qn, "min size %d >= %d" % (have, need))
                    else:
                        rep.violation(rule, inst, F.nloc(node), F.qn, norm.render(P, node),
                                      "needs at least %d element(s) but the schema/asserts guarantee only %d" % (need, have),
                                      key=keyp + "|min%d" % need,
                                      witness="schema-valid file with an empty '%s'" % facts.key_of.get(f, fname(f)))
                else:
                    rep.unknown(rule, "%s: index form %s" % (inst, lead[1]))
    rep.floor(rule, n_acc, 120, "element accesses to input-derived member vectors in %d classes" % n_cls)


def debug_only_checks(P, Pdbg, rep, R, rule="A1"):
    rep.rule(rule, "a length check on an input-derived member vector that the query path relies on is release-active "
                   "(WBAssertThrow), not compiled out in the build users run (WBAssert)")
    n = 0
    scanned = 0
    for cls in feature_classes(Pdbg):
        facts, _ = collect_facts(P, cls)      # release-active facts
        used = set()
        for F in query_methods(P, cls, R):
            for x in F.walk():
                f = this_vec(P, x)
                if f:
                    used.add(P.d(f).get("qn"))
        for F in parse_functions(Pdbg, cls):
            for node, c in assert_conditions(F, "WBAssert"):
                scanned += 1
                if c is None or not is_size_relation(Pdbg, c):
                    continue
                n += 1
                # which fields?
                fields = set()
                for x in F.walk(c):
                    f = this_vec(Pdbg, x)
                    if f:
                        fields.add(Pdbg.d(f).get("qn"))
                if not (fields & used):
                    rep.ok(rule, "%s: WBAssert(%s) concerns fields the query path does not index" % (cls, norm.render(Pdbg, c)), F.nloc(node), F.qn)
                    continue
                # is the same relation established release-actively?
                tmp = Facts()
                rec = []
                for x in conjuncts(c):
                    relation_facts(Pdbg, x, tmp, rec)
                covered = True
                for r in rec:
                    if r[0] == "eq":
                        a, b = (Pdbg.d(r[1]).get("qn"), Pdbg.d(r[2]).get("qn"))
                        ka = [k for k in P.decls if P.decls[k].get("qn") == a and P.decls[k].get("k") == "Field"]
                        kb = [k for k in P.decls if P.decls[k].get("qn") == b and P.decls[k].get("k") == "Field"]
                        if not (ka and kb and facts.eq.same(ka[0], kb[0])):
                            covered = False
                    elif r[0] == "min":
                        a = Pdbg.d(r[1]).get("qn")
                        ka = [k for k in P.decls if P.decls[k].get("qn") == a and P.decls[k].get("k") == "Field"]
                        if not (ka and facts.min_of(ka[0]) >= r[2]):
                            covered = False
                if not rec:
                    covered = False
                if covered:
                    rep.ok(rule, "%s: WBAssert(%s) duplicated by a release-active fact" % (cls, norm.render(Pdbg, c)), F.nloc(node), F.qn)
                else:
                    rep.violation(rule, "%s: length check `%s` is debug-only" % (cls, norm.render(Pdbg, c)), F.nloc(node), F.qn,
                                  "WBAssert(%s, ...)" % norm.render(Pdbg, c), "the release build accepts the file and later indexes out of bounds",
                                  key="%s|%s|%s" % (rule, cls, norm.render(Pdbg, c)),
                                  witness="schema-valid file violating `%s`" % norm.render(Pdbg, c))
    rep.ok(rule, "%d debug-only assertions in parse-time code of feature/model classes scanned, %d are size relations" % (scanned, n))
    return scanned


# ------------------------------------------------------------------------------------------------
def dead_checks(P, rep, rule="A3.dead"):
    rep.rule(rule, "no WBAssertThrow has a condition that is the constant true (a check that can never fire)")
    n = 0
    for F in P.funcs.values():
        if not F.tu.startswith("lib"):
            continue
        for node, c in assert_conditions(F, "WBAssertThrow"):
            n += 1
            if c is not None and c.get("k") == "CXXBoolLiteralExpr" and c.get("v") is True:
                rep.violation(rule, "%s: WBAssertThrow(true, ...)" % F.qn, F.nloc(node), F.qn, "WBAssertThrow(true, ...)",
                              "the error branch it documents is unreachable", key="%s|%s" % (rule, F.qn),
                              witness="the input the message talks about is accepted silently")
    rep.ok(rule, "%d WBAssertThrow conditions scanned" % n)
    rep.floor(rule, n, 150, "WBAssertThrow expansions in the library")


def string_dispatch(P, rep, rule="A3.dispatch"):
    """if / else-if chains comparing one string against literals: the chain must end in a
    release-active throw, and the literals must equal the schema's allowed set (A4)"""
    rep.rule(rule, "every if/else-if chain that dispatches a string option on literals ends in a release-active throw (or an "
                   "unconditional else), so that an unsupported value cannot leave the selector unset; and the set of literals "
                   "equals the set of values the schema (Types::String(default, {allowed})) admits")
    n = 0
    for F in P.funcs.values():
        if not F.tu.startswith("lib"):
            continue
        for node in F.walk():
            if node.get("k") != "IfStmt" or node.get("m"):
                continue
            par = F.parent.get(node["i"])
            if par is not None and par.get("k") == "IfStmt" and par["c"][2] is node:
                continue    # not the head of the chain
            subj, lits, last = chain_of(P, F, node)
            if subj is None or len(lits) < 2:
                continue
            n += 1
            ends_ok = False
            why = ""
            if last is not None:
                # final else: anything unconditional counts (assignment of a default or a throw)
                ends_ok = True
                if contains_only_debug_assert(F, last):
                    ends_ok = False
                    why = "the final else contains only a debug-only assertion"
            else:
                # no final else: a release-active throw must follow on the fall-through path
                nxt = next_sibling(F, node)
                if nxt is not None and has_unconditional_throw(F, nxt):
                    ends_ok = True
                else:
                    why = "no final else and no release-active throw follows"
            # allowed strings in the schema for the key the subject was read from
            allowed = allowed_strings_for(P, F, subj)
            inst = "%s: dispatch on %s over %s" % (F.qn, norm.render(P, subj), sorted(lits))
            if allowed is not None and set(allowed) - set(lits) and not ends_ok:
                rep.violation(rule, inst, F.nloc(node), F.qn, norm.render(P, node["c"][0]),
                              "schema admits %s which the code does not handle" % sorted(set(allowed) - set(lits)),
                              key="%s|%s|schema" % (rule, F.qn), witness="file with the unhandled option value")
            elif not ends_ok and allowed is None:
                rep.violation(rule, inst, F.nloc(node), F.qn, norm.render(P, node["c"][0]), why + "; the option is a free-form string",
                              key="%s|%s|open" % (rule, F.qn), witness="file with any other value for this option")
            elif allowed is not None and set(allowed) - set(lits) and ends_ok and last is None:
                rep.ok(rule, inst, F.nloc(node), F.qn, "unhandled values rejected by the trailing throw")
            else:
                rep.ok(rule, inst, F.nloc(node), F.qn)
    rep.floor(rule, n, 4, "string dispatch chains")


def chain_of(P, F, node):
    """(subject expr, [literals], final else stmt or None) for if (s == "a") ... else if (s == "b") ... [else ...]"""
    subj = None
    lits = []
    cur = node
    last = None
    while cur is not None and cur.get("k") == "IfStmt":
        c = sc(cur["c"][0])
        s, l = string_compare(P, F, c)
        if s is None:
            return None, [], None
        if subj is None:
            subj = s
        elif norm.render(P, subj) != norm.render(P, s):
            return None, [], None
        lits.append(l)
        nxt = cur["c"][2]
        if nxt is None:
            last = None
            break
        if nxt.get("k") == "IfStmt":
            cur = nxt
            continue
        last = nxt
        break
    return subj, lits, last


def string_compare(P, F, c):
    if c is None:
        return None, None
    if c.get("k") == "CXXOperatorCallExpr" and c.get("op") == "==" and len(c["c"]) == 2:
        a, b = c["c"]
        la, lb = string_lit(F, a), string_lit(F, b)
        if lb is not None and la is None and "basic_string" in sc(a).get("t", ""):
            return a, lb
        if la is not None and lb is None and "basic_string" in sc(b).get("t", ""):
            return b, la
    return None, None


def contains_only_debug_assert(F, stmt):
    """release view: a `do {} while(false)` left over from WBAssert and nothing else"""
    body = astq.stmts_of(stmt)
    real = [s for s in body if not (s.get("k") == "DoStmt" and s.get("m") == "WBAssert") and s.get("k") != "NullStmt"]
    return len(real) == 0


def next_sibling(F, node):
    par = F.parent.get(node["i"])
    if par is None or par.get("k") != "CompoundStmt":
        return None
    ch = par["c"]
    for i, c in enumerate(ch):
        if c is node and i + 1 < len(ch):
            return ch[i + 1]
    return None


def has_unconditional_throw(F, stmt):
    """WBAssertThrow(false, ...) : do { if (!(false)) throw } while(false)"""
    for n in F.walk(stmt):
        if n.get("k") == "IfStmt" and n.get("m") == "WBAssertThrow":
            c = sc(n["c"][0])
            if c.get("k") == "UnaryOperator" and c.get("op") == "!" and sc(c["c"][0]).get("k") == "CXXBoolLiteralExpr" and sc(c["c"][0]).get("v") is False:
                return True
        if n.get("k") == "CXXThrowExpr" and not n.get("m"):
            return True
    return False


def allowed_strings_for(P, F, subj):
    """allowed values declared for the JSON key the subject string was read from (same class)"""
    s = sc(subj)
    key = None
    # the subject is a local/field assigned from prm.get<std::string>("key")
    target = s.get("r") if s.get("k") in ("DeclRefExpr", "MemberExpr") else None
    if target is None:
        return None
    cls = F.qn.rsplit("::", 1)[0]
    for G in P.funcs.values():
        if G.qn.rsplit("::", 1)[0] != cls:
            continue
        for n in G.walk():
            rhs = None
            if n.get("k") == "VarDecl" and n.get("r") == target and n.get("c"):
                rhs = n["c"][0]
            elif n.get("k") in ("BinaryOperator", "CXXOperatorCallExpr") and n.get("op") == "=" and sc(n["c"][0]).get("r") == target:
                rhs = n["c"][1]
            if rhs is None:
                continue
            for m in G.walk(rhs):
                mc = astq.member_call(P, m, "get")
                if mc and mc[2]:
                    key = string_lit(G, mc[2][0]) or key
    if key is None:
        return None
    for c in ancestors_of(P, cls):
        for D in P.funcs_named(c + "::declare_entries"):
            for n in D.walk():
                mc = astq.member_call(P, n, "declare_entry")
                if mc and mc[2] and string_lit(D, mc[2][0]) == key and len(mc[2]) > 1:
                    ty = sc(mc[2][1])
                    if ty.get("k") in ("CXXConstructExpr", "CXXTemporaryObjectExpr") and ty.get("t", "").endswith("Types::String"):
                        vals = []
                        for a in ty.get("c", [])[1:]:
                            for x in D.walk(a):
                                if x.get("k") == "StringLiteral":
                                    vals.append(x["v"])
                        return vals or None
    return None


# ------------------------------------------------------------------------------------------------
def literal_value_set(P, F, key):
    """the values a local integer can hold if it is only ever given integer literals (declaration and plain assignments); else None"""
    vals = set()
    d = P.d(key)
    if d.get("storage") != "local" or key in F.params:
        return None
    for y in F.walk():
        if y.get("k") == "VarDecl" and y.get("r") == key:
            i0 = norm.strip_casts(y["c"][0]) if y.get("c") else None
            if i0 is None or i0.get("k") != "IntegerLiteral":
                return None
            vals.add(int(i0["v"]))
        elif y.get("k") in ("BinaryOperator", "CompoundAssignOperator") and y.get("op") in norm.ASSIGN_OPS and astq.is_ref_to(y["c"][0], key):
            r0 = norm.strip_casts(y["c"][1])
            if y.get("op") != "=" or r0 is None or r0.get("k") != "IntegerLiteral":
                return None
            vals.add(int(r0["v"]))
        elif y.get("k") == "UnaryOperator" and y.get("op") in ("++", "--", "&") and astq.is_ref_to(y["c"][0], key):
            return None
    return vals or None


def dead_by_excluded_values(P, F, x):
    """the statement is control dependent on tests `v == k` having failed for every value k the local v can hold
    (an if / else-if chain that returns for each possible value, followed by the statement)"""
    from . import guard
    b = F.block_of(x)
    if b is None:
        return False
    ctrl = guard.controlling(F).get(b, ())
    binfo = guard.branch_info(P, F)
    excluded = {}
    for (bb, idx) in ctrl:
        kind, c = binfo.get(bb, ("other", None))
        if kind != "cond" or c is None:
            continue
        c = sc(c)
        if c.get("k") != "BinaryOperator" or c.get("op") not in ("==", "!="):
            continue
        a, b_ = norm.strip_casts(c["c"][0]), norm.strip_casts(c["c"][1])
        if a is not None and b_ is not None and a.get("k") == "IntegerLiteral" and b_.get("k") == "DeclRefExpr":
            a, b_ = b_, a
        if a is None or b_ is None or a.get("k") != "DeclRefExpr" or b_.get("k") != "IntegerLiteral":
            continue
        holds = (idx == 0)                      # the branch taken when the test is true
        if (c["op"] == "==" and not holds) or (c["op"] == "!=" and holds):
            excluded.setdefault(a["r"], set()).add(int(b_["v"]))
    for key, ex in excluded.items():
        vals = literal_value_set(P, F, key)
        if vals is not None and vals <= ex:
            return True
    return False


def dead_default(P, F, x):
    """the throw sits under the `default:` of a switch over a local integer that is only ever given literal values, all of
    which have their own case label: no execution reaches it"""
    sw = astq.enclosing(F, x, ("SwitchStmt",))
    if sw is None:
        return False
    cases = astq.switch_cases(sw)
    dflt = cases.get("default")
    if dflt is None or not any(y is x for st in dflt for y in F.walk(st)):
        return False
    # ... and under no other label (fall-through into the default)
    for lb, stmts in cases.items():
        if lb != "default" and any(y is x for st in stmts for y in F.walk(st)):
            return False
    cond = sc(sw["c"][0]) if sw.get("c") else None
    cond = [y for y in (sw.get("c") or []) if y is not None and y.get("k") not in ("CompoundStmt", "DeclStmt")]
    if not cond:
        return False
    v = norm.strip_casts(cond[0])
    if v is None or v.get("k") != "DeclRefExpr" or P.d(v["r"]).get("storage") != "local" or v["r"] in F.params:
        return False
    key = v["r"]
    vals = set()
    for y in F.walk():
        if y.get("k") == "VarDecl" and y.get("r") == key:
            i0 = norm.strip_casts(y["c"][0]) if y.get("c") else None
            if i0 is None or i0.get("k") != "IntegerLiteral":
                return False
            vals.add(int(i0["v"]))
        elif y.get("k") in ("BinaryOperator", "CompoundAssignOperator") and y.get("op") in norm.ASSIGN_OPS and astq.is_ref_to(y["c"][0], key):
            r0 = norm.strip_casts(y["c"][1])
            if y.get("op") != "=" or r0 is None or r0.get("k") != "IntegerLiteral":
                return False
            vals.add(int(r0["v"]))
        elif y.get("k") == "UnaryOperator" and y.get("op") in ("++", "--", "&") and astq.is_ref_to(y["c"][0], key):
            return False
    labels = set()
    for lb in cases:
        try:
            labels.add(int(lb))
        except Exception:
            pass
    return bool(vals) and vals <= labels


def throw_types(P, rep, R, rule="A5", floor=30):
    rep.rule(rule, "every throw reachable from the query roots (and from World construction) throws a type derived from std::exception")
    n = 0
    dead = 0
    for k in sorted(R):
        F = P.funcs.get(k)
        if F is None:
            continue
        for x in F.walk():
            if x.get("k") == "CXXThrowExpr":
                n += 1
                t = x.get("tt", "")
                if not x.get("c"):
                    continue   # rethrow
                if re.search(r"std::(runtime_error|logic_error|invalid_argument|out_of_range|exception|domain_error|length_error|range_error|overflow_error|bad_alloc)", t):
                    continue
                if dead_default(P, F, x) or dead_by_excluded_values(P, F, x):
                    dead += 1
                    continue
                rep.violation(rule, "%s throws %s" % (F.qn, t or "?"), F.nloc(x), F.qn, norm.render(P, x), "not a standard exception",
                              key="%s|%s|%s" % (rule, F.qn, t), witness="the input that triggers this throw")
    rep.ok(rule, "%d throw expressions, all of std::exception-derived types%s" % (n, (" (%d in a switch default that no value of the switched local reaches)" % dead) if dead else ""))
    rep.floor(rule, n, floor, "throw expressions")


# ------------------------------------------------------------------------------------------------
def input_indexed_elements(P, rep, rule="A2.input-index"):
    """parse-time: a member vector indexed by a number read from the file needs a dominating release-active bound check"""
    rep.rule(rule, "while parsing, `V[k]` with k read from the input file (prm.get<unsigned int>(...)) is evaluated only after a "
                   "release-active check V.size() > k (strict) in the same function")
    n = 0
    for cls in feature_classes(P):
        for F in parse_functions(P, cls):
            # locals initialised from prm.get<integral>("key")
            inputs = {}
            for x in F.walk():
                if x.get("k") == "VarDecl" and x.get("c") and "int" in x.get("t", ""):
                    mc = astq.member_call(P, x["c"][0], "get")
                    if mc and mc[2] and string_lit(F, mc[2][0]) is not None:
                        inputs[x["r"]] = (x, string_lit(F, mc[2][0]))
            if not inputs:
                continue
            guards = {}
            for node, c in assert_conditions(F, "WBAssertThrow"):
                if c is None:
                    continue
                for cj in conjuncts(c):
                    cj = sc(cj)
                    if cj.get("k") != "BinaryOperator":
                        continue
                    a, b, op = sc(cj["c"][0]), sc(cj["c"][1]), cj["op"]
                    sa, sb = size_of(P, a), size_of(P, b)
                    if sa and b.get("k") == "DeclRefExpr" and b["r"] in inputs:
                        guards.setdefault((sa, b["r"]), []).append((node, op))
                    if sb and a.get("k") == "DeclRefExpr" and a["r"] in inputs:
                        guards.setdefault((sb, a["r"]), []).append((node, {"<": ">", "<=": ">=", ">": "<", ">=": "<="}.get(op, op)))
            seen = set()
            for x in F.walk():
                s = astq.subscript(x)
                if not s:
                    continue
                v = this_vec(P, s[0])
                i = sc(s[1])
                if not v or i.get("k") != "DeclRefExpr" or i["r"] not in inputs:
                    continue
                if (v, i["r"]) in seen:
                    continue
                seen.add((v, i["r"]))
                n += 1
                vn, kn = P.d(v).get("n"), P.d(i["r"]).get("n")
                gl = guards.get((v, i["r"]), [])
                strict = [g for g, op in gl if op == ">"]
                # the guard must come before the first use (dominate it)
                ok = False
                for g in strict:
                    bg, bx = F.block_of(g["c"][0]), F.block_of(x)
                    if bg is not None and bx is not None and bg in F.dominators().get(bx, set()) and (bg != bx or g["i"] < x["i"]):
                        ok = True
                if ok:
                    rep.ok(rule, "%s: %s[%s] guarded by WBAssertThrow(%s.size() > %s)" % (F.qn, vn, kn, vn, kn), F.nloc(x), F.qn)
                else:
                    weak = [op for g, op in gl]
                    rep.violation(rule, "%s: %s[%s] with %s read from \"%s\"" % (F.qn, vn, kn, kn, inputs[i["r"]][1]), F.nloc(x), F.qn, norm.render(P, x)[:80],
                                  "no dominating release-active check %s.size() > %s%s" % (vn, kn, (" (only `%s`)" % weak[0]) if weak else ""),
                                  key="%s|%s|%s" % (rule, cls, vn), witness="file whose \"%s\" equals the number of elements" % inputs[i["r"]][1])
    rep.floor(rule, n, 2, "member vectors indexed by a number read from the file")


def schema_required(P, rep, rule="SCHEMA.required"):
    """Types::Object::write_schema accumulates `required`: index 0 is written only when the array does not exist yet"""
    rep.rule(rule, "Types::Object::write_schema adds its required keys to the schema's `required` array without discarding entries "
                   "written earlier (e.g. the \"model\" key of a plugin): a write at \"/required/0\" happens only under the test that "
                   "\"/required\" does not exist; every other write appends (\"/required/-\")")
    F = P.func("WorldBuilder::Types::Object::write_schema")
    writes = []
    for n in F.walk():
        if n.get("k") == "CXXMemberCallExpr" and n["c"][0].get("n") in ("Set", "Create"):
            lits = [x.get("v") for x in F.walk(n["c"][0]) if x.get("k") == "StringLiteral"]
            for l in lits:
                if l and l.startswith("/required"):
                    writes.append((n, l))
    if not writes:
        rep.unknown(rule, "no write to /required found in Object::write_schema")
        return
    bad = False
    for n, l in writes:
        if l == "/required/-":
            continue
        if l == "/required/0":
            guarded = False
            for a in F.ancestors(n):
                if a.get("k") == "IfStmt" and any(y is n for y in F.walk(a["c"][1])):
                    for cj in conjuncts(a["c"][0]):
                        cj = sc(cj)
                        if cj is not None and cj.get("k") == "BinaryOperator" and cj.get("op") == "==":
                            txt = norm.render(P, cj)
                            if '"/required"' in txt and "Get(" in txt and ("nullptr" in txt or "CXXNullPtrLiteralExpr" in txt):
                                guarded = True
            if not guarded:
                bad = True
                rep.violation(rule, "write at \"/required/0\" is not conditional on the array being absent", F.nloc(n), F.qn, norm.render(P, n)[:100],
                              "required keys declared earlier for the same object (the plugin's \"model\" key) are overwritten: a model "
                              "object without \"model\" passes the schema", key=rule + "|overwrite",
                              witness="{\"compositions\":[0],\"fractions\":[1.0]} as a composition model (no \"model\" key)")
        else:
            bad = True
            rep.violation(rule, "write at fixed position %s of the required array" % l, F.nloc(n), F.qn, norm.render(P, n)[:100], "entries may be overwritten",
                          key=rule + "|fixed|" + l)
    if not bad:
        rep.ok(rule, "Object::write_schema: %d writes to /required, index 0 only when the array is absent, otherwise append" % len(writes), F.loc, F.qn)


def schema_closed(P, rep, rule="SCHEMA.closed"):
    rep.rule(rule, "unknown keys are rejected: every Types::Object declared by the library is closed (additional_properties false, the "
                   "default), the constructor stores that flag and write_schema emits it as \"additionalProperties\"")
    n = 0
    for F in P.funcs.values():
        if not F.tu.startswith("lib"):
            continue
        for x in F.walk():
            if x.get("k") in ("CXXConstructExpr", "CXXTemporaryObjectExpr") and x.get("t", "").endswith("Types::Object") and not x.get("copy"):
                a = x.get("c", [])
                if len(a) < 2:
                    continue
                n += 1
                flag = a[1]
                v = sc(flag["c"][0]) if flag.get("k") == "CXXDefaultArgExpr" and flag.get("c") else sc(flag)
                if v.get("k") == "CXXBoolLiteralExpr" and v.get("v") is False:
                    continue
                rep.violation(rule, "%s declares an open object (additional properties allowed: %s)" % (F.qn, norm.render(P, v)), F.nloc(x), F.qn, norm.render(P, x)[:100],
                              "a misspelt or unknown key in that object is silently ignored", key="%s|%s|open" % (rule, F.qn), witness="file with a misspelt key")
    rep.ok(rule, "%d Types::Object declarations, all closed" % n)
    rep.floor(rule, n, 60, "Types::Object declarations")
    ctor = [f for f in P.funcs_named("WorldBuilder::Types::Object::Object") if len(f.params) == 2 and "vector" in P.d(f.params[0]).get("t", "")]
    okc = False
    if len(ctor) == 1:
        for ini in ctor[0].inits or []:
            if ini.get("n") == "additional_properties" and ini.get("c") and astq.is_ref_to(ini["c"][0], ctor[0].params[1]):
                okc = True
    W = P.func("WorldBuilder::Types::Object::write_schema")
    okw = False
    for x in W.walk():
        if x.get("k") == "CXXMemberCallExpr" and x["c"][0].get("n") == "Set":
            lits = [y.get("v") for y in W.walk(x["c"][0]) if y.get("k") == "StringLiteral"]
            if "/additionalProperties" in lits and astq.is_this_field(P, x["c"][-1], "additional_properties"):
                okw = True
    if okc and okw:
        rep.ok(rule, "Object stores the flag and write_schema emits \"/additionalProperties\" from it", W.loc, W.qn)
    else:
        rep.violation(rule, "Types::Object does not carry its additional_properties flag into the schema (ctor: %s, write_schema: %s)" % (okc, okw), W.loc, W.qn, "",
                      "unknown keys are not rejected", key=rule + "|plumbing", witness="file with an unknown key")


def schema_keys(P, rep, rule="SCHEMA.keys"):
    """writer/reader agreement on the generated schema: every schema keyword the parameter reader looks up is one the type
    writers emit"""
    rep.rule(rule, "every path component that Parameters looks up in the generated declarations (\"minItems\", \"default value\", \"items\", "
                   "\"oneOf\", \"anyOf\", \"properties\", ...) is a component some Types::*::write_schema / declare function writes: the reader's and "
                   "the writer's tables of schema keywords agree")
    written = set()
    read = {}
    for F in P.funcs.values():
        if not F.tu.startswith("lib"):
            continue
        for x in F.walk():
            if x.get("k") != "CXXMemberCallExpr":
                continue
            name = x["c"][0].get("n")
            if name not in ("Set", "Create", "Get"):
                continue
            recv = sc(x["c"][0]["c"][0]) if x["c"][0].get("c") else None
            if recv is None or "GenericPointer" not in recv.get("t", ""):
                continue
            doc = norm.render(P, x["c"][1]) if len(x["c"]) > 1 else ""
            lits = [y.get("v", "") for y in F.walk(recv) if y.get("k") == "StringLiteral"]
            comps = set()
            for l in lits:
                for c in l.split("/"):
                    if c and not c.isdigit() and c != "-":
                        comps.add(c)
            if name in ("Set", "Create") and "declarations" in doc:
                written |= comps
            elif name == "Get" and "declarations" in doc:
                for c in comps:
                    read.setdefault(c, (F, x))
    # subsections entered while declaring also become path components
    for F in P.funcs.values():
        if not F.tu.startswith("lib"):
            continue
        for x in F.walk():
            mc = astq.member_call(P, x, "enter_subsection")
            if mc and mc[2]:
                l = string_lit(F, mc[2][0])
                if l:
                    written.add(l)
    missing = {c: site for c, site in read.items() if c not in written}
    for c, (F, x) in sorted(missing.items()):
        rep.violation(rule, "the reader looks up schema component \"%s\" which no writer emits" % c, F.nloc(x), F.qn, norm.render(P, x)[:120],
                      "defaults / array sizes of absent entries cannot be retrieved: construction fails or uses garbage", key="%s|%s" % (rule, c),
                      witness="a file that omits an optional list or a depth-surface entry")
    # the reader's two work-horse lookups, by writer class: get_vector reads <name>/minItems (written by Types::Array) and
    # <name>/items/default value; get<T> reads <name>/default value (written by each scalar type)
    must = {"minItems": ["Array"], "default value": ["Double", "Int", "UnsignedInt", "Bool", "String"]}
    for comp, classes in must.items():
        if comp not in read:
            continue
        for cls in classes:
            W = P.funcs_named("WorldBuilder::Types::%s::write_schema" % cls)
            if not W:
                rep.unknown(rule, "Types::%s::write_schema not found" % cls)
                continue
            lits = set()
            for y in W[0].walk():
                if y.get("k") == "StringLiteral":
                    lits |= {c for c in y.get("v", "").split("/") if c}
            if comp in lits:
                rep.ok(rule, "Types::%s::write_schema writes \"%s\"" % (cls, comp), W[0].loc, W[0].qn)
            else:
                rep.violation(rule, "Types::%s::write_schema does not write \"%s\", which Parameters reads for entries of that type" % (cls, comp), W[0].loc, W[0].qn, "",
                              "defaults / minimum sizes of absent entries of that type cannot be retrieved", key="%s|%s|%s" % (rule, cls, comp),
                              witness="a file that omits an optional %s entry" % cls)
    rep.ok(rule, "%d schema components read, all among the %d written" % (len(read), len(written)))
    rep.floor(rule, len(read), 5, "schema components read by Parameters")


def schema_writers(P, rep, rule="SCHEMA.writers"):
    """shape of the type writers that the unchecked readers rely on"""
    rep.rule(rule, "in every Types::*::write_schema no schema path is set twice in the same statement list (the second store would replace the "
                   "first: a keyword is missing), and the fixed-size point type declares minItems = maxItems = dim, which is what allows the "
                   "readers to index coordinates 0..dim-1 without a size check")
    n = 0
    for F in sorted(P.funcs.values(), key=lambda f: f.key):
        if F.body is None or F.name != "write_schema" or "::Types::" not in F.qn:
            continue
        n += 1
        label = F.qn + ("<%s>" % F.targs if getattr(F, "targs", None) else "")
        sets = {}       # enclosing compound id -> {suffix: node}
        all_sets = {}
        dup = False
        for x in F.walk():
            if x.get("k") == "CXXMemberCallExpr" and x["c"][0].get("n") == "Set":
                lits = [y.get("v") for y in F.walk(x["c"][0]) if y.get("k") == "StringLiteral"]
                if not lits:
                    continue
                path = norm.render(P, x["c"][0]["c"][0], nocast=True)
                blk, child = None, x
                for a in F.ancestors(x):
                    if a.get("k") in ("CompoundStmt", "IfStmt", "ForStmt", "CXXForRangeStmt", "WhileStmt", "SwitchStmt"):
                        blk = a
                        break
                    child = a
                branch = [i for i, c in enumerate(blk.get("c", [])) if c is child] if blk is not None and blk.get("k") == "IfStmt" else []
                key = (blk["i"] if blk else None, tuple(branch), path)
                all_sets.setdefault(lits[-1], []).append(x)
                if key in sets:
                    dup = True
                    rep.violation(rule, "%s sets %s twice" % (label, lits[-1]), F.nloc(x), F.qn, norm.render(P, x)[:140],
                                  "one of the two stores was meant for another keyword, which the schema now lacks",
                                  key="%s|%s|dup|%s" % (rule, F.qn, lits[-1]), witness="a file violating the keyword that is no longer written")
                sets[key] = x
        if "Types::Point<" in F.qn:
            for kw in ("/minItems", "/maxItems"):
                xs = all_sets.get(kw, [])
                good = False
                for x in xs:
                    v = sc(x["c"][-1])
                    vv = v
                    while vv is not None and vv.get("k") in ("SubstNonTypeTemplateParmExpr", "ImplicitCastExpr") and vv.get("c"):
                        vv = sc(vv["c"][0])
                    dim = re.search(r"Point<(\d)>", F.qn)
                    if vv is not None and ((vv.get("k") == "IntegerLiteral" and dim and int(vv.get("v")) == int(dim.group(1))) or (vv.get("k") == "DeclRefExpr" and P.d(vv["r"]).get("n") == "dim")):
                        good = True
                if good:
                    rep.ok(rule, "%s: %s = dim" % (label, kw), F.loc, F.qn)
                else:
                    rep.violation(rule, "%s does not declare %s = dim" % (label, kw), F.loc, F.qn, "", "a point with the wrong number of entries passes validation; the "
                                  "readers index [0..dim-1] unchecked (null JSON pointer dereference)", key="%s|%s|%s" % (rule, F.qn, kw),
                                  witness="\"coordinates\":[[1],[2,3]] or a one-entry \"dip point\"")
        if not dup:
            rep.ok(rule, "%s: %d schema stores, no path set twice in one block" % (label, sum(len(v) for v in all_sets.values())), F.loc, F.qn)
    rep.floor(rule, n, 12, "Types write_schema functions")


def json_member_order(P, rep, rule="JSON.order"):
    """no reader picks an object member by its position"""
    rep.rule(rule, "library code reaches the members of a JSON object by name (Pointer paths, FindMember, operator[](name)) or visits all of "
                   "them in a range-for; it never takes MemberBegin()/begin() of an object to pick a member by position -- the meaning of a "
                   "file does not depend on the order in which keys are written")
    n = 0
    bad = 0
    seen = set()
    for F in sorted(P.funcs.values(), key=lambda f: f.key):
        if F.body is None or not F.tu.startswith("lib") or "/rapidjson/" in F.file or F.qn.startswith("rapidjson::"):
            continue
        for x in F.walk():
            if x.get("k") != "CXXMemberCallExpr":
                continue
            d = P.d(x.get("callee"))
            qn = d.get("qn", "")
            if not qn.startswith("rapidjson::"):
                continue
            nm = d.get("n")
            if nm in ("FindMember", "HasMember", "GetObject", "MemberEnd"):
                n += 1
            positional = nm == "MemberBegin" or (nm in ("begin", "end") and "GenericObject" in qn)
            if not positional:
                continue
            n += 1
            # the implicit begin()/end() of `for (auto &m : v.GetObject())` visit every member: allowed
            rf = astq.enclosing(F, x, ("CXXForRangeStmt",))
            if rf is not None and not any(y is x for y in F.walk(rf["c"][-1])):
                continue
            if (F.qn, nm, F.nloc(x)) in seen:
                continue    # another instantiation of the same template
            seen.add((F.qn, nm, F.nloc(x)))
            bad += 1
            rep.violation(rule, "%s takes %s() of a JSON object" % (F.qn, nm), F.nloc(x), F.qn, norm.render(P, astq.enclosing(F, x, ("VarDecl", "BinaryOperator", "CallExpr")) or x)[:140],
                          "a member is selected by its position: two files that differ only in key order are read differently",
                          key="%s|%s|%s" % (rule, F.qn, nm), witness="the same file with the keys of that object permuted (\"model\" not first)")
    if not bad:
        rep.ok(rule, "%d rapidjson member accesses in library code, none positional" % n)
    rep.floor(rule, n, 2, "rapidjson object-member accesses in library code")


# ------------------------------------------------------------------------------------------------
def indexed_store_bounds(P, rep, rule="A2.store"):
    """stores M[i] into a member vector inside `for (i = 0; i < B; ++i)` stay inside the vector"""
    import sympy as sp
    rep.rule(rule, "in the library, a store `M[i] = ...` into a member vector M inside a counting loop `for (i = s; i < B; ++i)` is covered "
                   "by the size M was given in the same function: M.resize(B), M.resize(R) with R - B a non-negative constant, or - when B is "
                   "X.size() - X.resize(R) and M.resize(R) with the same R; a loop bounded by M.size() itself is covered trivially")
    n = 0
    for F in sorted(P.funcs.values(), key=lambda f: (f.file, f.qn)):
        if F.body is None or "/source/world_builder/" not in F.file:
            continue
        Rr = lambda x, F=F: norm.render(P, x, nocast=True, subst=norm.naming_locals(P, F)).replace(" ", "").replace("this->", "")
        resized = {}
        for z in F.walk(F.body):
            m = astq.member_call(P, z, "resize")
            if m and m[2] and sc(m[0]) is not None and sc(m[0]).get("k") in ("MemberExpr", "DeclRefExpr"):
                resized.setdefault(sc(m[0]).get("r"), []).append(m[2][0])
        for L in F.walk(F.body):
            if L.get("k") != "ForStmt":
                continue
            init, cond = L["c"][0], sc(L["c"][1])
            iv = init["c"][0] if init is not None and init.get("k") == "DeclStmt" and init["c"] else None
            if iv is None or cond is None or cond.get("k") != "BinaryOperator" or cond.get("op") not in ("<", "<=") or not astq.is_ref_to(cond["c"][0], iv["r"]):
                continue
            for y in F.walk(L["c"][3]):
                if not (y.get("k") in ("BinaryOperator", "CXXOperatorCallExpr") and y.get("op") == "="):
                    continue
                kids = [x for x in y["c"] if x is not None]
                s = astq.subscript(kids[-2])
                if not (s and astq.is_ref_to(s[1], iv["r"])):
                    continue
                b = sc(s[0])
                if not (b.get("k") == "MemberExpr" and astq.is_this_field(P, b) and astq.enclosing(F, y, ("ForStmt",)) is L):
                    continue
                n += 1
                bound = cond["c"][1]
                btxt = Rr(bound)
                if cond["op"] == "<=":
                    btxt = "(%s+1)" % btxt
                sizes = resized.get(b.get("r"), [])
                ok = False
                why = "%s is not resized in this function" % b.get("n")
                if btxt == b.get("n") + ".size()":
                    ok = True
                for r_ in sizes:
                    rtxt = Rr(r_)
                    if rtxt == btxt:
                        ok = True
                        break
                    # numeric slack: R - B a non-negative constant
                    try:
                        S = norm.Sym(P, F, inline_locals=False, name_only=True)
                        d_ = sp.expand(S(r_) - S(bound) - (1 if cond["op"] == "<=" else 0))
                        if d_.is_number and d_ >= 0:
                            ok = True
                            break
                    except Exception:
                        pass
                    # B = X.size() and X.resize(R') with R' == R
                    bm = astq.member_call(P, bound, "size")
                    if bm and sc(bm[0]) is not None and sc(bm[0]).get("r") in resized:
                        if any(Rr(r2) == rtxt for r2 in resized[sc(bm[0])["r"]]):
                            ok = True
                            break
                    why = "%s has %s elements, the loop runs to %s" % (b.get("n"), rtxt[:50], btxt[:50])
                if ok:
                    continue
                rep.violation(rule, "%s: %s[%s] is stored for %s < %s, but %s" % (F.qn.replace("WorldBuilder::", ""), b.get("n"), iv.get("n"), iv.get("n"), btxt[:50], why),
                              F.nloc(y), F.qn, norm.render(P, y)[:140], "a list longer than the vector writes past its end",
                              key="%s|%s|%s" % (rule, F.qn, b.get("n")), witness="an input list that is longer than the list the vector was sized from")
    rep.ok(rule, "%d indexed stores into member vectors, all covered by a size fact of the same function" % n)
    rep.floor(rule, n, 12, "indexed stores into member vectors inside counting loops")


# ------------------------------------------------------------------------------------------------
def _always_equal_members(P, cls, fa, fb):
    """members fa and fb of cls are initialised from the same expression by every other constructor and assigned nowhere"""
    if not fa or not fb:
        return False
    ctors = [G for G in P.funcs.values() if G.body is not None and G.inits and G.qn.rsplit("::", 1)[0] == cls]
    seen = 0
    for G in ctors:
        ia = next((i for i in G.inits if i.get("field") == fa and i.get("c")), None)
        ib = next((i for i in G.inits if i.get("field") == fb and i.get("c")), None)
        if ia is None and ib is None:
            continue
        if ia is None or ib is None:
            return False
        if len(G.params) == 1 and cls.split("::")[-1] in (P.d(G.params[0]).get("t") or ""):
            continue        # the copy constructor itself
        if norm.render(P, ia["c"][0]) != norm.render(P, ib["c"][0]):
            return False
        seen += 1
    if not seen:
        return False
    for G in P.funcs.values():
        if G.body is None:
            continue
        for x in G.walk():
            if x.get("k") in ("BinaryOperator", "CompoundAssignOperator", "CXXOperatorCallExpr") and x.get("op") in norm.ASSIGN_OPS:
                kids = [z for z in x["c"] if z is not None]
                t = sc(kids[-2]) if len(kids) >= 2 else None
                while t is not None and subscript_of(t):
                    t = sc(subscript_of(t)[0])
                if t is not None and t.get("k") == "MemberExpr" and t.get("r") in (fa, fb):
                    return False
    return True


def subscript_of(n):
    return astq.subscript(n)


def copy_members(P, rep, rule="COPY.members"):
    """a hand-written copy constructor copies every member from the member of the same name"""
    rep.rule(rule, "every user-written copy constructor in the library initialises member m from other.m (or from a call on other.m, "
                   "e.g. other.m->clone()): schema types are cloned when they are nested in Array / OneOf / Object, so a member copied from "
                   "a different member silently changes the schema a nested entry is validated against")
    n = 0
    for k, F in sorted(P.funcs.items()):
        if F.body is None or not F.inits or len(F.params) != 1:
            continue
        fl = F.file or ""
        if not ("/source/world_builder" in "/" + fl or "/include/world_builder" in "/" + fl):
            continue
        cls = F.qn.rsplit("::", 1)[0]
        pt = (P.d(F.params[0]).get("t") or "")
        if "&" not in pt or cls.split("::")[-1].split("<")[0] not in pt or F.name.split("<")[0] != cls.split("::")[-1].split("<")[0]:
            continue
        other = F.params[0]
        for ini in F.inits:
            if not ini.get("n") or not ini.get("c"):
                continue
            srcs = [y for root in ini["c"] if root is not None for y in F.walk(root)
                    if y.get("k") == "MemberExpr" and y.get("c") and astq.is_ref_to(sc(y["c"][0]), other) and "(" not in (y.get("t") or "bound member")
                    and "bound member" not in (y.get("t") or "")]
            if not srcs:
                continue        # initialised from a getter or a constant: not the memberwise pattern
            n += 1
            names = {y.get("n") for y in srcs}
            if names != {ini["n"]} and len(names) == 1 and _always_equal_members(P, cls, ini.get("field"), srcs[0].get("r")):
                rep.ok(rule, "%s: %s <- other.%s (the two members hold the same value in every object: initialised alike, never assigned)" % (
                    cls.replace("WorldBuilder::", ""), ini["n"], list(names)[0]), F.loc, F.qn)
                continue
            if names == {ini["n"]}:
                rep.ok(rule, "%s: %s <- other.%s" % (cls.replace("WorldBuilder::", ""), ini["n"], ini["n"]), F.loc, F.qn)
            else:
                rep.violation(rule, "%s copy constructor: member %s is copied from other.%s" % (cls.replace("WorldBuilder::", ""), ini["n"], "/".join(sorted(names))),
                              F.loc, F.qn, norm.render(P, ini["c"][0])[:100], "a copy (clone) of the object differs from the original in that member",
                              key="%s|%s|%s" % (rule, cls, ini["n"]), witness="a schema type nested in an Array or OneOf: the nested entry loses / changes that constraint")
    rep.floor(rule, n, 20, "memberwise initialisers in copy constructors")
