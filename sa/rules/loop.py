"""LOOP — termination of every query (DESIGN §3.8): bounded loop shapes and a frozen recursion table."""
import networkx as nx

from .. import astq, effects as EF, norm
from ..astq import sc

GROWERS = {"push_back", "emplace_back", "insert", "emplace", "resize", "erase", "clear", "pop_back", "assign", "swap"}


def assigned_vars(F, body):
    """decl keys assigned / incremented anywhere in body, and containers modified by a size-changing call"""
    out = set()
    grown = set()
    for n in F.walk(body):
        k = n.get("k")
        if k in ("BinaryOperator", "CompoundAssignOperator") and n.get("op") in norm.ASSIGN_OPS:
            t = sc(n["c"][0])
            if t.get("k") in ("DeclRefExpr", "MemberExpr"):
                out.add(t["r"])
        elif k == "UnaryOperator" and n.get("op") in ("++", "--"):
            t = sc(n["c"][0])
            if t.get("k") in ("DeclRefExpr", "MemberExpr"):
                out.add(t["r"])
        elif k == "CXXOperatorCallExpr" and n.get("op") in norm.ASSIGN_OPS + ("++", "--"):
            t = sc(n["c"][0])
            if t.get("k") in ("DeclRefExpr", "MemberExpr"):
                out.add(t["r"])
        elif k == "CXXMemberCallExpr" and n["c"][0].get("n") in GROWERS:
            b = sc(n["c"][0]["c"][0]) if n["c"][0].get("c") else None
            if b is not None and b.get("k") in ("DeclRefExpr", "MemberExpr"):
                grown.add(b["r"])
    return out, grown


def refs_in(F, e):
    return {n["r"] for n in F.walk(e) if n.get("k") in ("DeclRefExpr", "MemberExpr") and "r" in n}


def bounded_for(P, F, loop):
    """(ok, description or reason)"""
    init = loop["c"][0]
    if init is not None and init.get("k") == "DeclStmt" and len(init["c"]) > 1:
        # several variables declared in the header (`for (i = 0, j = n - 1; i < n; j = i, ++i)`): the induction variable is the one
        # the condition bounds; the others only trail it
        last = (False, "no single induction variable in the init statement")
        for v in init["c"]:
            if v.get("k") == "VarDecl":
                last = _bounded_for(P, F, loop, v["r"])
                if last[0]:
                    return last
        return last
    return _bounded_for(P, F, loop, None)


def _comma_parts(e):
    e = sc(e)
    if e is not None and e.get("k") == "BinaryOperator" and e.get("op") == ",":
        return _comma_parts(e["c"][0]) + _comma_parts(e["c"][1])
    return [e] if e is not None else []


def _bounded_for(P, F, loop, iv_forced):
    init, cond, inc, body = loop["c"]
    iv = iv_forced
    if iv is not None:
        pass
    elif init is not None and init.get("k") == "DeclStmt" and len(init["c"]) == 1:
        iv = init["c"][0]["r"]
    elif init is not None and init.get("k") == "BinaryOperator" and init.get("op") == "=" and sc(init["c"][0]).get("k") == "DeclRefExpr":
        iv = sc(init["c"][0])["r"]
    if iv is None:
        return False, "no single induction variable in the init statement"
    c = sc(cond) if cond is not None else None
    if c is None:
        return False, "no loop condition"
    # conjunctions: one conjunct must bound the induction variable
    conj = []

    def split(x):
        x = sc(x)
        if x.get("k") == "BinaryOperator" and x.get("op") == "&&":
            split(x["c"][0])
            split(x["c"][1])
        else:
            conj.append(x)
    split(c)
    direction = None
    bound = None
    for x in conj:
        if x.get("k") != "BinaryOperator":
            continue
        l, r = sc(x["c"][0]), sc(x["c"][1])
        lhs_iv = astq.is_ref_to(l, iv) or (l.get("k") == "BinaryOperator" and l.get("op") in ("+", "-") and astq.is_ref_to(l["c"][0], iv)
                                           and sc(l["c"][1]).get("k") == "IntegerLiteral")
        if lhs_iv and x.get("op") in ("<", "<="):
            direction, bound = "up", r
        elif lhs_iv and x.get("op") in (">", ">="):
            direction, bound = "down", r
        elif astq.is_ref_to(r, iv) and x.get("op") in (">", ">="):
            direction, bound = "up", l
        elif astq.is_ref_to(r, iv) and x.get("op") in ("<", "<="):
            direction, bound = "down", l
        if direction:
            break
    if direction is None:
        return False, "condition %s does not bound the induction variable by < <= > >=" % norm.render(P, cond)
    i = sc(inc) if inc is not None else None
    if i is not None and i.get("k") == "BinaryOperator" and i.get("op") == ",":
        parts = _comma_parts(i)
        stepping = [p_ for p_ in parts if (p_.get("k") == "UnaryOperator" and p_.get("op") in ("++", "--") and astq.is_ref_to(p_["c"][0], iv))
                    or (p_.get("k") == "CompoundAssignOperator" and astq.is_ref_to(p_["c"][0], iv))]
        others = [p_ for p_ in parts if not any(p_ is q_ for q_ in stepping)]
        if len(stepping) != 1 or any(p_.get("k") in ("BinaryOperator", "CompoundAssignOperator") and astq.is_ref_to(sc(p_["c"][0]), iv) for p_ in others) \
                or any(y.get("k") == "UnaryOperator" and y.get("op") in ("++", "--") and astq.is_ref_to(y["c"][0], iv) for p_ in others for y in F.walk(p_)):
            return False, "increment %s does not step the induction variable exactly once" % norm.render(P, inc)
        i = stepping[0]
    step = None
    if i is not None and i.get("k") == "UnaryOperator" and i.get("op") in ("++", "--") and astq.is_ref_to(i["c"][0], iv):
        step = 1 if i["op"] == "++" else -1
    elif i is not None and i.get("k") == "CompoundAssignOperator" and i.get("op") in ("+=", "-=") and astq.is_ref_to(i["c"][0], iv) \
            and sc(i["c"][1]).get("k") == "IntegerLiteral" and sc(i["c"][1])["v"] != 0:
        step = sc(i["c"][1])["v"] * (1 if i["op"] == "+=" else -1)
    if step is None:
        return False, "increment %s is not a constant non-zero step of the induction variable" % norm.render(P, inc)
    if (direction == "up") != (step > 0):
        return False, "step moves away from the bound"
    assigned, grown = assigned_vars(F, body)
    if iv in assigned:
        return False, "induction variable is modified in the loop body"
    br = refs_in(F, bound)
    if br & assigned:
        return False, "bound %s is modified in the loop body" % norm.render(P, bound)
    if br & grown:
        return False, "container in the bound %s changes size in the loop body" % norm.render(P, bound)
    return True, "%s %s by %+d towards %s" % (P.d(iv).get("n"), direction, step, norm.render(P, bound)[:50])


def bounded_range_for(P, F, loop):
    rng = sc(loop["c"][1])
    body = loop["c"][2]
    assigned, grown = assigned_vars(F, body)
    rr = refs_in(F, rng)
    if rr & grown:
        return False, "the range %s changes size in the loop body" % norm.render(P, rng)
    return True, "range-for over %s" % norm.render(P, rng)[:50]


def wrap_loop(P, F, loop):
    """`while (fabs(v) OP B) v -= copysign(S, v);` with constants B, S > 0: each pass maps |v| to ||v| - S|.  For |v| >= S the value
    falls by S; below S it becomes S - |v|, and the loop goes on for ever iff that is again inside the loop's range, i.e. iff some
    x with x OP B also has S - x OP B: for `>=` that is S >= 2B (x = B when S = 2B), for `>` it is S > 2B.
    (ok, why) or None when the loop is not of this shape."""
    import sympy as sp
    c = sc(loop["c"][0])
    if c.get("k") != "BinaryOperator" or c.get("op") not in (">", ">="):
        return None
    l = sc(c["c"][0])
    if not (l.get("k") == "CallExpr" and P.d(l.get("callee")).get("qn") in ("std::fabs", "fabs", "std::abs", "abs")):
        return None
    v = norm.render(P, l["c"][1], nocast=True).replace(" ", "")
    body = loop["c"][1]
    st = [x for x in (body["c"] if body.get("k") == "CompoundStmt" else [body]) if x is not None]
    if len(st) != 1:
        return None
    a = sc(st[0])
    if not (a.get("k") in ("CompoundAssignOperator", "CXXOperatorCallExpr", "BinaryOperator") and a.get("op") == "-="):
        return None
    kids = [z for z in a["c"] if z is not None]
    if norm.render(P, kids[-2], nocast=True).replace(" ", "") != v:
        return None
    r = sc(kids[-1])
    if not (r.get("k") == "CallExpr" and P.d(r.get("callee")).get("qn") in ("std::copysign", "copysign")):
        return None
    if norm.render(P, r["c"][2], nocast=True).replace(" ", "") != v:
        return None
    try:
        symb = norm.Sym(P, F, inline_locals=True, hook=lambda n: sp.pi if n.get("k") == "DeclRefExpr" and P.d(n.get("r")).get("qn") == "WorldBuilder::Consts::PI" else None)
        B, S = sp.nsimplify(symb(c["c"][1])), sp.nsimplify(symb(r["c"][1]))
    except Exception:
        return None
    if B.free_symbols or S.free_symbols or not (B > 0 and S > 0):
        return None
    strict = c["op"] == ">"
    diverges = (S > 2 * B) if strict else (S >= 2 * B)
    if diverges:
        return False, "while (|v| %s %s) v -= copysign(%s, v) never ends for |v| = %s (it maps that value onto itself or back into the range)" % (
            c["op"], B, S, B if not strict else "slightly above %s" % B)
    return True, "wrap loop |v| %s %s, step %s: every pass lowers |v| until it leaves the range" % (c["op"], B, S)


def loops(P, rep, R, rule="LOOP"):
    rep.rule(rule, "every loop reachable from a query is of a bounded shape: a for loop whose single induction variable moves by "
                   "a non-zero constant towards a bound not modified in the body; a range-for over a container whose size the "
                   "body does not change; the `do {} while (false)` of an assertion macro")
    n = 0
    for k in sorted(R):
        F = P.funcs.get(k)
        if F is None:
            continue
        for loop in F.walk():
            lk = loop.get("k")
            if lk not in astq.LOOPS:
                continue
            n += 1
            if lk == "DoStmt":
                c = sc(loop["c"][1])
                if c.get("k") == "CXXBoolLiteralExpr" and c.get("v") is False:
                    continue
                rep.unknown(rule, "do-while with condition %s at %s in %s" % (norm.render(P, c), F.nloc(loop), F.qn))
                continue
            if lk == "WhileStmt":
                w = wrap_loop(P, F, loop)
                if w is not None:
                    okw, whyw = w
                    if okw:
                        rep.ok(rule, "%s:%s %s" % (F.qn.split("::")[-1], loop.get("l"), whyw), F.nloc(loop), F.qn)
                    else:
                        rep.violation(rule, "loop in %s: %s" % (F.qn, whyw), F.nloc(loop), F.qn, norm.render(P, loop["c"][0])[:100],
                                      "the loop does not terminate for that value: a query may not return",
                                      key="%s|%s|wrap" % (rule, F.qn), witness="a value exactly on the bound (longitude difference of exactly pi)")
                    continue
                rep.unknown(rule, "while loop at %s in %s (no bounded shape known for `%s`)" % (F.nloc(loop), F.qn, norm.render(P, loop["c"][0])[:60]))
                continue
            ok, why = bounded_for(P, F, loop) if lk == "ForStmt" else bounded_range_for(P, F, loop)
            if ok:
                rep.ok(rule, "%s:%s %s" % (F.qn.split("::")[-1], loop.get("l"), why), F.nloc(loop), F.qn)
            else:
                rep.violation(rule, "loop in %s: %s" % (F.qn, why), F.nloc(loop), F.qn,
                              norm.render(P, loop["c"][1])[:100], "the loop has no static bound: a query may not terminate",
                              key="%s|%s|%s" % (rule, F.qn, why[:40]), witness="inputs that keep the condition true")
    rep.floor(rule, n, 250, "loops on the query path")


def recursion(P, rep, R, rule="LOOP.recursion"):
    rep.rule(rule, "recursion on the query path is confined to the frozen table: the kd-tree search descends only to (left, mid-1) "
                   "under left<mid / (mid+1, right) under right>mid; BezierCurve::closest_point_on_curve_segment calls itself only "
                   "with the literal `true` for the flag whose false value guards the call; World::properties is re-entered only by "
                   "the tian2019 water-content models, from composition code, with the literal request {{1,0,0}} (stratified)")
    G = nx.DiGraph()
    for k in R:
        for t in P.calls.get(k, ()):
            if t in R:
                G.add_edge(k, t)
    for scc in nx.strongly_connected_components(G):
        if len(scc) == 1 and not G.has_edge(list(scc)[0], list(scc)[0]):
            continue
        names = sorted(P.fname(x) for x in scc)
        if names == ["WorldBuilder::KDTree::KDTree::find_closest_points_recursive"]:
            kd_recursion(P, rep, P.funcs[list(scc)[0]], rule)
        elif names == ["WorldBuilder::Objects::BezierCurve::closest_point_on_curve_segment"]:
            bezier_recursion(P, rep, P.funcs[list(scc)[0]], rule)
        elif "WorldBuilder::World::properties" in names:
            world_recursion(P, rep, scc, rule)
        else:
            rep.violation(rule, "unlisted recursion: %s" % names[:6], P.funcs[sorted(scc)[0]].loc if sorted(scc)[0] in P.funcs else "", names[0], "",
                          "a call cycle the termination table does not cover", key="%s|scc|%s" % (rule, names[0]))


def self_calls(P, F):
    return [n for n in F.walk() if n.get("k") in ("CallExpr", "CXXMemberCallExpr") and n.get("callee") == F.key]


def kd_recursion(P, rep, F, rule):
    calls = self_calls(P, F)
    # params: (point, left, right, y_axis, index_distances) -- find left/right by name
    names = [P.d(p).get("n") for p in F.params]
    try:
        li, ri = names.index("left"), names.index("right")
    except ValueError:
        rep.unknown(rule, "kd-tree search: parameters left/right not found")
        return
    left, right = F.params[li], F.params[ri]
    mids = [n for n in F.walk() if n.get("k") == "VarDecl" and n.get("n") == "mid"]
    if len(mids) != 1:
        rep.unknown(rule, "kd-tree search: no unique `mid`")
        return
    mid = mids[0]["r"]
    sym = norm.Sym(P, F, inline_locals=False)
    L, Rr, M = sym.symbol("left", left), sym.symbol("right", right), sym.symbol("mid", mid)
    good = True
    for c in calls:
        off = 1 if c["k"] == "CXXMemberCallExpr" else 1
        args = c["c"][off:]
        a_l, a_r = sym(args[li]), sym(args[ri])
        guard_txt = [norm.render(P, a["c"][0]) for a in F.ancestors(c) if a.get("k") == "IfStmt"]
        lower_half = (a_l - L == 0) and (a_r - (M - 1) == 0)
        upper_half = (a_l - (M + 1) == 0) and (a_r - Rr == 0)
        guarded = False
        from .guard import expand_cond
        for a in F.ancestors(c):
            if a.get("k") == "IfStmt":
                # only the then-branch is guarded by the condition; named bools stand for what they name
                if a["c"][1] is None or not any(z is c for z in F.walk(a["c"][1])):
                    continue
                for x in conj_list(expand_cond(P, F, a["c"][0])):
                    x = sc(x)
                    if x.get("k") == "DeclRefExpr":
                        x = sc(expand_cond(P, F, x))
                    if x.get("k") == "BinaryOperator":
                        l0, r0, op = sc(x["c"][0]), sc(x["c"][1]), x["op"]
                        if lower_half and ((op == "<" and astq.is_ref_to(l0, left) and astq.is_ref_to(r0, mid)) or (op == ">" and astq.is_ref_to(l0, mid) and astq.is_ref_to(r0, left))
                                           or (op == "!=" and {l0.get("r"), r0.get("r")} == {left, mid})):
                            guarded = True
                        if upper_half and ((op == ">" and astq.is_ref_to(l0, right) and astq.is_ref_to(r0, mid)) or (op == "<" and astq.is_ref_to(l0, mid) and astq.is_ref_to(r0, right))
                                           or (op == "!=" and {l0.get("r"), r0.get("r")} == {right, mid})):
                            guarded = True
        if not ((lower_half or upper_half) and guarded):
            good = False
            rep.violation(rule, "kd-tree search recursion (%s, %s)" % (norm.render(P, args[li]), norm.render(P, args[ri])), F.nloc(c), F.qn,
                          norm.render(P, c)[:120], "the recursive call does not strictly shrink [left,right] under a guard that keeps it non-empty",
                          key="%s|kd|%s" % (rule, norm.render(P, args[li]) + norm.render(P, args[ri])), witness="a surface with many triangles")
    # mid lies in [left, right]
    mi = sc(mids[0]["c"][0]) if mids[0].get("c") else None
    if good:
        rep.ok(rule, "kd-tree search: %d self calls, each on (left, mid-1) | (mid+1, right) under the matching guard; mid = %s" % (
            len(calls), norm.render(P, mi)), F.loc, F.qn)


def conj_list(c):
    c = sc(c)
    if c is not None and c.get("k") == "BinaryOperator" and c.get("op") == "&&":
        return conj_list(c["c"][0]) + conj_list(c["c"][1])
    return [c]


def bezier_recursion(P, rep, F, rule):
    calls = self_calls(P, F)
    good = True
    for c in calls:
        args = c["c"][1:]
        # find the parameter receiving a literal true whose negation guards the call
        ok = False
        for i, a in enumerate(args):
            a0 = sc(a)
            if a0 is not None and a0.get("k") == "CXXBoolLiteralExpr" and a0.get("v") is True and i < len(F.params):
                flag = F.params[i]
                for anc in F.ancestors(c):
                    if anc.get("k") == "IfStmt":
                        for x in conj_list(anc["c"][0]):
                            x = sc(x)
                            if flag_is_false(x, flag):
                                # the call must be in the then-branch
                                if any(y is c for y in F.walk(anc["c"][1])):
                                    ok = True
        if not ok:
            good = False
            rep.violation(rule, "Bezier closest-point recursion", F.nloc(c), F.qn, norm.render(P, c)[:120],
                          "the self call is not guarded by `!flag` while passing flag = true (depth would be unbounded)",
                          key=rule + "|bezier", witness="a point for which the Newton iteration does not converge")
    if good:
        rep.ok(rule, "Bezier closest point: %d self calls, each passes `true` for the flag whose negation guards the call (depth <= 2)" % len(calls), F.loc, F.qn)


def flag_is_false(x, flag):
    """`!flag`, `flag == false`, `false == flag`, `flag != true`"""
    x = sc(x)
    if x.get("k") == "UnaryOperator" and x.get("op") == "!" and astq.is_ref_to(x["c"][0], flag):
        return True
    if x.get("k") == "BinaryOperator" and x.get("op") in ("==", "!="):
        a, b = sc(x["c"][0]), sc(x["c"][1])
        for u, v in ((a, b), (b, a)):
            if astq.is_ref_to(u, flag) and v.get("k") == "CXXBoolLiteralExpr":
                return (v.get("v") is False) == (x["op"] == "==")
    return False


def world_recursion(P, rep, scc, rule):
    WP = [P.funcs[k] for k in scc if P.fname(k) == "WorldBuilder::World::properties"]
    sites = []
    for k in scc:
        F = P.funcs.get(k)
        if F is None or F in WP:
            continue
        for n in F.walk():
            if n.get("k") == "CXXMemberCallExpr" and n.get("callee") in {w.key for w in WP}:
                sites.append((F, n))
    good = True
    for F, n in sites:
        if not (F.qn.endswith("TianWaterContent::get_composition")):
            rep.violation(rule, "%s re-enters World::properties" % F.qn, F.nloc(n), F.qn, norm.render(P, n)[:100],
                          "only the tian2019 water content models are known to re-enter the evaluator",
                          key="%s|reenter|%s" % (rule, F.qn), witness="nested query depth unbounded")
            good = False
            continue
        from .fwd import flatten_init
        req = flatten_init(n["c"][3]) if len(n["c"]) > 3 else []
        vals = [sc(x).get("v") for x in req]
        if vals != [1, 0, 0]:
            rep.violation(rule, "%s nested request is %s, expected {{1,0,0}}" % (F.qn, vals), F.nloc(n), F.qn, norm.render(P, n)[:100],
                          "a nested request of kind 2 would reach this call site again", key="%s|request|%s" % (rule, F.qn),
                          witness="composition request on a plate with a tian2019 model")
            good = False
    # the composition models are called only under `case 2` of the feature switch
    for k in scc:
        F = P.funcs.get(k)
        if F is None or not F.qn.endswith("::properties") or F in WP:
            continue
        from .layout import find_switch_on_kind
        sws = find_switch_on_kind(P, F)
        if len(sws) != 1:
            rep.unknown(rule, "%s: kind switch" % F.qn)
            continue
        cases = astq.switch_cases(sws[0])
        for n in F.walk():
            if n.get("k") == "CXXMemberCallExpr" and P.d(n.get("callee")).get("n") == "get_composition":
                kinds = {kind for kind, stmts in cases.items() for s in stmts if any(x is n for x in F.walk(s))}
                if kinds != {2}:
                    rep.violation(rule, "%s calls get_composition under case %s" % (F.qn, sorted(kinds, key=str)), F.nloc(n), F.qn, "",
                                  "the stratification argument (nested kind 1 never reaches kind-2 code) fails", key="%s|strata|%s" % (rule, F.qn))
                    good = False
    if good:
        rep.ok(rule, "World::properties re-entered from %d tian2019 call sites with request {{1,0,0}}; composition models run only under case 2" % len(sites),
               WP[0].loc if WP else "", "WorldBuilder::World::properties")
    rep.floor(rule + ".tian", len(sites), 2, "re-entrant call sites")
