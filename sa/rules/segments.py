"""Rules for line features (slab, fault): kind twin blocks, section interpolation shape, provenance of the
per-section tables, slab/fault sibling comparison (C10, C06)."""
import re

from .. import astq, norm
from ..astq import sc
from ..tu import AnalysisBroken
from . import sib

LINE = {"SubductingPlate": "WorldBuilder::Features::SubductingPlate", "Fault": "WorldBuilder::Features::Fault"}
KINDS = ("temperature", "composition", "grains", "velocity")
KIND_RE = re.compile(r"temperature|composition|grains|velocit(?:y|ies)", re.I)


def kind_abstract(s):
    return KIND_RE.sub("KIND", s)


def line_siblings(P, rep, rule="SIB.line"):
    rep.rule(rule, "SubductingPlate and Fault are siblings: every member function is identical in normal form up to the frozen table of "
                   "explained differences (a fault is centred on its surface: |distance| <= thickness/2, strict `0 <` along the plane, "
                   "`only_positive` flag of distance_point_from_curved_planes)")
    spec = sib.load_spec()
    sib.REWRITES = spec.get("rewrites", []) + spec.get("line_rewrites", [])
    sib.compare_family(P, rep, rule, "Feature", "line", LINE, ("SubductingPlate", "Fault"), spec["exceptions"])


def segment_parsers(P):
    fs = [f for f in P.funcs_named("WorldBuilder::Parameters::get_vector") if len(f.params) == 5 and "Models::Temperature::Interface" in P.d(f.params[1]).get("t", "")]
    if len(fs) != 2:
        raise AnalysisBroken("%d Parameters::get_vector<Objects::Segment<...>> specialisations (2 expected)" % len(fs))
    return fs


def twin_blocks(P, rep, rule="SIB.kinds"):
    rep.rule(rule, "the handling of the four model kinds is four copies of one block: inside each Parameters::get_vector<Segment<...>> and "
                   "each line feature's parse_entries the temperature/composition/grains/velocity blocks are identical after substituting "
                   "the kind name (string literals included), and the four model lists are passed on in the order temperature, composition, "
                   "grains, velocity")
    n = 0
    funcs = segment_parsers(P) + [P.func(c + "::parse_entries") for c in LINE.values()]
    for F in funcs:
        blocks = {}
        for x in F.walk():
            if x.get("k") != "IfStmt" or x.get("m"):
                continue
            cond = norm.render(P, x["c"][0])
            m = re.search(r'get_shared_pointers\(.*?"(\w+) models"', cond)
            if not m:
                continue
            kind = m.group(1)
            if kind not in KINDS:
                continue
            # only the outermost if per kind and position
            if any(a.get("k") == "IfStmt" and re.search(r'get_shared_pointers\(.*?"\w+ models"', norm.render(P, a["c"][0])) for a in F.ancestors(x)):
                continue
            C = sib.Canon(P, F, alias_params=False)
            lines = []
            C.s(x, 0, lines)
            # locals are numbered in order of first occurrence: renumber per block
            ren = {}

            def renum(mm):
                ren.setdefault(mm.group(0), "w%d" % len(ren))
                return ren[mm.group(0)]
            # substitute THIS block's kind only: a block that mentions another kind's key must stay different
            own = re.compile({"velocity": r"velocit(?:y|ies)"}.get(kind, kind), re.I)
            lines = [re.sub(r"\bv\d+\b", renum, own.sub("KIND", l)) for l in lines]
            blocks.setdefault(kind, []).append((x, lines))
        label = F.qn + ("<%s segments>" % ("slab" if "SubductingPlateModels" in P.d(F.params[1]).get("t", "") else "fault") if len(F.params) == 5 else "")
        groups = list(zip(*[blocks.get(k, []) for k in KINDS]))
        if not groups or any(len(blocks.get(k, [])) != len(blocks.get(KINDS[0], [])) for k in KINDS):
            rep.violation(rule, "%s: kind blocks found %s" % (label, {k: len(v) for k, v in blocks.items()}), F.loc, F.qn, "",
                          "not every model kind is handled", key="%s|%s|count" % (rule, label), witness="segment without models of the missing kind")
            continue
        for gi, grp in enumerate(groups):
            n += 1
            ref = grp[0][1]
            bad = None
            for k, (node, lines) in zip(KINDS, grp):
                if lines != ref:
                    rem, add = sib.diff_lines(ref, lines)
                    bad = (k, node, rem, add)
                    break
            if bad:
                k, node, rem, add = bad
                rep.violation(rule, "%s: the %s block differs from the temperature block" % (label, k), F.nloc(node), F.qn,
                              "- " + " | ".join(r.strip() for r in rem[:3]) + "  + " + " | ".join(a.strip() for a in add[:3]),
                              "models of one kind are inherited differently from the others (wrong key, wrong default list, missing marker)",
                              key="%s|%s|%s|%d" % (rule, label, k, gi), witness="segment/section without %s models, defaults given at the feature level" % k)
            else:
                rep.ok(rule, "%s: block %d identical for the four kinds (%d lines)" % (label, gi, len(ref)), F.nloc(grp[0][0]), F.qn)
        # order of the lists handed on (kinds and origin are read from the resolved types and declarations, not from names)
        for x in F.walk():
            argn = None
            if x.get("k") == "CXXMemberCallExpr" and x["c"][0].get("n") in ("emplace_back", "get_vector"):
                argn = [sc(a) for a in x["c"][1:]]
            if argn:
                kinds_seq = []
                origins = set()
                shown = []
                for a in argn:
                    if a is None or a.get("k") not in ("DeclRefExpr", "MemberExpr"):
                        continue
                    m = re.search(r"Models::(Temperature|Composition|Grains|Velocity)::Interface", a.get("t", ""))
                    if not m or "vector" not in a.get("t", ""):
                        continue
                    kinds_seq.append(m.group(1).lower())
                    shown.append(norm.render(P, a))
                    d = P.d(a.get("r"))
                    origins.add("field" if a.get("k") == "MemberExpr" else (d.get("storage") or "local"))
                    # two locals of one kind but different scope level (feature-wide vs per-section): tell them apart by the declaring block
                    if a.get("k") == "DeclRefExpr":
                        decl = [v for v in F.walk() if v.get("k") == "VarDecl" and v.get("r") == a.get("r")]
                        blk = astq.enclosing(F, decl[0], ("CompoundStmt",)) if decl else None
                        origins.discard(d.get("storage") or "local")
                        origins.add(("local", blk["i"] if blk else None))
                if len(kinds_seq) >= 2:
                    n += 1
                    if len(origins) != 1:
                        rep.violation(rule, "%s: model lists of different origin are mixed: %s" % (label, shown), F.nloc(x), F.qn,
                                      norm.render(P, x)[:160], "one kind takes its defaults from another level (feature vs section) than the others",
                                      key="%s|%s|mixed-origin" % (rule, label), witness="section-level models of that kind, segments without their own")
                    elif kinds_seq == list(KINDS):
                        rep.ok(rule, "%s: lists passed on as (temperature, composition, grains, velocity)" % label, F.nloc(x), F.qn)
                    else:
                        rep.violation(rule, "%s: model lists passed on in order %s" % (label, kinds_seq), F.nloc(x), F.qn, norm.render(P, x)[:140],
                                      "models of one kind end up in the slot of another kind", key="%s|%s|order" % (rule, label),
                                      witness="segment with temperature and composition models")
    rep.floor(rule, n, 10, "kind blocks and hand-over sites")


def section_roles(P, F):
    """the bookkeeping locals of SubductingPlate/Fault::properties by what they are initialised from, not by their names:
    role -> actual name for section_fraction (<r>.fraction_of_section), current_section (<r>.section), current_segment
    (<r>.segment) and next_section (current_section + 1)"""
    roles = {}
    decls = [x for x in F.walk() if x.get("k") == "VarDecl" and x.get("c") and x.get("n")]
    for x in decls:
        t = norm.render(P, x["c"][0], nocast=True).replace(" ", "")
        for field, role in ((".fraction_of_section", "section_fraction"), (".fraction_of_segment", "segment_fraction"), (".section", "current_section"),
                            (".segment", "current_segment")):
            if t.endswith(field) and re.match(r"^[\w.]+$", t) and role not in roles:
                roles[role] = x["n"]
    cur = roles.get("current_section")
    if cur:
        for x in decls:
            t = norm.render(P, x["c"][0], nocast=True).replace(" ", "")
            if re.match(r"^\(?(%s[+-]\d+|\d+\+%s)\)?$" % (re.escape(cur), re.escape(cur)), t) and "next_section" not in roles:
                roles["next_section"] = x["n"]       # the neighbour; that it is current + 1 is what rule I1 checks
    return roles


def role_renderer(P, F, roles):
    """render with the bookkeeping locals spelled by their role names"""
    sub = [(re.compile(r"\b%s\b" % re.escape(actual)), role) for role, actual in roles.items() if actual != role]
    def R(x):
        t = norm.render(P, x, nocast=True).replace(" ", "")
        for rx, role in sub:
            t = rx.sub(role, t)
        return t
    return R


def updated_by_section(P, F, key):
    """'current_section' / 'next_section' if the local `key` is assigned only inside loops over the models of
    segment_vector[<that section>][...]; 'both' if by both; None if by neither"""
    hits = set()
    for x in F.walk():
        if x.get("k") in ("BinaryOperator", "CXXOperatorCallExpr") and x.get("op") == "=" and astq.is_ref_to(x["c"][0], key):
            for a in F.ancestors(x):
                if a.get("k") == "CXXForRangeStmt":
                    rng = role_renderer(P, F, section_roles(P, F))(a["c"][1])
                    for sname in ("current_section", "next_section"):
                        if "segment_vector[%s]" % sname in rng:
                            hits.add(sname)
                    break
    if len(hits) == 1:
        return hits.pop()
    return "both" if hits else None


def interpolation_shape(P, rep, rule="I1"):
    rep.rule(rule, "every use of the section fraction in SubductingPlate/Fault::properties has the form cur + f*(nxt - cur) where nxt is cur "
                   "with current_section replaced by next_section (same segment index, same component); next_section = current_section + 1; "
                   "f, current_section come from the same distance_point_from_curved_planes result")
    n = 0
    for cls in LINE.values():
        F = P.func(cls + "::properties")
        roles = section_roles(P, F)
        R = role_renderer(P, F, roles)
        decls = {x.get("n"): x for x in F.walk() if x.get("k") == "VarDecl" and x.get("c")}
        for nm in ("section_fraction", "current_section", "next_section"):
            if nm not in roles:
                raise AnalysisBroken("%s: local in the role of %s not found" % (F.qn, nm))
            decls[nm] = decls[roles[nm]]
        src = R(decls["section_fraction"]["c"][0]), R(decls["current_section"]["c"][0]), R(decls["next_section"]["c"][0])
        base = src[0].rsplit(".", 1)[0]
        if src[0] == base + ".fraction_of_section" and src[1] == base + ".section" and src[2] in ("(current_section+1)", "(1+current_section)"):
            rep.ok(rule, "%s: fraction/section from %s; next_section = current_section + 1" % (cls.split("::")[-1], base), F.nloc(decls["next_section"]), F.qn)
        else:
            rep.violation(rule, "%s: section bookkeeping is %s" % (cls, src), F.nloc(decls["next_section"]), F.qn, str(src),
                          "the interpolation does not run between a coordinate and its successor", key="%s|%s|bookkeeping" % (rule, cls),
                          witness="feature with 3 coordinates, point between the 2nd and 3rd")
        fk = decls["section_fraction"]["r"]
        for x in F.walk():
            if not (x.get("k") == "DeclRefExpr" and x.get("r") == fk):
                continue
            par = F.parent.get(x["i"])
            while par is not None and par.get("k") in norm.CASTS:
                par = F.parent.get(par["i"])
            n += 1
            ok = False
            gp = par
            why = "section_fraction is used outside a product"
            if par is not None and par.get("k") == "BinaryOperator" and par.get("op") == "*":
                other = par["c"][1] if sc(par["c"][0]) is x else par["c"][0]
                o = sc(other)
                gp = F.parent.get(par["i"])
                while gp is not None and gp.get("k") in norm.CASTS:
                    gp = F.parent.get(gp["i"])
                if o.get("k") == "BinaryOperator" and o.get("op") == "-" and gp is not None and gp.get("k") == "BinaryOperator" and gp.get("op") == "+":
                    A = gp["c"][0] if sc(gp["c"][1]) is par else gp["c"][1]
                    a, b, a2 = R(A), R(o["c"][0]), R(o["c"][1])
                    want_b = a.replace("current_section", "next_section")
                    # running values of the two sections held in locals: told apart by which section's models update them, not by name
                    twin = None
                    def base_and_path(e):
                        """strip subscripts and member accesses: (base node, access path as text)"""
                        path = []
                        e = sc(e)
                        while True:
                            sb = astq.subscript(e)
                            if sb is not None:
                                path.append("[%s]" % R(sb[1]))
                                e = sc(sb[0])
                                continue
                            if e.get("k") == "MemberExpr" and e.get("c") and not e.get("arrow"):
                                path.append("." + e.get("n", "?"))
                                e = sc(e["c"][0])
                                continue
                            return e, "".join(reversed(path))
                    ka, pa_ = base_and_path(A)
                    kb, pb_ = base_and_path(o["c"][0])
                    if a2 == a and ka.get("k") == "DeclRefExpr" and kb.get("k") == "DeclRefExpr" and P.d(ka["r"]).get("storage") == "local" and P.d(kb["r"]).get("storage") == "local":
                        if pa_ == pb_:
                            twin = (updated_by_section(P, F, ka["r"]), updated_by_section(P, F, kb["r"]))
                    if twin is not None and twin[0] is not None:
                        if twin == ("current_section", "next_section"):
                            ok = True
                        else:
                            why = "the base term is updated by the models of %s and the far term by those of %s" % twin
                    elif a2 != a:
                        why = "f*(%s - %s) is added to %s" % (b[:40], a2[:40], a[:40])
                    elif "current_section" not in a:
                        why = "the base term %s does not belong to the current section" % a[:50]
                    elif b != want_b:
                        why = "the far term is %s, expected %s" % (b[:60], want_b[:60])
                    else:
                        ok = True
                else:
                    why = "section_fraction multiplies %s which is not a difference added to a base term" % R(other)[:50]
            is_lam = par is not None and par.get("k") == "CXXOperatorCallExpr" and norm.lambda_call(par, norm.naming_locals(P, F)) is not None
            is_helper = par is not None and par.get("k") == "CallExpr" and norm.helper_call(P, F, par) is not None
            if not ok and (is_lam or is_helper):
                # f handed to a single-return local lambda / file-local helper: judge the call with the body substituted (beta
                # reduction), algebraically: affine in f, value at f=0 belongs to the current section, value at f=1 is the same
                # expression for the next section (= current + 1)
                import sympy as sp
                symb = norm.Sym(P, F, inline_locals=False)
                E = sp.expand(symb(par))
                fs = [q for q in E.free_symbols if str(q).startswith(roles["section_fraction"] + "@")]
                cs = [q for q in E.free_symbols if str(q).startswith(roles["current_section"] + "@")]
                ns = [q for q in E.free_symbols if str(q).startswith(roles["next_section"] + "@")]
                gp = par
                if len(fs) == 1 and len(cs) == 1 and len(ns) <= 1:
                    f_ = fs[0]
                    if ns:
                        E = sp.expand(E.xreplace({ns[0]: cs[0] + 1}))
                    try:
                        deg = sp.Poly(E, f_).degree()
                    except Exception:
                        deg = -1
                    A0, B0 = sp.expand(E.subs(f_, 0)), sp.expand(E.subs(f_, 1))
                    nxt = sp.expand(A0.xreplace({cs[0]: cs[0] + 1}))
                    if deg == 1 and A0.has(cs[0]) and sp.expand(nxt - B0) == 0:
                        ok = True
                    else:
                        why = "the call %s is not cur + f*(nxt - cur)" % R(par)[:60]
                else:
                    why = "the call %s does not interpolate between the current and the next section" % R(par)[:60]
            if not ok and par is not None and par.get("k") == "CallExpr" and P.d(par.get("callee")).get("qn", "").endswith("quaternion::slerp"):
                # orientation: slerp(q(cur), q(nxt), f) -- the spherical analogue of cur + f*(nxt - cur)
                a = [sc(z) for z in par["c"][1:]]
                srcs = []
                for z in a[:2]:
                    t = R(z)
                    if z.get("k") == "DeclRefExpr" and z.get("n") in decls:
                        t = R(decls[z["n"]]["c"][0])
                    srcs.append(t)
                gp = par
                # which grains object a quaternion comes from: the local inside its initialiser, told apart by the model loop that updates it
                def grains_local(z):
                    z0 = z
                    if z.get("k") == "DeclRefExpr" and z.get("n") in decls:
                        z0 = decls[z["n"]]["c"][0]
                    for y in F.walk(z0):
                        if y.get("k") == "DeclRefExpr" and P.d(y["r"]).get("storage") == "local" and "grains" in (y.get("t") or P.d(y["r"]).get("t") or ""):
                            return y["r"]
                    return None
                ga, gb = (grains_local(a[0]), grains_local(a[1])) if len(a) == 3 else (None, None)
                strip_ = lambda t, key: t.replace(P.d(key).get("n", "\0"), "G") if key else t
                if len(a) == 3 and a[2] is x and ga and gb and updated_by_section(P, F, ga) == "current_section" and updated_by_section(P, F, gb) == "next_section" \
                        and strip_(srcs[0], ga) == strip_(srcs[1], gb):
                    ok = True
                elif len(a) == 3 and a[2] is x and "current_section" in srcs[0] and srcs[1] == srcs[0].replace("current_section", "next_section"):
                    ok = True
                else:
                    why = "slerp(%s, %s, f) does not interpolate from the current to the next section" % (srcs[0][:40], srcs[1][:40])
            if not ok and par is not None and par.get("k") == "CallExpr" and par.get("callee") in P.funcs and P.funcs[par["callee"]].body is not None \
                    and not P.funcs[par["callee"]].qn.startswith("std::") and not is_helper:
                # the fraction is handed to a multi-statement helper of the same file: the interpolation now lives there, where this
                # rule (written over the body of `properties`) does not follow it
                rep.unknown(rule, "%s: section_fraction is handed to the helper %s; this rule reads the body of properties() only" % (
                    cls.split("::")[-1], P.funcs[par["callee"]].qn.split("::")[-1]))
                continue
            if ok:
                rep.ok(rule, "%s: %s" % (cls.split("::")[-1], R(gp)[:90]), F.nloc(x), F.qn)
            else:
                rep.violation(rule, "%s: %s" % (cls, why), F.nloc(x), F.qn, norm.render(P, gp if par is not None and gp is not None else par)[:160] if par is not None else "",
                              "an interpolated quantity is not the convex combination of what the two adjacent sections specify",
                              key="%s|%s|%s" % (rule, cls, why[:40]), witness="two sections with different values; point midway between the coordinates")
    rep.floor(rule, n, 16, "uses of section_fraction in slab and fault")


def section_model_loops(P, rep, rule="I1.models"):
    rep.rule(rule, "the models of section S (S = current_section / next_section) at the current segment update the running value of the same "
                   "S (X_current_section / X_next_section), which they also receive as incoming value, through the get_* of the same kind "
                   "as the list they are taken from")
    n = 0
    for cls in LINE.values():
        F = P.func(cls + "::properties")
        targets = {}
        for loop in F.walk():
            if loop.get("k") != "CXXForRangeStmt":
                continue
            rng = role_renderer(P, F, section_roles(P, F))(loop["c"][1])
            m = re.match(r"^segment_vector\[(\w+)\]\[(\w+)\]\.(\w+)_systems$", rng)
            if not m:
                continue
            n += 1
            S, seg, kind = m.groups()
            problems = []
            if seg != "current_segment":
                problems.append("segment index is %s" % seg)
            calls = [x for x in F.walk(loop["c"][2]) if x.get("k") == "CXXMemberCallExpr" and P.d(x.get("callee")).get("n", "").startswith("get_")]
            if len(calls) != 1:
                problems.append("%d model calls in the loop" % len(calls))
            else:
                c = calls[0]
                gname = P.d(c["callee"]).get("n")
                want = {"temperature": "get_temperature", "composition": "get_composition", "grains": "get_grains", "velocity": "get_velocity"}.get(kind)
                if gname != want:
                    problems.append("models of the %s list are asked for %s" % (kind, gname))
                par = F.parent.get(c["i"])
                while par is not None and par.get("k") in norm.CASTS:
                    par = F.parent.get(par["i"])
                tgt = norm.render(P, par["c"][0]) if par is not None and par.get("k") in ("BinaryOperator", "CXXOperatorCallExpr") and par.get("op") == "=" else None
                if tgt is None:
                    problems.append("model result is not assigned")
                else:
                    # which running value belongs to which section is not read from its name: the two loops of one kind must update
                    # two different locals (checked below), and I1 requires the interpolation to run from the local updated by the
                    # current section's models to the one updated by the next section's
                    targets.setdefault(kind, {})[S] = tgt
                    args = [norm.render(P, a) for a in c["c"][1:]]
                    if tgt not in args:
                        problems.append("the running value %s is not the incoming argument" % tgt)
            if problems:
                rep.violation(rule, "%s: loop over %s: %s" % (cls, rng, "; ".join(problems)), F.nloc(loop), F.qn, norm.render(P, loop["c"][2])[:140],
                              "values of the two adjacent sections are mixed up before they are interpolated", key="%s|%s|%s|%s" % (rule, cls, S, kind),
                              witness="two sections with different %s models" % kind)
            else:
                rep.ok(rule, "%s: %s -> *_%s" % (cls.split("::")[-1], rng, S), F.nloc(loop), F.qn)
        for kind, tg in targets.items():
            if len(tg) == 2 and len(set(tg.values())) == 1:
                rep.violation(rule, "%s: the %s models of both sections update the same local %s" % (cls, kind, list(tg.values())[0]), F.loc, F.qn, "",
                              "the value of the current section is overwritten by the next section's models before the two are interpolated",
                              key="%s|%s|%s|shared" % (rule, cls, kind), witness="two sections with different %s models" % kind)
    rep.floor(rule, n, 16, "per-section model loops")


def table_provenance(P, rep, rule="K2"):
    rep.rule(rule, "the per-section tables are filled from segment_vector[i][j] of the same i, j: lengths <- value_length, thickness <- "
                   "value_thickness, top truncation <- value_top_truncation, angles <- value_angle * PI/180; the outer tables are sized by the "
                   "number of coordinates; segment_vector is n_sections copies of the default list, replaced only at the coordinate a section "
                   "names, and a replaced list must have as many segments as the default (release-active)")
    n = 0
    for name, cls in LINE.items():
        F = P.func(cls + "::parse_entries")
        # the coordinate a section override applies to: the local read from the "coordinate" entry (a role, whatever its name)
        coord_keys = {}
        for v in F.walk():
            if v.get("k") == "VarDecl" and v.get("c"):
                mc = astq.member_call(P, v["c"][0], "get")
                if mc and mc[2] and any(y.get("k") == "StringLiteral" and y.get("v") == "coordinate" for y in F.walk(mc[2][0])):
                    coord_keys[v["r"]] = "change_coord_number"
        nl_ = norm.naming_locals(P, F)
        sub_ = norm.Subst({k: v for k, v in nl_.vals.items() if k not in coord_keys}, nl_.lams, coord_keys)
        R = lambda x, F=F, sub_=sub_: norm.render(P, x, nocast=True, subst=sub_).replace(" ", "").replace("this->", "")
        want = {"lengths": "value_length", "thickness": "value_thickness", "top_truncation": "value_top_truncation", "angles": "value_angle"}
        seen = set()
        for x in F.walk():
            if x.get("k") in ("BinaryOperator", "CXXOperatorCallExpr") and x.get("op") == "=" and len(x.get("c", [])) > 1:
                l, r = R(x["c"][0]), R(x["c"][1])
                m = re.match(r"^(?:this->)?\w+_segment_(lengths|thickness|top_truncation|angles)\[(\w+)\]\[(\w+)\]$", l)
                if not m:
                    continue
                n += 1
                what, i, j = m.groups()
                seen.add(what)
                rm = re.match(r"^\(?segment_vector\[(\w+)\]\[(\w+)\]\.(\w+)(.*)$", r)
                good = rm is not None and (rm.group(1), rm.group(2)) == (i, j) and rm.group(3) == want[what]
                if good and what == "angles":
                    good = rm.group(4).replace("Consts::", "").replace("WorldBuilder::", "") in ("*(PI/180))", "*(PI/180.0))", "*(PI/180.))")
                elif good:
                    good = rm.group(4) == ""
                if good:
                    rep.ok(rule, "%s: %s = %s" % (name, l, r), F.nloc(x), F.qn)
                else:
                    rep.violation(rule, "%s: %s = %s" % (name, l, r), F.nloc(x), F.qn, norm.render(P, x)[:120],
                                  "a per-section table entry comes from another section/segment or another quantity", key="%s|%s|%s" % (rule, name, what),
                                  witness="two sections with different segment tables")
        if not seen:
            rep.unknown(rule, "%s: the per-section tables are not filled by `table[i][j] = ...` stores in parse_entries (restructured?)" % name)
        elif seen != set(want):
            rep.violation(rule, "%s: tables filled: %s" % (name, sorted(seen)), F.loc, F.qn, "", "a per-section table is never filled", key="%s|%s|missing" % (rule, name))
        # sizes of the outer tables
        sized = {}
        for x in F.walk():
            mc = astq.member_call(P, x, "resize")
            if mc and mc[0] is not None:
                sized.setdefault(R(mc[0]), []).append([R(a) for a in mc[2]])
        for tbl in [k for k in sized if re.match(r"^(?:this->)?(\w+_segment_(lengths|thickness|top_truncation|angles)|total_\w+_length)$", k)]:
            n += 1
            if ["original_number_of_coordinates"] in sized[tbl]:
                rep.ok(rule, "%s: %s.resize(original_number_of_coordinates)" % (name, tbl), F.loc, F.qn)
            else:
                rep.violation(rule, "%s: %s resized to %s" % (name, tbl, sized[tbl]), F.loc, F.qn, "", "the table does not have one row per coordinate",
                              key="%s|%s|size|%s" % (rule, name, tbl), witness="feature with 3 coordinates")
        sv = sized.get("segment_vector", [])
        if ["n_sections", "default_segment_vector"] in sv or ["original_number_of_coordinates", "default_segment_vector"] in sv:
            rep.ok(rule, "%s: segment_vector.resize(n_sections, default_segment_vector)" % name, F.loc, F.qn)
            n += 1
        else:
            rep.violation(rule, "%s: segment_vector resized as %s" % (name, sv), F.loc, F.qn, "", "sections do not start from the feature's default segments",
                          key="%s|%s|segment_vector" % (rule, name), witness="feature without section overrides")
        # n_sections = original_number_of_coordinates
        nd = [x for x in F.walk() if x.get("k") == "VarDecl" and x.get("n") == "n_sections" and x.get("c")]
        if (len(nd) == 1 and R(nd[0]["c"][0]) in ("this->original_number_of_coordinates", "original_number_of_coordinates")) or \
                (not nd and ["original_number_of_coordinates", "default_segment_vector"] in sv):
            rep.ok(rule, "%s: n_sections = original_number_of_coordinates" % name, F.nloc(nd[0]), F.qn)
        else:
            rep.violation(rule, "%s: n_sections = %s" % (name, R(nd[0]["c"][0]) if nd else "?"), F.loc, F.qn, "", "number of sections differs from the number of coordinates",
                          key="%s|%s|n_sections" % (rule, name))
        # writes to segment_vector[...] as a whole
        stores = [x for x in F.walk() if x.get("k") in ("BinaryOperator", "CXXOperatorCallExpr") and x.get("op") == "=" and re.match(r"^segment_vector\[(\w+)\]$", R(x["c"][0]))]
        for x in stores:
            n += 1
            idx = re.match(r"^segment_vector\[(\w+)\]$", R(x["c"][0])).group(1)
            if idx == "change_coord_number":
                rep.ok(rule, "%s: segment_vector[change_coord_number] replaced by the section's own segments" % name, F.nloc(x), F.qn)
            else:
                rep.violation(rule, "%s: segment_vector[%s] overwritten" % (name, idx), F.nloc(x), F.qn, norm.render(P, x)[:100],
                              "a section override lands on another coordinate", key="%s|%s|override|%s" % (rule, name, idx),
                              witness="section with \"coordinate\": 1 in a 3-coordinate feature")
        # equal segment count, release-active
        from .asserts import assert_conditions
        okc = False
        for node, c in assert_conditions(F, "WBAssertThrow"):
            if c is not None and R(c) in ("(segment_vector[change_coord_number].size()==default_segment_vector.size())",
                                          "(default_segment_vector.size()==segment_vector[change_coord_number].size())"):
                okc = True
        n += 1
        if okc:
            rep.ok(rule, "%s: WBAssertThrow(section segment count == default segment count)" % name, F.loc, F.qn)
        else:
            rep.violation(rule, "%s: no release-active check that a section has as many segments as the default" % name, F.loc, F.qn, "",
                          "tables of adjacent sections are indexed with the same segment number", key="%s|%s|segcount" % (rule, name),
                          witness="section with fewer segments than the feature")
    rep.floor(rule, n, 22, "table provenance facts")


# ------------------------------------------------------------------------------------------------
def membership(P, rep, rule="M1"):
    rep.rule(rule, "slab membership is exactly top_truncation <= d <= thickness and 0 <= a <= max length (signed distance below the surface); "
                   "fault membership |d| <= thickness/2 and 0 < a <= max length; both are gated by starting_depth <= depth <= maximum_depth "
                   "(inclusive); d and a are the two distances returned by distance_point_from_curved_planes")
    for name, cls in LINE.items():
        F = P.func(cls + "::properties")
        # roles instead of names: what a local stands for is read from its (transitively inlined) initialiser
        nl = norm.naming_locals(P, F)
        roles = {F.params[2]: "depth"} if len(F.params) > 2 else {}
        for v in F.walk():
            if v.get("k") == "VarDecl" and v.get("c") and P.d(v["r"]).get("storage") == "local":
                t = norm.render(P, v["c"][0], nocast=True, subst=nl).replace(" ", "")
                if t.endswith(".distance_from_plane"):
                    roles[v["r"]] = "distance_from_plane"
                elif t.endswith(".distance_along_plane"):
                    roles[v["r"]] = "distance_along_plane"
                elif "_segment_thickness[" in t and "][0]" in t and "][1]" in t and "_segment_top_truncation" not in t:
                    roles[v["r"]] = "thickness_local"
                elif "_segment_top_truncation[" in t and "][0]" in t and "][1]" in t and "_segment_thickness" not in t:
                    roles[v["r"]] = "top_truncation_local"
                elif re.search(r"total_\w+_length\[", t) and "_segment_" not in t:
                    roles[v["r"]] = "max_length"
        sub = norm.Subst(bind=roles)
        R = lambda x: norm.render(P, x, nocast=True, subst=sub).replace(" ", "").replace("std::fabs", "fabs")
        sw = None
        from .layout import find_switch_on_kind
        sw = find_switch_on_kind(P, F)[0]
        gates = [a for a in F.ancestors(sw) if a.get("k") == "IfStmt"]
        inner = gates[0] if gates else None
        if inner is None:
            rep.unknown(rule, "%s: membership if not found" % cls)
            continue
        conj = []

        from .guard import expand_cond

        def split(c):
            c = sc(expand_cond(P, F, c))      # named bools stand for their conditions
            if c.get("k") == "BinaryOperator" and c.get("op") == "&&":
                split(c["c"][0])
                split(c["c"][1])
            else:
                conj.append(c)
        split(inner["c"][0])

        def normrel(c):
            if c.get("k") != "BinaryOperator" or c.get("op") not in ("<", "<=", ">", ">="):
                return R(c)
            a, b, op = R(c["c"][0]), R(c["c"][1]), c["op"]
            if op in (">", ">="):
                a, b, op = b, a, {">": "<", ">=": "<="}[op]
            return "%s %s %s" % (a, op, b)
        got = sorted(normrel(c) for c in conj)
        if name == "SubductingPlate":
            want = sorted(["top_truncation_local <= distance_from_plane", "distance_from_plane <= thickness_local", "0 <= distance_along_plane",
                           "distance_along_plane <= max_length"])
        else:
            want = None
            alts = [sorted(["fabs(distance_from_plane) <= (thickness_local*0.5)", "0 < distance_along_plane", "distance_along_plane <= max_length"]),
                    sorted(["fabs(distance_from_plane) <= (0.5*thickness_local)", "0 < distance_along_plane", "distance_along_plane <= max_length"]),
                    sorted(["fabs(distance_from_plane) <= (thickness_local/2)", "0 < distance_along_plane", "distance_along_plane <= max_length"])]
            want = got if got in alts else alts[0]
        if got == want:
            rep.ok(rule, "%s membership: %s" % (name, " && ".join(got)), F.nloc(inner), F.qn)
        else:
            rep.violation(rule, "%s membership is %s" % (name, " && ".join(got)), F.nloc(inner), F.qn, norm.render(P, inner["c"][0])[:200],
                          "expected %s" % " && ".join(want), key="%s|%s|membership" % (rule, name),
                          witness="points exactly on the slab top / at the slab tip / at distance thickness")
        # provenance of d and a
        okp = {"distance_from_plane", "distance_along_plane"} <= set(roles.values())
        if okp:
            rep.ok(rule, "%s: d, a taken from the fields of the same names of the curved-planes result" % name, F.loc, F.qn)
        else:
            rep.violation(rule, "%s: distance locals are not the corresponding result fields" % name, F.loc, F.qn, "", "distances swapped", key="%s|%s|fields" % (rule, name))
        # depth gate
        outer = None
        for a in F.ancestors(inner):
            if a.get("k") == "IfStmt" and "point_inside" in norm.render(P, expand_cond(P, F, a["c"][0])):
                outer = a
        conj.clear()
        if outer is not None:
            split(outer["c"][0])
        rels = {normrel(c) for c in conj}
        if {"depth <= maximum_depth", "starting_depth <= depth"} <= rels:
            rep.ok(rule, "%s depth gate: starting_depth <= depth <= maximum_depth (inclusive)" % name, F.nloc(outer), F.qn)
        else:
            rep.violation(rule, "%s depth gate is %s" % (name, sorted(r for r in rels if "depth" in r and "point_inside" not in r)), F.nloc(outer) if outer else F.loc, F.qn, "",
                          "expected the closed interval [min depth, max depth]", key="%s|%s|depthgate" % (rule, name), witness="point at depth exactly min/max depth")


def plane_call_sites(P, rep, rule="M2"):
    rep.rule(rule, "properties() and distance_to_feature_plane() of a line feature evaluate distance_point_from_curved_planes with the same "
                   "arguments (a fault's properties additionally asks for the absolute distance) and the same starting radius "
                   "get_depth_coordinate() + depth - starting_depth; distance_to_feature_plane returns (distance_from_plane, "
                   "distance_along_plane) in that order and World::distance_to_plane forwards point, depth and name unchanged")
    for cls_ in LINE.values():
        Fp = P.func(cls_ + "::properties")
        miss = astq.missing_anchors(P, Fp, ["starting_radius"]) + astq.missing_anchors(P, P.func(cls_ + "::distance_to_feature_plane"), ["starting_radius"])
        if miss:
            rep.unknown(rule, "%s::properties: the local %s this rule is written over no longer exists (renamed?)" % (cls_, miss))
            return
    R = lambda F, x: norm.render(P, x, nocast=True).replace(" ", "")
    for name, cls in LINE.items():
        sites = {}
        radius = {}
        for fn in ("properties", "distance_to_feature_plane"):
            F = P.func(cls + "::" + fn)
            calls = [x for x in F.walk() if x.get("k") == "CallExpr" and P.d(x.get("callee")).get("qn", "").endswith("distance_point_from_curved_planes")]
            if len(calls) != 1:
                rep.unknown(rule, "%s::%s: %d calls to distance_point_from_curved_planes" % (cls, fn, len(calls)))
                continue
            C = sib.Canon(P, F)
            sites[fn] = (F, calls[0], [C.e(a) for a in calls[0]["c"][1:]])
            sr = [x for x in F.walk() if x.get("k") == "VarDecl" and x.get("n") == "starting_radius" and x.get("c")]
            radius[fn] = C.e(sr[0]["c"][0]) if sr else None
        if len(sites) != 2:
            continue
        a, b = sites["properties"][2], sites["distance_to_feature_plane"][2]
        diff = [i for i in range(min(len(a), len(b))) if a[i] != b[i]]
        allowed = [8] if name == "Fault" else []
        if len(a) == len(b) and all(i in allowed for i in diff):
            rep.ok(rule, "%s: same %d arguments at both call sites%s" % (name, len(a), " (only_positive differs: fault membership uses |d|)" if diff else ""), sites["properties"][0].nloc(sites["properties"][1]), cls)
        else:
            i = [j for j in diff if j not in allowed][0] if diff else -1
            rep.violation(rule, "%s: argument %d differs: properties passes %s, distance_to_feature_plane passes %s" % (name, i, a[i] if i >= 0 else len(a), b[i] if i >= 0 else len(b)),
                          sites["distance_to_feature_plane"][0].nloc(sites["distance_to_feature_plane"][1]), cls, "", "the public distance query does not report the distances the membership test uses",
                          key="%s|%s|args|%d" % (rule, name, i), witness="distance_to_plane vs tag inside the feature")
        want_r = "((p1.get_depth_coordinate() + p2) - this.starting_depth)"
        if radius.get("properties") == radius.get("distance_to_feature_plane") and radius.get("properties") in (want_r, "((p2 + p1.get_depth_coordinate()) - this.starting_depth)"):
            rep.ok(rule, "%s: starting_radius = get_depth_coordinate() + depth - starting_depth at both sites" % name, cls, cls)
        else:
            rep.violation(rule, "%s: starting radius is %s / %s" % (name, radius.get("properties"), radius.get("distance_to_feature_plane")), sites["properties"][0].loc, cls, "",
                          "expected get_depth_coordinate() + depth - starting_depth at both sites", key="%s|%s|radius" % (rule, name), witness="feature with min depth > 0")
        # returned pair
        F = sites["distance_to_feature_plane"][0]
        pd = [x for x in F.walk() if x.get("k") in ("CXXConstructExpr", "CXXTemporaryObjectExpr") and x.get("t", "").endswith("PlaneDistances") and len(x.get("c", [])) == 2]
        if len(pd) == 1 and R(F, pd[0]["c"][0]).endswith(".distance_from_plane") and R(F, pd[0]["c"][1]).endswith(".distance_along_plane"):
            rep.ok(rule, "%s: PlaneDistances(distance_from_plane, distance_along_plane)" % name, F.nloc(pd[0]), F.qn)
        else:
            rep.violation(rule, "%s: PlaneDistances built from %s" % (name, [R(F, a) for a in pd[0]["c"]] if pd else "?"), F.loc, F.qn, "", "distances swapped or replaced",
                          key="%s|%s|pair" % (rule, name), witness="distance_to_plane on a dipping slab")
    # PlaneDistances ctor and getters
    ctor = [f for f in P.funcs_named("WorldBuilder::Objects::PlaneDistances::PlaneDistances") if len(f.params) == 2]
    if len(ctor) != 1:
        rep.unknown(rule, "PlaneDistances(double,double) not found")
    else:
        C = ctor[0]
        m = {}
        for ini in C.inits or []:
            if ini.get("n") and ini.get("c"):
                v = sc(ini["c"][0])
                if v.get("k") == "DeclRefExpr" and v["r"] in C.params:
                    m[ini["n"]] = C.params.index(v["r"])
        if m == {"distance_from_surface": 0, "distance_along_surface": 1}:
            rep.ok(rule, "PlaneDistances(from, along) initialises distance_from_surface, distance_along_surface in order", C.loc, C.qn)
        else:
            rep.violation(rule, "PlaneDistances constructor maps %s" % m, C.loc, C.qn, "", "fields swapped", key=rule + "|pd-ctor")
        for g, fld in (("get_distance_from_surface", "distance_from_surface"), ("get_distance_along_surface", "distance_along_surface")):
            G = P.func("WorldBuilder::Objects::PlaneDistances::" + g)
            rets = [sc(x["c"][0]) for x in G.walk() if x.get("k") == "ReturnStmt" and x.get("c")]
            if len(rets) == 1 and astq.is_this_field(P, rets[0], fld):
                rep.ok(rule, "%s returns %s" % (g, fld), G.loc, G.qn)
            else:
                rep.violation(rule, "%s returns %s" % (g, norm.render(P, rets[0]) if rets else "?"), G.loc, G.qn, "", "getter returns the other distance", key="%s|%s" % (rule, g))
    # World::distance_to_plane
    W = P.func("WorldBuilder::World::distance_to_plane")
    calls = [x for x in W.walk() if x.get("k") == "CXXMemberCallExpr" and P.d(x.get("callee")).get("n") == "distance_to_feature_plane"]
    okw = False
    why = "%d calls to distance_to_feature_plane" % len(calls)
    if len(calls) == 1:
        c = calls[0]
        a = c["c"][1:]
        decls = {x.get("n"): x for x in W.walk() if x.get("k") == "VarDecl" and x.get("c")}
        pt = sc(a[0])
        pt_ok = pt.get("k") == "DeclRefExpr" and pt.get("n") in decls and astq.is_ref_to(sc(decls[pt["n"]]["c"][0]).get("c", [None])[0], W.params[0])
        nat = sc(a[1])
        nat_ok = nat.get("k") == "DeclRefExpr" and nat.get("n") in decls and pt.get("n", "?") in norm.render(P, decls[nat["n"]]["c"][0])
        depth_ok = astq.is_ref_to(a[2], W.params[1])
        guard = astq.enclosing(W, c, ("IfStmt",))
        g_ok = guard is not None and "get_name()" in norm.render(P, guard["c"][0]) and P.d(W.params[2]).get("n") in norm.render(P, guard["c"][0]) and "==" in norm.render(P, guard["c"][0])
        par = W.parent.get(c["i"])
        while par is not None and par.get("k") in norm.CASTS:
            par = W.parent.get(par["i"])
        tgt = sc(par["c"][0]) if par is not None and par.get("k") in ("BinaryOperator", "CXXOperatorCallExpr") and par.get("op") == "=" else None
        rets = [sc(x["c"][0]) for x in W.walk() if x.get("k") == "ReturnStmt" and x.get("c")]
        r_ok = tgt is not None and len(rets) == 1 and rets[0].get("r") == tgt.get("r")
        okw = pt_ok and nat_ok and depth_ok and g_ok and r_ok
        why = "point:%s natural:%s depth:%s name-test:%s result:%s" % (pt_ok, nat_ok, depth_ok, g_ok, r_ok)
    if okw:
        rep.ok(rule, "World::distance_to_plane forwards (point, natural(point), depth) to the feature whose name equals the argument and returns its result", W.loc, W.qn)
    else:
        rep.violation(rule, "World::distance_to_plane does not forward transparently (%s)" % why, W.loc, W.qn, "", "the public query reports distances of another point/feature",
                      key=rule + "|world", witness="two slabs with different names")


# ------------------------------------------------------------------------------------------------
def kernel_interpolation(P, rep, rule="I1.kernel"):
    """inside distance_point_from_curved_planes the per-section tables are read only through cur + f*(next - cur)"""
    rep.rule(rule, "in Utilities::distance_point_from_curved_planes every element of the per-section tables (segment lengths, segment angles) "
                   "is read only inside an expression T[cur][j](c) + f*(T[next][j](c) - T[cur][j](c)) with cur/next the two sections adjacent "
                   "to the closest point and f the fraction between them; a raw per-section value is never used on its own (only .size() is)")
    F = P.func("WorldBuilder::Utilities::distance_point_from_curved_planes")
    R = lambda x: norm.render(P, x, nocast=True).replace(" ", "")
    names = [P.d(p).get("n") for p in F.params]
    tabs = [F.params[names.index(nm)] for nm in ("plane_segment_lengths", "plane_segment_angles") if nm in names]
    if len(tabs) != 2:
        rep.unknown(rule, "table parameters of distance_point_from_curved_planes not found")
        return
    n = 0
    interps = set()
    for x in F.walk():
        if not (x.get("k") == "DeclRefExpr" and x.get("r") in tabs):
            continue
        # climb over the subscripts
        top = x
        depth = 0
        while True:
            par = F.parent.get(top["i"])
            while par is not None and par.get("k") in norm.CASTS:
                par = F.parent.get(par["i"])
            s = astq.subscript(par) if par is not None else None
            if s and sc(s[0]) is top:
                top = par
                depth += 1
            else:
                break
        par = F.parent.get(top["i"])
        if par is not None and par.get("k") == "MemberExpr" and par.get("n") == "size":
            continue
        if x.get("m"):      # inside an assertion macro
            continue
        if any(a.get("m") in ("WBAssert", "WBAssertThrow") for a in F.ancestors(x)):
            continue
        n += 1
        # find the enclosing `A + f*(B - A)`
        ok = False
        why = "used on its own"
        for a in F.ancestors(top):
            if a.get("k") == "BinaryOperator" and a.get("op") == "+":
                l, r = sc(a["c"][0]), sc(a["c"][1])
                for A, prod in ((l, r), (r, l)):
                    if prod.get("k") == "BinaryOperator" and prod.get("op") == "*":
                        u, v = sc(prod["c"][0]), sc(prod["c"][1])
                        for fr, diff in ((u, v), (v, u)):
                            if fr.get("k") == "DeclRefExpr" and diff.get("k") == "BinaryOperator" and diff.get("op") == "-":
                                a_t, b_t, a2_t = R(A), R(diff["c"][0]), R(diff["c"][1])
                                if a_t == a2_t and "original_current_section" in a_t and b_t == a_t.replace("original_current_section", "original_next_section") \
                                        and fr.get("n", "").startswith("fraction"):
                                    ok = True
                                    interps.add(a["i"])
                                elif a_t == a2_t:
                                    why = "interpolates %s towards %s" % (a_t[:50], b_t[:50])
                if ok:
                    break
        if not ok:
            # handed to a single-return file-local helper: judge the call with the body substituted, algebraically
            for a in F.ancestors(top):
                if a.get("k") == "CallExpr" and norm.helper_call(P, F, a) is not None:
                    import sympy as sp
                    E = sp.expand(norm.Sym(P, F, inline_locals=False)(a))
                    fs = [q for q in E.free_symbols if str(q).startswith("fraction")]
                    cs = [q for q in E.free_symbols if str(q).startswith("original_current_section@")]
                    ns = [q for q in E.free_symbols if str(q).startswith("original_next_section@")]
                    if len(fs) == 1 and len(cs) == 1 and len(ns) == 1:
                        try:
                            deg = sp.Poly(E, fs[0]).degree()
                        except Exception:
                            deg = -1
                        A0, B0 = sp.expand(E.subs(fs[0], 0)), sp.expand(E.subs(fs[0], 1))
                        if deg == 1 and A0.has(cs[0]) and not A0.has(ns[0]) and sp.expand(A0.xreplace({cs[0]: ns[0]}) - B0) == 0:
                            ok = True
                            interps.add(a["i"])
                        else:
                            why = "handed to %s, which does not interpolate cur + f*(next - cur)" % R(a)[:50]
                    break
        if ok:
            continue
        rep.violation(rule, "%s is %s (line %s)" % (R(top)[:70], why, x.get("l")), F.nloc(x), F.qn, norm.render(P, F.parent.get(top["i"]) or top)[:140],
                      "between two coordinates the geometry is not the convex combination of the two adjacent sections", key="%s|%s" % (rule, R(top)[:50]),
                      witness="a segment whose length/angle differs between two adjacent sections (e.g. 0 in one, 200 km in the next)")
    rep.ok(rule, "%d reads of the per-section tables, all inside one of %d interpolations cur + f*(next - cur)" % (n, len(interps)), F.loc, F.qn)
    rep.floor(rule, len(interps), 4, "interpolations of per-section tables in the kernel")


def nearest_segment_selection(P, rep, rule="K.nearest"):
    """the running closest segment is selected on absolute distances"""
    rep.rule(rule, "distance_point_from_curved_planes keeps the segment with the smallest |distance|: the store `distance = (only_positive ? "
                   "|new| : new)` may make the running value negative, so the guard that admits a new candidate compares |new_distance| with "
                   "|distance| (both sides absolute) and the candidate must lie within the segment: -tol <= along <= |segment length|")
    F = P.func("WorldBuilder::Utilities::distance_point_from_curved_planes")
    miss = astq.missing_anchors(P, F, ["distance", "new_distance", "new_along_plane_distance", "interpolated_segment_length"])
    if miss:
        rep.unknown(rule, "distance_point_from_curved_planes: the locals %s this rule is written over no longer exist (renamed?)" % miss)
        return
    dk = [x["r"] for x in F.walk() if x.get("k") == "VarDecl" and x.get("n") == "distance"]
    nk = [x["r"] for x in F.walk() if x.get("k") == "VarDecl" and x.get("n") == "new_distance"]
    if len(dk) != 1 or len(nk) < 1:
        rep.unknown(rule, "declarations of distance / new_distance not unique")
        return
    dk = dk[0]
    stores = [x for x in F.walk() if x.get("k") == "BinaryOperator" and x.get("op") == "=" and astq.is_ref_to(x["c"][0], dk)
              and any(y.get("k") == "DeclRefExpr" and y.get("r") in nk for y in F.walk(x["c"][1]))]
    if len(stores) != 1:
        rep.unknown(rule, "%d stores `distance = f(new_distance)`" % len(stores))
        return
    st = stores[0]
    signed = any(True for _ in [1]) and not (sc(st["c"][1]).get("k") == "CallExpr" and P.d(sc(st["c"][1]).get("callee")).get("qn") in ("std::fabs", "fabs", "std::abs"))
    g = astq.enclosing(F, st, ("IfStmt",))
    if g is None:
        rep.violation(rule, "the running distance is overwritten unconditionally", F.nloc(st), F.qn, norm.render(P, st)[:120], "the last segment wins, not the nearest", key=rule + "|unguarded")
        return
    conj = []

    def split(c):
        c = sc(c)
        if c.get("k") == "BinaryOperator" and c.get("op") == "&&":
            split(c["c"][0]); split(c["c"][1])
        else:
            conj.append(c)
    split(g["c"][0])

    def is_abs_of(e, keys):
        e = sc(e)
        return e.get("k") == "CallExpr" and P.d(e.get("callee")).get("qn") in ("std::fabs", "fabs", "std::abs", "abs") and sc(e["c"][1]).get("k") == "DeclRefExpr" and sc(e["c"][1]).get("r") in keys
    sel = [c for c in conj if c.get("k") == "BinaryOperator" and c.get("op") in ("<", "<=", ">", ">=")
           and any(y.get("k") == "DeclRefExpr" and y.get("r") == dk for y in F.walk(c)) and any(y.get("k") == "DeclRefExpr" and y.get("r") in nk for y in F.walk(c))]
    if len(sel) != 1:
        rep.unknown(rule, "%d conjuncts relate new_distance and distance" % len(sel))
        return
    c = sel[0]
    l, r, op = c["c"][0], c["c"][1], c["op"]
    if op in (">", ">="):
        l, r, op = r, l, {">": "<", ">=": "<="}[op]
    ok = is_abs_of(l, nk) and (is_abs_of(r, [dk]) or not signed) and op == "<"
    if ok:
        rep.ok(rule, "candidate admitted iff |new_distance| < |distance|", F.nloc(c), F.qn)
    else:
        rep.violation(rule, "candidate admitted iff %s" % norm.render(P, c)[:80], F.nloc(c), F.qn, norm.render(P, c)[:140],
                      "the running distance can be negative (signed distances are kept): compared without its absolute value a negative running "
                      "distance can never be replaced by a nearer segment", key=rule + "|abs", witness="a slab that flattens with depth, point above the second segment")
    # within the segment
    ak = [x["r"] for x in F.walk() if x.get("k") == "VarDecl" and x.get("n") == "new_along_plane_distance"]
    within = [norm.render(P, cc, nocast=True).replace(" ", "").replace("std::", "") for cc in conj if any(y.get("k") == "DeclRefExpr" and y.get("r") in ak for y in F.walk(cc))]
    if len(within) == 2 and any(w.startswith("(new_along_plane_distance>=-") for w in within) and "(new_along_plane_distance<=fabs(interpolated_segment_length))" in within:
        rep.ok(rule, "candidate lies within the segment: %s" % " && ".join(within), F.nloc(g), F.qn)
    else:
        rep.violation(rule, "the candidate's along-plane range is %s" % within, F.nloc(g), F.qn, "; ".join(within), "expected -tol <= along <= |segment length|",
                      key=rule + "|within", witness="a point beside the end of a segment")



def segment_blend(P, rep, rule="I1.segment"):
    """down-dip blend of the two ends of a segment, and what the models are handed"""
    rep.rule(rule, "SubductingPlate/Fault::properties: a local U + f*(D - U) whose U and D are the section-interpolated values of components [0] and "
                   "[1] of one segment table (start and end of the segment) uses f = the fraction along the segment; in the inside test the bounds "
                   "of the distance from the plane depend on both fractions and the bound of the distance along it on the section fraction; the "
                   "AdditionalParameters handed to the models are such interpolated locals, never a feature-wide field")
    n = 0
    for cls in LINE.values():
        F = P.func(cls + "::properties")
        roles = section_roles(P, F)
        if "segment_fraction" not in roles or "section_fraction" not in roles:
            raise AnalysisBroken("%s: fraction locals not identified" % F.qn)
        decls = {x["r"]: x for x in F.walk() if x.get("k") == "VarDecl" and x.get("c")}
        byname = {x.get("n"): k for k, x in decls.items()}
        secf, segf = byname[roles["section_fraction"]], byname[roles["segment_fraction"]]

        def uses(e, key):
            return any(y.get("k") == "DeclRefExpr" and y.get("r") == key for y in F.walk(e))

        def depends_on_section(key, depth=0):
            d = decls.get(key)
            if d is None or depth > 6:
                return False
            if uses(d["c"][0], secf):
                return True
            return any(y.get("k") == "DeclRefExpr" and y.get("r") in decls and y["r"] != key and depends_on_section(y["r"], depth + 1) for y in F.walk(d["c"][0]))
        short = cls.split("::")[-1]
        for key, d in decls.items():
            e = sc(d["c"][0])
            # U + f * (D - U)
            if not (e.get("k") == "BinaryOperator" and e.get("op") == "+"):
                continue
            A, Bm = sc(e["c"][0]), sc(e["c"][1])
            if Bm.get("k") != "BinaryOperator" or Bm.get("op") != "*":
                A, Bm = Bm, A
            if Bm.get("k") != "BinaryOperator" or Bm.get("op") != "*" or A.get("k") != "DeclRefExpr" or A.get("r") not in decls:
                continue
            f_, diff = sc(Bm["c"][0]), sc(Bm["c"][1])
            if diff.get("k") != "BinaryOperator" or diff.get("op") != "-":
                f_, diff = diff, f_
            if diff.get("k") != "BinaryOperator" or diff.get("op") != "-" or f_.get("k") != "DeclRefExpr":
                continue
            Dn, Un = sc(diff["c"][0]), sc(diff["c"][1])
            if not (Un.get("k") == "DeclRefExpr" and Un.get("r") == A["r"] and Dn.get("k") == "DeclRefExpr" and Dn.get("r") in decls):
                continue
            # U and D: interpolated between sections, components [0] and [1] of one table
            tu = norm.render(P, decls[A["r"]]["c"][0], nocast=True).replace(" ", "")
            td = norm.render(P, decls[Dn["r"]]["c"][0], nocast=True).replace(" ", "")
            if not (uses(decls[A["r"]]["c"][0], secf) and uses(decls[Dn["r"]]["c"][0], secf)):
                continue
            inst = "%s: %s = %s" % (short, d.get("n"), norm.render(P, e, nocast=True)[:80])
            problems = []
            if tu.replace("[0]", "[#]") != td.replace("[1]", "[#]") or "[0]" not in tu or "[1]" not in td:
                problems.append("the two ends are not components [0] and [1] of one interpolated table")
            if f_["r"] != segf:
                problems.append("blended with %s, not with the fraction along the segment" % f_.get("n"))
            if problems:
                rep.violation(rule, inst + ": " + "; ".join(problems), F.nloc(d), F.qn, norm.render(P, e)[:160],
                              "the value varies along the trench instead of down the segment: thickness / truncation of the feature is wrong between the ends of a segment",
                              key="%s|%s|%s" % (rule, cls, d.get("n")), witness="a segment whose thickness or top truncation has two different values, point midway down the segment")
            else:
                rep.ok(rule, inst, F.nloc(d), F.qn)
        # the inside test: whatever bounds the distance from the plane follows both fractions, whatever bounds the distance along it
        # follows the fraction between the sections (dependence through initialisers, call arguments included)
        from .guard import expand_cond
        role_of = {}
        for k_, d_ in decls.items():
            t_ = norm.render(P, d_["c"][0], nocast=True).replace(" ", "")
            if re.match(r"^[\w.]+\.distance_from_plane$", t_):
                role_of[k_] = "across"
            elif re.match(r"^[\w.]+\.distance_along_plane$", t_):
                role_of[k_] = "along"

        def closure(e):
            seen, todo = set(), [y["r"] for y in F.walk(e) if y.get("k") == "DeclRefExpr" and y.get("r") in decls]
            while todo:
                k_ = todo.pop()
                if k_ in seen:
                    continue
                seen.add(k_)
                todo += [y["r"] for y in F.walk(decls[k_]["c"][0]) if y.get("k") == "DeclRefExpr" and y.get("r") in decls]
            return seen
        gate = None
        for x in F.walk():
            if x.get("k") == "IfStmt":
                c_ = expand_cond(P, F, x["c"][0])
                ks = {y.get("r") for y in F.walk(c_) if y.get("k") == "DeclRefExpr"}
                if any(role_of.get(k_) == "across" for k_ in ks) and any(role_of.get(k_) == "along" for k_ in ks) \
                        and any(k_ in decls and role_of.get(k_) is None for k_ in ks):
                    gate = (x, c_)
                    break
        if gate is None:
            rep.unknown(rule, "%s: inside test on the two plane distances not found" % short)
        else:
            conj = []

            def split(c):
                c = sc(c)
                if c.get("k") == "BinaryOperator" and c.get("op") == "&&":
                    split(c["c"][0])
                    split(c["c"][1])
                elif c.get("k") == "UnaryOperator" and c.get("op") == "!" and sc(c["c"][0]).get("k") == "BinaryOperator" and sc(c["c"][0]).get("op") == "||":
                    split(sc(c["c"][0])["c"][0])
                    split(sc(c["c"][0])["c"][1])
                else:
                    conj.append(c)
            split(gate[1])
            for which, need in (("across", (secf, segf)), ("along", (secf,))):
                cs = [c for c in conj if any(y.get("k") == "DeclRefExpr" and role_of.get(y.get("r")) == which for y in F.walk(c))]
                bound_conj = [c for c in cs if any(y.get("k") == "DeclRefExpr" and y.get("r") in decls and role_of.get(y["r"]) is None for y in F.walk(c))]
                if not bound_conj:
                    rep.unknown(rule, "%s: no bound on the distance %s the plane in the inside test" % (short, which))
                    continue
                n += 1
                missing = []
                for c in bound_conj:        # every bound on its own
                    cl = closure(c)
                    missing += [P.d(k_).get("n") for k_ in need if k_ not in cl and P.d(k_).get("n") not in missing]
                inst = "%s: bounds of the distance %s the plane (%s)" % (short, which, "; ".join(norm.render(P, c, nocast=True)[:50] for c in bound_conj))
                if missing:
                    rep.violation(rule, inst + " do not depend on %s" % ", ".join(missing), F.nloc(gate[0]), F.qn, norm.render(P, gate[1])[:160],
                                  "the feature's extent does not vary %s as the segment table prescribes" % (
                                      "down the segment" if roles["segment_fraction"] in missing else "between the two neighbouring sections"),
                                  key="%s|%s|%s-dep" % (rule, cls, which),
                                  witness="a segment whose thickness or top truncation has two different values, point midway down the segment")
                else:
                    rep.ok(rule, inst + " follow %s" % " and ".join(P.d(k_).get("n") for k_ in need), F.nloc(gate[0]), F.qn)
        # what the models receive
        for x in F.walk():
            if x.get("k") == "VarDecl" and "AdditionalParameters" in (x.get("t") or "") and x.get("c"):
                elems = [z for z in F.walk(x["c"][0]) if z.get("k") == "InitListExpr"]
                items = [sc(z) for z in (elems[0]["c"] if elems else [])]
                n += 1
                bad = []
                for it in items:
                    if it.get("k") == "DeclRefExpr" and it.get("r") in decls and depends_on_section(it["r"]):
                        continue
                    bad.append(norm.render(P, it)[:50])
                if len(items) == 2 and not bad:
                    rep.ok(rule, "%s: the models receive %s" % (short, norm.render(P, x["c"][0])[:80]), F.nloc(x), F.qn)
                else:
                    rep.violation(rule, "%s: the models receive %s" % (short, norm.render(P, x["c"][0])[:80]), F.nloc(x), F.qn, norm.render(P, x)[:160],
                                  "%s is not a value interpolated between the two neighbouring sections: overriding one section changes answers beyond its neighbours" % (", ".join(bad) or "the initialiser"),
                                  key="%s|%s|additional" % (rule, cls), witness="sections with different total lengths and a model that reads the slab length (mass conserving)")
    rep.floor(rule, n, 6, "segment blends and model hand-overs in slab and fault")


def section_index_as_reported(P, rep, rule="K2.section-index"):
    """the section the trench curve reports is used as reported"""
    rep.rule(rule, "distance_point_from_curved_planes: the local that holds the section index is written only by copying the `index` field of "
                   "the closest-point record (or a literal start value): the record's index is the only value for which `index + 1` is "
                   "known to be a coordinate of the trench, so a stepped index reads the per-section tables past their end")
    F = P.func("WorldBuilder::Utilities::distance_point_from_curved_planes")
    holders = set()
    for x in F.walk():
        if x.get("k") in ("BinaryOperator",) and x.get("op") == "=" and sc(x["c"][0]).get("k") == "DeclRefExpr":
            r = sc(x["c"][1])
            if r.get("k") == "MemberExpr" and r.get("n") == "index" and "ClosestPointOnCurve" in (sc(r["c"][0]).get("t") or ""):
                holders.add(sc(x["c"][0])["r"])
    if not holders:
        raise AnalysisBroken("%s: no local takes the index of the closest-point record" % F.qn)
    n = 0
    for h in holders:
        nm = P.d(h).get("n")
        for x in F.walk():
            k = x.get("k")
            tgt = None
            if k in ("BinaryOperator", "CompoundAssignOperator") and x.get("op") in norm.ASSIGN_OPS:
                tgt = sc(x["c"][0])
            elif k == "UnaryOperator" and x.get("op") in ("++", "--"):
                tgt = sc(x["c"][0])
            if tgt is None or not astq.is_ref_to(tgt, h):
                continue
            n += 1
            ok = False
            if k == "BinaryOperator" and x.get("op") == "=":
                r = sc(x["c"][1])
                ok = (r.get("k") == "MemberExpr" and r.get("n") == "index" and "ClosestPointOnCurve" in (sc(r["c"][0]).get("t") or "")) \
                    or r.get("k") == "IntegerLiteral"
            if ok:
                rep.ok(rule, "%s = %s" % (nm, norm.render(P, x["c"][1])[:50]), F.nloc(x), F.qn)
            else:
                rep.violation(rule, "%s is modified by `%s`" % (nm, norm.render(P, x)[:60]), F.nloc(x), F.qn, norm.render(P, x)[:120],
                              "the section index no longer is the one the curve reported: at the last trench coordinate `index + 1` is past the end of "
                              "every per-section table", key="%s|%s" % (rule, nm),
                              witness="a query whose closest point lies a hair beyond the last trench coordinate (parametric fraction in (1, 1+1e-8])")
    rep.floor(rule, n, 1, "writes of the section index")
