"""SHIFT -- translation invariance of Cartesian kernels by abstract interpretation (C08, first clause).

Every expression gets its *shift degree*: the coefficient c with which a common translation t of all position-valued
inputs enters it (position component: 1, difference of positions: 0, affine combination with weights summing to s: s),
or TOP when t enters non-linearly (a position multiplied by a position, handed to sqrt, ...).  A kernel is translation
invariant when every comparison relates operands of equal degree, every branch condition and every scalar result has
degree 0 and every position result has degree 1.  The analysis is flow-insensitive over the whole function body (loops
and branches are joined), so it is a sufficient condition; TOP at an observable point is reported, unknown constructs
make the rule decline."""
from fractions import Fraction

from .. import astq, norm
from ..astq import sc
from ..tu import AnalysisBroken

TOP = "TOP"


def lin(c):
    return ("lin", Fraction(c))


ZERO = lin(0)
ONE = lin(1)


def join(a, b):
    if a is None:
        return b
    if b is None:
        return a
    if a == TOP or b == TOP:
        return TOP
    return a if a == b else TOP


def is_pos_type(t):
    t = (t or "")
    return "Point<2>" in t or "Point<3>" in t


class Shift:
    def __init__(self, P, F, position_params, summaries=None, position_fields=()):
        self.P, self.F = P, F
        self.env = {}
        for k in position_params:
            self.env[k] = ONE
        self.position_fields = set(position_fields)
        self.summaries = summaries or {}
        self.problems = []      # (node, text)
        self.unknown = []
        self.observed = 0
        self.final = False
        self.depth = 0

    # -- expressions -----------------------------------------------------------------------------------
    def e(self, n, depth=0):
        """shift degree of expression n"""
        P = self.P
        if n is None or depth > 80:
            return ZERO
        n = sc(n)
        if n is None:
            return ZERO
        k = n.get("k")
        c = n.get("c") or []
        r = lambda x: self.e(x, depth + 1)
        if k in ("IntegerLiteral", "FloatingLiteral", "CXXBoolLiteralExpr", "StringLiteral", "CharacterLiteral", "CXXNullPtrLiteralExpr"):
            return ZERO
        if k == "DeclRefExpr":
            if n["r"] in self.env:
                return self.env[n["r"]]
            d = P.d(n["r"])
            if d.get("storage") == "local" and not self.final:
                return None         # not evaluated yet in this fixpoint round (bottom)
            return ZERO
        if k == "MemberExpr":
            if astq.is_this_field(P, n) and n.get("n") in self.position_fields:
                return ONE
            if c and not n.get("arrow") and sc(c[0]) is not None and sc(c[0]).get("k") != "CXXThisExpr":
                return r(c[0])      # a field of a tracked aggregate carries the aggregate's degree
            return ZERO
        if k in ("ParenExpr", "ExprWithCleanups", "MaterializeTemporaryExpr", "CXXBindTemporaryExpr", "ImplicitCastExpr") or k in norm.CASTS:
            return r(c[0]) if c else ZERO
        if k == "UnaryOperator":
            op = n.get("op")
            v = r(c[0])
            if op == "-":
                return v if (v is None or v == TOP or v[0] != "lin") else lin(-v[1])
            if op in ("+", "*", "&"):
                return v
            if op == "!":
                self.observe(c[0], v, "negated condition")
                return ZERO
            if op in ("++", "--"):
                return v
            return v
        if k == "ConditionalOperator":
            self.observe(c[0], r(c[0]), "condition of ?:")
            return join(r(c[1]), r(c[2]))
        if k in ("ArraySubscriptExpr",) or (k == "CXXOperatorCallExpr" and n.get("op") == "[]") or (k == "CXXMemberCallExpr" and c and c[0].get("n") in ("at", "front", "back")):
            s = astq.subscript(n)
            base = s[0] if s else (c[0]["c"][0] if c and c[0].get("c") else None)
            if s:
                self.observe(s[1], r(s[1]), "index")
            return r(base)
        if k in ("BinaryOperator", "CompoundAssignOperator") or (k == "CXXOperatorCallExpr" and len(c) == 2 and n.get("op") in ("+", "-", "*", "/", "<", "<=", ">", ">=", "==", "!=", "=", "+=", "-=", "*=", "/=")):
            op = n.get("op")
            a, b = r(c[0]), r(c[1])
            if op in ("=",):
                self.assign(c[0], b)
                return b
            if op in ("+=", "-=", "*=", "/="):
                v = self.arith(op[0], a, b, n)
                self.assign(c[0], v)
                return v
            if op in ("<", "<=", ">", ">=", "==", "!="):
                self.observed += 1
                if a is None or b is None:
                    return ZERO
                if a == TOP or b == TOP or a != b:
                    self.problems.append((n, "comparison `%s` relates quantities of shift degree %s and %s" % (norm.render(P, n)[:70], self.show(a), self.show(b))))
                return ZERO
            if op in ("&&", "||"):
                self.observe(c[0], a, "condition")
                self.observe(c[1], b, "condition")
                return ZERO
            if op == ",":
                return b
            if op in ("+", "-", "*", "/"):
                return self.arith(op, a, b, n)
            return join(a, b) if (a != ZERO or b != ZERO) else ZERO
        if k in ("CXXConstructExpr", "CXXTemporaryObjectExpr", "InitListExpr", "CXXFunctionalCastExpr"):
            args = [x for x in c if x is not None and x.get("k") != "CXXDefaultArgExpr"]
            vals = [r(x) for x in args if "CoordinateSystem" not in (sc(x).get("t") or "")]
            out = None
            for v in vals:
                out = join(out, v)
            return out if out is not None else ZERO
        if k in ("CallExpr", "CXXMemberCallExpr"):
            return self.call(n, depth)
        if k == "CXXThisExpr":
            return ZERO
        if k in ("LambdaExpr", "CXXNewExpr", "CXXThrowExpr", "UnaryExprOrTypeTraitExpr", "CXXDefaultArgExpr", "CXXScalarValueInitExpr", "ImplicitValueInitExpr"):
            return ZERO
        # anything else: degree of the children joined; a construct that hides a dependence would have to be a call
        out = None
        for x in c:
            if x is not None:
                out = join(out, r(x))
        return out if out is not None else ZERO

    def show(self, v):
        if v is None:
            return "?"
        return "non-linear" if (v == TOP or v[0] != "lin") else str(v[1])

    def arith(self, op, a, b, n):
        if a is None or b is None:
            return None
        if a == TOP or b == TOP:
            return TOP
        if a[0] == "sym" or b[0] == "sym":
            return TOP if (a != ZERO and b != ZERO) or op in ("*", "/") else (a if b == ZERO else (b if a == ZERO and op == "+" else TOP))
        ca, cb = a[1], b[1]
        if op == "+":
            return lin(ca + cb)
        if op == "-":
            return lin(ca - cb)
        if op == "*":
            if ca == 0 and cb == 0:
                return ZERO
            k = self.const_value(n["c"][0]) if cb != 0 else self.const_value(n["c"][1])
            if ca != 0 and cb != 0:
                return TOP
            if k is not None:
                return lin(k * (cb if cb != 0 else ca))
            return ("sym", n)     # a position scaled by a run-time factor: resolved only inside affine combinations
        if op == "/":
            if cb != 0:
                return TOP
            if ca == 0:
                return ZERO
            k = self.const_value(n["c"][1])
            return lin(ca / k) if k else ("sym", n)
        return TOP

    def const_value(self, e):
        e = sc(e)
        if e is None:
            return None
        if e.get("k") in ("IntegerLiteral", "FloatingLiteral"):
            try:
                return Fraction(str(e.get("vs", e.get("v"))))
            except Exception:
                return Fraction(e.get("v"))
        if e.get("k") == "UnaryOperator" and e.get("op") == "-":
            v = self.const_value(e["c"][0])
            return -v if v is not None else None
        if e.get("k") in norm.CASTS + ("ImplicitCastExpr", "ParenExpr"):
            return self.const_value(e["c"][0])
        return None

    def call(self, n, depth):
        P = self.P
        d = P.d(n.get("callee")) if n.get("callee") else {}
        qn = d.get("qn", "")
        nm = d.get("n", "")
        c = n["c"]
        args = [a for a in c[1:] if a is not None and a.get("k") != "CXXDefaultArgExpr"]
        recv = None
        if n.get("k") == "CXXMemberCallExpr" and c[0].get("k") == "MemberExpr" and c[0].get("c"):
            recv = c[0]["c"][0]
        vals = [self.e(a, depth + 1) for a in args]
        rv = self.e(recv, depth + 1) if recv is not None else None
        # accessors that hand out (a component of) the object
        if nm in ("get_array", "get_surface_point", "get_surface_coordinates", "begin", "end", "data", "get_coordinates") and recv is not None:
            return rv
        if nm in ("size", "empty", "get_coordinate_system", "natural_coordinate_system"):
            return ZERO
        if nm in ("norm", "norm_square") and recv is not None:
            self.observed += 1
            if rv != ZERO:
                self.problems.append((n, "`%s` takes the length of a quantity of shift degree %s (a position, not a difference)" % (norm.render(P, n)[:60], self.show(rv))))
            return ZERO
        if nm in ("distance", "cheap_relative_distance_cartesian", "cheap_relative_distance_spherical") and recv is not None and len(vals) == 1:
            self.observed += 1
            if rv != vals[0]:
                self.problems.append((n, "`%s` measures between quantities of shift degree %s and %s" % (norm.render(P, n)[:60], self.show(rv), self.show(vals[0]))))
            return ZERO
        if nm in ("push_back", "emplace_back", "resize", "assign", "insert") and recv is not None:
            out = None
            for v in vals[-1:]:
                out = join(out, v)
            if out is not None and nm != "resize":
                self.assign(recv, out)
            elif nm == "resize" and len(vals) == 2:
                self.assign(recv, vals[1])
            return ZERO
        if qn in self.summaries:
            return self.summaries[qn](self, n, vals)
        if qn in ("std::min", "std::max") and len(vals) == 2:
            self.observed += 1
            if vals[0] != vals[1]:
                self.problems.append((n, "`%s` compares quantities of shift degree %s and %s" % (norm.render(P, n)[:60], self.show(vals[0]), self.show(vals[1]))))
            return join(vals[0], vals[1])
        if qn in ("std::min_element", "std::max_element") and vals:
            return vals[0]
        if qn in ("std::move",) and vals:
            return vals[0]
        # any other function: fine when nothing shift-dependent goes in
        allv = vals + ([rv] if rv is not None else [])
        if all(v == ZERO for v in allv):
            return ZERO
        if all((v != TOP and v[0] == "lin" and v[1] == 0) for v in allv):
            return ZERO
        # a function whose body is available: analyse it with the degrees of the actual arguments (interprocedural step)
        G = P.funcs.get(n.get("callee")) if n.get("callee") else None
        if G is not None and G.body is not None and G is not self.F and not qn.startswith(("std::", "__gnu_cxx::")) and self.depth < 4 and len(G.params) == len(vals) and all(v is not None for v in vals):
            sub = Shift(P, G, [], summaries=self.summaries, position_fields=self.position_fields)
            sub.depth = self.depth + 1
            for pk, v in zip(G.params, vals):
                if v != ZERO:
                    sub.env[pk] = v
            sub.run(result_degree=None)
            self.observed += sub.observed
            for (nd, txt) in sub.problems:
                self.problems.append((n, "in %s: %s" % (G.qn.split("::")[-1], txt)))
            self.unknown += sub.unknown
            out = None
            for y in G.walk(G.body):
                if y.get("k") == "ReturnStmt" and y.get("c"):
                    sub.final = True
                    out = join(out, sub.e(y["c"][0]))
            return out if out is not None else ZERO
        if any(v is None for v in allv):
            return None
        if qn.startswith("std::") and nm in ("pow", "sqrt", "sin", "cos", "tan", "fabs", "abs", "exp", "log", "atan2", "acos", "asin", "atan", "fmod", "floor", "ceil", "round", "hypot"):
            return TOP       # a non-linear function of a translation-dependent quantity; judged where it is observed
        # a function this analysis cannot look into, fed with a translation-dependent quantity: cannot judge
        self.unknown.append("`%s` receives a quantity of shift degree %s and is not analysed" % (norm.render(P, n)[:70], ", ".join(self.show(v) for v in allv if v != ZERO)))
        return ZERO

    # -- statements ------------------------------------------------------------------------------------
    def assign(self, target, v):
        t = sc(target)
        while t is not None:
            s = astq.subscript(t)
            if s is not None:
                t = sc(s[0])
                continue
            if t.get("k") == "MemberExpr" and t.get("c") and not t.get("arrow") and sc(t["c"][0]) is not None and sc(t["c"][0]).get("k") != "CXXThisExpr":
                t = sc(t["c"][0])
                continue
            if t.get("k") == "CXXMemberCallExpr" and t["c"][0].get("n") in ("back", "front", "at") and t["c"][0].get("c"):
                t = sc(t["c"][0]["c"][0])
                continue
            break
        if t is not None and t.get("k") == "DeclRefExpr":
            old = self.env.get(t["r"])
            new = join(old, v) if old is not None else v
            if new != old:
                self.env[t["r"]] = new
                self.changed = True

    def observe(self, node, v, what):
        if v is None:
            return
        if v != TOP and v[0] == "sym":
            v = TOP
        self.observed += 1
        if v != ZERO and not (v != TOP and v[0] == "lin" and v[1] == 0):
            self.problems.append((node, "%s `%s` has shift degree %s" % (what, norm.render(self.P, node)[:60], self.show(v))))

    def run(self, result_degree=None):
        F = self.F
        for it in range(16):
            self.changed = False
            self.problems = []
            self.unknown = []
            self.observed = 0
            for n in F.walk(F.body):
                k = n.get("k")
                if k == "VarDecl" and n.get("c"):
                    v = self.e(n["c"][0])
                    if v is None:
                        continue
                    if v == ZERO and is_pos_type(n.get("t")) and not any(y.get("k") == "FloatingLiteral" for y in F.walk(n["c"][0])):
                        continue      # a placeholder (default / sized construction) that is filled in later: no value yet
                    old = self.env.get(n["r"])
                    new = join(old, v) if old is not None else v
                    if new != old:
                        self.env[n["r"]] = new
                        self.changed = True
                elif k == "CXXForRangeStmt":
                    v = self.e(n["c"][1])
                    if v is None:
                        continue
                    lv = n["c"][0].get("r")
                    old = self.env.get(lv)
                    new = join(old, v) if old is not None else v
                    if new != old:
                        self.env[lv] = new
                        self.changed = True
            # expression statements and conditions (second pass so that declarations are known)
            for n in F.walk(F.body):
                k = n.get("k")
                par = F.parent.get(n["i"])
                pk = par.get("k") if par is not None else None
                if k in ("IfStmt", "WhileStmt"):
                    self.observe(n["c"][0], self.e(n["c"][0]), "condition")
                elif k == "ForStmt" and n["c"][1] is not None:
                    self.observe(n["c"][1], self.e(n["c"][1]), "loop condition")
                elif k == "ReturnStmt" and n.get("c") and result_degree is not None:
                    v = self.e(n["c"][0])
                    self.observed += 1
                    if v is not None and v != lin(result_degree):
                        self.problems.append((n, "the result `%s` has shift degree %s, expected %s" % (norm.render(self.P, n["c"][0])[:60], self.show(v), result_degree)))
                elif pk in ("CompoundStmt",) and k in ("BinaryOperator", "CompoundAssignOperator", "CXXOperatorCallExpr", "CXXMemberCallExpr", "CallExpr", "UnaryOperator"):
                    self.e(n)
            if not self.changed:
                if self.final:
                    break
                self.final = True      # one more round in which still-unknown locals count as shift independent, and reports are kept
        # unresolved run-time scalings of positions that reached an observable point are TOP
        self.problems = [(n, t) for (n, t) in self.problems]
        return self.problems


def translation_invariance(P, rep, rule="SHIFT.translation"):
    rep.rule(rule, "Cartesian kernels are invariant under a common translation of all their position arguments: by abstract interpretation "
                   "every expression gets the coefficient with which the translation enters it (position 1, difference 0, affine "
                   "combination = sum of weights, non-linear = TOP); all comparisons relate equal degrees, all conditions, lengths and "
                   "scalar results have degree 0, position results degree 1")
    targets = [
        ("WorldBuilder::Utilities::polygon_contains_point_implementation", 0, None),
        ("WorldBuilder::Utilities::signed_distance_to_polygon", 0, None),
        ("WorldBuilder::Utilities::fraction_from_ellipse_center", 0, None),
    ]
    n = 0
    for qn, result_degree, _ in targets:
        fs = [f for f in P.funcs_named(qn) if f.body is not None]
        if not fs:
            raise AnalysisBroken("kernel %s not found" % qn)
        F = fs[0]
        pos = [pk for pk in F.params if is_pos_type(P.d(pk).get("t"))]
        if not pos:
            rep.unknown(rule, "%s: no position parameters" % qn)
            continue
        def approx_summary(sh, node, vals):
            # approx(a, b[, tol]): an equality test with a relative tolerance -- a comparison of its first two arguments
            sh.observed += 1
            if len(vals) >= 2 and vals[0] != vals[1]:
                sh.problems.append((node, "`%s` compares quantities of shift degree %s and %s" % (norm.render(P, node)[:60], sh.show(vals[0]), sh.show(vals[1]))))
            return ZERO
        summaries = {
            "WorldBuilder::Utilities::approx": approx_summary,
            "WorldBuilder::Utilities::polygon_contains_point": lambda sh, node, vals: ZERO if all(v == ONE for v in vals) else TOP,
            "WorldBuilder::Utilities::polygon_contains_point_implementation": lambda sh, node, vals: ZERO if all(v == ONE for v in vals) else TOP,
        }
        sh = Shift(P, F, pos, summaries=summaries)
        problems = sh.run(result_degree=result_degree)
        n += 1
        if sh.unknown and not problems:
            rep.unknown(rule, "%s: %s" % (qn.split("::")[-1], sh.unknown[0]))
        elif sh.observed < 3:
            rep.unknown(rule, "%s: only %d observable points analysed" % (qn, sh.observed))
        elif problems:
            node, text = problems[0]
            rep.violation(rule, "%s: %s" % (qn.split("::")[-1], text), F.nloc(node), F.qn, norm.render(P, node)[:140],
                          "the value changes when the world and the query are translated together", key="%s|%s" % (rule, qn),
                          witness="the same world and query translated by (1e6, -2e6) m")
        else:
            rep.ok(rule, "%s: %d comparisons / lengths / conditions, all of shift degree 0; result degree %s" % (qn.split("::")[-1], sh.observed, result_degree), F.loc, F.qn)
    rep.floor(rule, n, 3, "Cartesian kernels")
