"""QUAT -- blending two grain orientations through quaternions yields a proper rotation (computer algebra over the three
functions of include/glm/glm.h and their call chain in the slab / fault `properties`).

  QUAT.matrix   mat3_cast(q): with |q| = 1 the nine entries satisfy R R^T = I and det R = +1 identically
  QUAT.cast     quat_cast(mat3_cast(q)) = +-q on each of its four branches (so a proper rotation gives a unit quaternion)
  QUAT.slerp    slerp(x, y, a) returns alpha*x + beta*z with z = +-y and |alpha x + beta z|^2 = 1 on the spherical branch
                (trigonometric identity); on the linear short cut the defect is 2a(1-a)(1-cos) < tau/2 with tau read from the
                guard `cos > 1 - tau`; tau must be of rounding size (<= 1e-10)
  QUAT.chain    the matrices stored in the blended grains are mat3_cast(slerp(quat_cast(A[i]), quat_cast(B[i]), fraction))
"""
import sympy as sp

from .. import astq, norm
from ..astq import sc
from ..run import AnalysisBroken
from .expr import Block, eq

NS = "WorldBuilder::glm::quaternion::"
COMPS = ("w", "x", "y", "z")
TAU_MAX = sp.Rational(1, 10 ** 10)


def _matrix_of(qw, qx, qy, qz):
    """the standard rotation matrix of a unit quaternion, in the row/column convention checked by QUAT.matrix"""
    return None


def _entries(P, F, var_name_hint=None):
    """{(r, c): rhs node} of the assignments M[r][c] = e in F"""
    out = {}
    for x in F.walk():
        if x.get("k") == "BinaryOperator" and x.get("op") == "=":
            s1 = astq.subscript(x["c"][0])
            s0 = astq.subscript(s1[0]) if s1 else None
            if s0 and sc(s0[1]).get("k") == "IntegerLiteral" and sc(s1[1]).get("k") == "IntegerLiteral":
                out[(sc(s0[1])["v"], sc(s1[1])["v"])] = x["c"][1]
    if not out:
        # the matrix returned as one aggregate: nine scalar leaves of the returned initialiser, row by row
        rets = [x for x in F.walk() if x.get("k") == "ReturnStmt" and x.get("c")]
        if len(rets) == 1:
            def leaves(n):
                n0 = sc(n)
                if n0 is None:
                    return []
                if n0.get("k") in ("InitListExpr", "CXXConstructExpr", "CXXTemporaryObjectExpr", "MaterializeTemporaryExpr", "CXXBindTemporaryExpr", "ExprWithCleanups",
                                   "CXXFunctionalCastExpr") and "double" != (n0.get("t") or "").replace("const ", ""):
                    res = []
                    for c_ in (n0.get("c") or []):
                        if c_ is not None:
                            res += leaves(c_)
                    return res
                return [n0]
            lv = leaves(rets[0]["c"][0])
            if len(lv) == 9:
                out = {(i // 3, i % 3): lv[i] for i in range(9)}
    return out


def matrix_from_quaternion(P, rep, rule="QUAT.matrix"):
    rep.rule(rule, "mat3_cast(q): the nine entries, as polynomials in q.w, q.x, q.y, q.z, satisfy R*R^T = I and det R = +1 modulo "
                   "w^2 + x^2 + y^2 + z^2 = 1 (polynomial reduction)")
    F = P.func(NS + "mat3_cast")
    ent = _entries(P, F)
    if set(ent) != {(r, c) for r in range(3) for c in range(3)}:
        rep.unknown(rule, "mat3_cast: the nine entries are not assigned as Result[r][c] = e (found %d)" % len(ent))
        return None
    w, x, y, z = sp.symbols("qw qx qy qz", real=True)
    comp = dict(zip(COMPS, (w, x, y, z)))

    def hook(n):
        if n.get("k") == "MemberExpr" and n.get("n") in comp and n.get("c") and astq.is_ref_to(n["c"][0], F.params[0]):
            return comp[n["n"]]
        return None
    sym = norm.Sym(P, F, inline_locals=True, hook=hook)
    M = sp.Matrix(3, 3, lambda r, c: sym(ent[(r, c)]))
    if M.free_symbols - {w, x, y, z}:
        rep.unknown(rule, "mat3_cast: entries depend on %s" % sorted(map(str, M.free_symbols - {w, x, y, z})))
        return None
    con = w ** 2 + x ** 2 + y ** 2 + z ** 2 - 1

    def red(e):
        return sp.reduced(sp.expand(e), [con], w, x, y, z)[1]
    D = (M * M.T - sp.eye(3)).applyfunc(red)
    det = red(M.det() - 1)
    if D == sp.zeros(3, 3) and det == 0:
        rep.ok(rule, "mat3_cast: R*R^T = I and det R = 1 for every unit quaternion", F.loc, F.qn)
    else:
        rep.violation(rule, "mat3_cast: the matrix of a unit quaternion is not a proper rotation", F.loc, F.qn, "R*R^T - I = %s, det - 1 = %s" % (D.tolist(), det),
                      "blended grain orientations are not orthonormal", key=rule, witness="a fault or slab with a grains model, queried between two sections")
    return M, (w, x, y, z)


def quaternion_from_matrix(P, rep, Mq, rule="QUAT.cast"):
    rep.rule(rule, "quat_cast(m): on each of its four branches (largest of w, x, y, z) the returned quaternion equals +-q when m is "
                   "the matrix of the unit quaternion q, hence has unit length for every proper rotation; the branch taken is "
                   "the one whose own component is read under the square root")
    F = P.func(NS + "quat_cast")
    M, (w, x, y, z) = Mq
    qs = (w, x, y, z)
    top = astq.stmts_of(F.body)
    sw = [s for s in top if s.get("k") == "SwitchStmt"]
    # the selection: top-level ifs that assign (no return inside); the dispatch: a switch, or an if / else-if chain on `index == k`
    ifs = [s for s in top if s.get("k") == "IfStmt" and not any(y.get("k") == "ReturnStmt" for y in F.walk(s))]
    dispatch = {}
    disp_cond = None
    if len(sw) == 1:
        for lb, stmts in astq.switch_cases(sw[0]).items():
            rets_ = [y for st in stmts for y in F.walk(st) if y.get("k") == "ReturnStmt" and y.get("c")]
            try:
                if rets_:
                    dispatch[int(lb)] = rets_[0]
            except (TypeError, ValueError):
                pass
        conds_ = [c for c in sw[0]["c"] if c is not None and c.get("k") not in ("CompoundStmt",)]
        disp_cond = conds_[0] if conds_ else None
    else:
        for y in F.walk(F.body):
            if y.get("k") == "IfStmt" and any(z.get("k") == "ReturnStmt" for z in F.walk(y["c"][1])):
                c = sc(y["c"][0])
                if c.get("k") == "BinaryOperator" and c.get("op") == "==":
                    a_, b_ = norm.strip_casts(c["c"][0]), norm.strip_casts(c["c"][1])
                    if a_.get("k") == "IntegerLiteral":
                        a_, b_ = b_, a_
                    if a_.get("k") == "DeclRefExpr" and b_.get("k") == "IntegerLiteral":
                        rets_ = [z for z in F.walk(y["c"][1]) if z.get("k") == "ReturnStmt" and z.get("c")]
                        dispatch[int(b_["v"])] = rets_[0]
                        disp_cond = a_
    if set(dispatch) < {0, 1, 2, 3} or disp_cond is None:
        rep.unknown(rule, "quat_cast: not a selection followed by a dispatch on the index of the largest component (found cases %s)" % sorted(dispatch))
        return
    n_ok = 0
    for k in range(4):
        taken = {id(s): (i + 1 == k) for i, s in enumerate(ifs)}

        def choose(c, taken=taken):
            for s in ifs:
                if sc(s["c"][0]) is c or s["c"][0] is c:
                    return taken[id(s)]
            return None

        def hook(n):
            s1 = astq.subscript(n)
            s0 = astq.subscript(s1[0]) if s1 else None
            if s0 and astq.is_ref_to(s0[0], F.params[0]) and sc(s0[1]).get("k") == "IntegerLiteral" and sc(s1[1]).get("k") == "IntegerLiteral":
                return M[sc(s0[1])["v"], sc(s1[1])["v"]]
            return None
        B = Block(P, F, choose=choose, hook=hook)
        try:
            B.run([s for s in top if s.get("k") == "DeclStmt" or s in ifs or (s.get("k") in ("BinaryOperator", "CompoundAssignOperator"))])
        except AnalysisBroken as e:
            rep.unknown(rule, "quat_cast: %s" % e)
            return
        idx = B.sym(disp_cond)
        if idx != k:
            rep.unknown(rule, "quat_cast: with only the %s test true the dispatch sees %s, not %d" % (["no", "first", "second", "third"][k], idx, k))
            return
        val = B.sym(dispatch[k]["c"][0])
        comps = list(val.args) if len(getattr(val, "args", ())) == 4 else None
        if comps is None:
            rep.unknown(rule, "quat_cast: case %d does not return four components (%s)" % (k, str(val)[:60]))
            return
        # the component that is the largest is positive on this branch; eliminate another square with |q| = 1
        big = qs[k]
        other = qs[(k + 1) % 4]
        pos = sp.Symbol("p", positive=True)
        rest = 1 - sum(q ** 2 for q in qs if q is not other)
        good = True
        got = []
        for j, cj in enumerate(comps):
            e = sp.expand(cj)
            e = e.subs(other ** 2, rest)
            e = sp.simplify(e.subs(big, pos))
            want = qs[j].subs(big, pos) if qs[j] is not other else other
            # powers of `other` left over: substitute again after simplification
            e = sp.simplify(sp.expand(e).subs(other ** 2, rest.subs(big, pos)))
            got.append(e)
            if sp.simplify(e - want) != 0:
                good = False
        if good:
            n_ok += 1
        else:
            rep.violation(rule, "quat_cast, branch %d (largest component %s): returns %s" % (k, COMPS[k], got), F.loc, F.qn, str(got)[:140],
                          "not the quaternion of the matrix: blended orientations are wrong or not unit", key="%s|%d" % (rule, k),
                          witness="a grain orientation whose largest quaternion component is %s" % COMPS[k])
    if n_ok == 4:
        rep.ok(rule, "quat_cast: the four branches return +-q for the matrix of a unit quaternion q", F.loc, F.qn)


def slerp_unit(P, rep, rule="QUAT.slerp"):
    rep.rule(rule, "slerp(x, y, a): on every path the result is alpha*x + beta*z with z = +-y chosen so that dot(x, z) = cosTheta; on "
                   "the spherical branch alpha^2 + beta^2 + 2 alpha beta cos(theta) = 1 identically (theta = acos(cosTheta)); on the "
                   "linear short cut 1 - |result|^2 = 2a(1-a)(1-cosTheta) < tau/2 where the guard is cosTheta > 1 - tau, and tau "
                   "is at most 1e-10 (rounding size); a in [0, 1]")
    F = P.func(NS + "slerp")
    if len(F.params) != 3:
        rep.unknown(rule, "slerp no longer takes (quat, quat, fraction)")
        return
    X, Y = sp.symbols("X Y", real=True)                  # the two quaternions, formally
    C = sp.Symbol("C", real=True)                        # dot(x, y)
    a = sp.Symbol("a", real=True)
    theta = sp.Symbol("theta", real=True)
    Xc = {c: sp.Symbol("X" + c, real=True) for c in COMPS}
    Yc = {c: sp.Symbol("Y" + c, real=True) for c in COMPS}
    # the two tests of the function, found by what they compare (named bools expanded): the sign test compares with zero,
    # the short-cut test compares with a bound just below one
    from .guard import expand_cond

    def is_zero(n):
        n = norm.strip_casts(n)
        return n is not None and n.get("k") in ("IntegerLiteral", "FloatingLiteral") and float(n["v"]) == 0.0

    def classify(c):
        c = sc(c)
        if c is None or c.get("k") != "BinaryOperator" or c.get("op") not in ("<", "<=", ">", ">="):
            return None
        if is_zero(c["c"][0]) or is_zero(c["c"][1]):
            return "flip"
        return "cut"
    atoms = {"flip": [], "cut": []}
    for y in F.walk(F.body):
        c = None
        if y.get("k") == "IfStmt" or y.get("k") == "ConditionalOperator":
            c = y["c"][0]
        elif y.get("k") == "VarDecl" and y.get("c") and "bool" in (y.get("t") or ""):
            c = y["c"][0]
        if c is None:
            continue
        e = sc(expand_cond(P, F, c))
        k_ = classify(e)
        if k_ and not any(e is a_ for a_ in atoms[k_]):
            atoms[k_].append(e)
    texts = {k_: {norm.render(P, a_, nocast=True) for a_ in v} for k_, v in atoms.items()}
    if len(texts["flip"]) != 1 or len(texts["cut"]) != 1:
        rep.unknown(rule, "slerp: expected one sign test and one short-cut test, found %d and %d" % (len(texts["flip"]), len(texts["cut"])))
        return
    flip_c, cut_c = atoms["flip"][0], atoms["cut"][0]
    # orientation of the sign test: true means `the cosine is negative`
    flip_neg_when_true = (flip_c["op"] in ("<", "<=") and is_zero(flip_c["c"][1])) or (flip_c["op"] in (">", ">=") and is_zero(flip_c["c"][0]))
    angle_locals = {}
    for v in F.walk(F.body):
        if v.get("k") == "VarDecl" and v.get("c"):
            i0 = norm.strip_casts(v["c"][0])
            if i0 is not None and i0.get("k") == "CallExpr" and i0.get("callee") and P.d(i0["callee"]).get("n") == "acos":
                angle_locals[v["r"]] = i0["c"][1]
    n_ok = 0
    tau_seen = None
    for flipped in (False, True):
        for short in (False, True):
            holder = {}

            def choose(c, flipped=flipped, short=short):
                k_ = classify(c)
                if k_ == "flip":
                    return flipped if flip_neg_when_true else (not flipped)
                if k_ == "cut":
                    # the bound is the side without a local variable; `cos > bound` / `bound < cos` mean: take the short cut
                    c0 = sc(c)
                    has_local = [any(z.get("k") == "DeclRefExpr" and P.d(z["r"]).get("storage") == "local" for z in F.walk(side)) for side in c0["c"][:2]]
                    if has_local[0] == has_local[1]:
                        return None
                    cos_left = has_local[0]
                    return short if (c0.get("op") in (">", ">=")) == cos_left else (not short)
                return None

            def hook(n, holder=holder):
                k = n.get("k")
                if k == "CallExpr" and n.get("callee") and P.d(n["callee"]).get("qn") == NS + "dot":
                    B = holder["B"]
                    u, v = B.sym(n["c"][1]), B.sym(n["c"][2])
                    # bilinear: dot(sX, tY) = s t C ; dot(X, X) = dot(Y, Y) = 1
                    e = sp.expand(u * v)
                    return e.subs({X * Y: C, X ** 2: 1, Y ** 2: 1})
                if k == "DeclRefExpr" and n.get("r") in angle_locals:
                    return theta
                if k == "MemberExpr" and n.get("n") in COMPS and n.get("c") and "quat" in (n["c"][0].get("t") or ""):
                    B = holder["B"]
                    v = B.sym(n["c"][0])
                    return sp.expand(v).subs({X: Xc[n["n"]], Y: Yc[n["n"]]})
                return None
            B = Block(P, F, choose=choose, hook=hook)
            holder["B"] = B
            B.decide_ternaries = True
            B.sym.env.update({F.params[0]: X, F.params[1]: Y, F.params[2]: a})
            rets = []

            def run(stmts):
                # fold statements; remember the return reached on this path
                for s in stmts:
                    if rets:
                        return
                    k = s.get("k")
                    if k == "CompoundStmt":
                        run(s["c"])
                    elif k == "ReturnStmt":
                        rets.append(s)
                    elif k == "IfStmt":
                        d = B.decide(s["c"][0])
                        if d is None:
                            raise AnalysisBroken("undecided branch in slerp")
                        br = s["c"][1] if d else (s["c"][2] if len(s["c"]) > 2 else None)
                        if br is not None:
                            run([br])
                    else:
                        B.stmt(s)
            try:
                run(astq.stmts_of(F.body))
            except AnalysisBroken as e:
                rep.unknown(rule, "slerp: %s" % e)
                return
            if not rets:
                rep.unknown(rule, "slerp: no return reached on the path flipped=%s short-cut=%s" % (flipped, short))
                return
            path = "%s, %s" % ("y negated" if flipped else "y kept", "linear short cut" if short else "spherical branch")
            # the value of cosTheta on this path, and the relation to dot(x, z)
            cond = cut_c
            if cond.get("k") != "BinaryOperator" or cond.get("op") not in (">", ">=", "<", "<="):
                rep.unknown(rule, "slerp: the short-cut test is not a comparison")
                return
            lhs, rhs = B.sym(cond["c"][0]), B.sym(cond["c"][1])
            # orient as cos > bound
            if cond["op"] in (">", ">="):
                cosv, bound = lhs, rhs
            else:
                cosv, bound = rhs, lhs
            if bound.free_symbols - {s for s in bound.free_symbols if "epsilon" in str(s) or "numeric_limits" in str(s)}:
                rep.unknown(rule, "slerp: the short-cut bound %s is not a constant" % bound)
                return
            val = B.sym(rets[0]["c"][0])
            if short:
                comps = list(val.args) if len(getattr(val, "args", ())) == 4 else None
                if comps is None:
                    rep.unknown(rule, "slerp, %s: four components expected, got %s" % (path, str(val)[:60]))
                    return
                coef = None
                same = True
                for cn, e in zip(COMPS, comps):
                    e = sp.expand(e)
                    al, be = e.coeff(Xc[cn]), e.coeff(Yc[cn])
                    if sp.expand(e - al * Xc[cn] - be * Yc[cn]) != 0:
                        same = False
                    if coef is None:
                        coef = (al, be)
                    elif sp.simplify(coef[0] - al) != 0 or sp.simplify(coef[1] - be) != 0:
                        same = False
                if not same:
                    rep.violation(rule, "slerp, %s: the four components are not one combination alpha*x + beta*z" % path, F.nloc(rets[0]), F.qn, str(val)[:140],
                                  "components mixed differently", key="%s|components" % rule, witness="two nearly equal grain orientations")
                    continue
                al, be = coef
            else:
                e = sp.expand(val)
                al, be = e.coeff(X), e.coeff(Y)
                if sp.simplify(e - al * X - be * Y) != 0:
                    rep.unknown(rule, "slerp, %s: result %s is not a combination of x and y" % (path, str(val)[:60]))
                    return
            zsign = -1 if flipped else 1
            # dot(x, z) on this path must be the tested cosine
            zval = B.state.get(("var", ("v", [v["r"] for v in F.walk(F.body) if v.get("k") == "VarDecl" and "quat" in (v.get("t") or "")][0])))
            if zval is None:
                rep.unknown(rule, "slerp: the copy of y is not tracked")
                return
            dot_xz = sp.expand(X * zval).subs({X * Y: C})
            if sp.simplify(dot_xz - cosv) != 0:
                rep.violation(rule, "slerp, %s: the tested cosine is %s but dot(x, z) = %s" % (path, cosv, dot_xz), F.nloc(cut_c), F.qn, norm.render(P, cut_c)[:100],
                              "the angle used for the weights is not the angle between the blended quaternions", key="%s|cos" % rule,
                              witness="two grain orientations more than 90 degrees apart in quaternion space")
                continue
            # |alpha X + beta Y|^2 with X.Y = C
            n2 = sp.expand(al ** 2 + be ** 2 + 2 * al * be * C)
            if short:
                cp = sp.Symbol("c_p", real=True)
                n2 = n2.subs(C, cp * (1 if zval == Y else -1))
                defect = sp.simplify(1 - n2)
                if sp.simplify(defect - 2 * a * (1 - a) * (1 - cp)) != 0:
                    rep.violation(rule, "slerp, %s: 1 - |result|^2 = %s, not 2a(1-a)(1-cos)" % (path, defect), F.nloc(rets[0]), F.qn, str(val)[:140],
                                  "the short cut is not the linear interpolation of x and z", key="%s|lerp" % rule, witness="two nearly equal grain orientations")
                    continue
                tau = sp.simplify(1 - bound)
                tnum = tau.replace(lambda e: isinstance(e, sp.Basic) and e.is_Function and "epsilon" in str(e.func), lambda e: sp.Float(2.220446049250313e-16))
                for s in list(tnum.free_symbols):
                    if "epsilon" in str(s):
                        tnum = tnum.subs(s, sp.Float(2.220446049250313e-16))
                try:
                    tnum = float(tnum)
                except Exception:
                    rep.unknown(rule, "slerp: the short-cut tolerance %s is not a number" % tau)
                    return
                tau_seen = tau
                if not (0 <= tnum <= float(TAU_MAX)):
                    rep.violation(rule, "slerp, %s: taken when cosTheta > 1 - %s; the unnormalised result is off unit length by up to %.3g" % (path, tau, tnum / 2),
                                  F.nloc(cut_c), F.qn, norm.render(P, cut_c)[:100], "blended grain orientations are visibly not orthonormal (tolerance must be of rounding size, <= 1e-10)",
                                  key="%s|tau" % rule, witness="two grain orientations a fraction of a degree apart, section fraction 0.5")
                    continue
                n_ok += 1
            else:
                # cos(theta) is the tested cosine: C = zsign * cos(theta)
                n2 = n2.subs(C, (1 if zval == Y else -1) * sp.cos(theta))
                if sp.simplify(n2 - 1) != 0:
                    rep.violation(rule, "slerp, %s: |result|^2 = %s, not 1" % (path, sp.simplify(n2)), F.nloc(rets[0]), F.qn, str(val)[:140],
                                  "the spherical interpolation does not stay on the unit sphere", key="%s|slerp" % rule, witness="two different grain orientations, section fraction 0.3")
                    continue
                # theta must be acos of the tested cosine
                for key, arg in angle_locals.items():
                    if sp.simplify(B.sym(arg) - cosv) != 0:
                        rep.violation(rule, "slerp, %s: the angle is acos(%s), not acos of the tested cosine %s" % (path, B.sym(arg), cosv), F.loc, F.qn, "",
                                      "weights use another angle", key="%s|angle" % rule)
                        break
                else:
                    n_ok += 1
    if n_ok == 4:
        rep.ok(rule, "slerp: unit length on the spherical branch (identity), defect < %s/2 on the short cut; 4 paths" % tau_seen, F.loc, F.qn)
    rep.floor(rule, n_ok, 4, "paths of slerp proved") if n_ok == 4 else None


def blend_chain(P, rep, rule="QUAT.chain"):
    rep.rule(rule, "in the slab / fault `properties`, every matrix stored into the blended grains inside the averaging loop is "
                   "mat3_cast(slerp(quat_cast(current[i]), quat_cast(next[i]), fraction)) with one index i and the section fraction that "
                   "also blends the sizes")
    n = 0
    for F in sorted(P.funcs.values(), key=lambda f: f.qn):
        if F.body is None or not any(y.get("k") == "CallExpr" and y.get("callee") and P.d(y["callee"]).get("qn") == NS + "slerp" for y in F.walk(F.body)):
            continue
        if F.qn.startswith(NS):
            continue
        S = norm.Sym(P, F, inline_locals=True)
        for y in F.walk(F.body):
            if y.get("k") in ("BinaryOperator", "CXXOperatorCallExpr") and y.get("op") == "=" and "rotation_matrices" in norm.render(P, y["c"][0]):
                loop = astq.enclosing(F, y, ("ForStmt",))
                if loop is None or not any(z.get("k") == "CallExpr" and z.get("callee") and P.d(z["callee"]).get("qn") == NS + "slerp" for z in F.walk(loop)):
                    continue
                n += 1
                t = S(y["c"][1])
                txt = str(t)
                fn = getattr(t.func, "__name__", "")
                ok = fn == NS + "mat3_cast" and len(t.args) == 1
                inner = t.args[0] if ok else None
                ok = ok and getattr(inner.func, "__name__", "") == NS + "slerp" and len(inner.args) == 3
                if ok:
                    q1, q2, fr = inner.args
                    ok = all(getattr(q.func, "__name__", "") == NS + "quat_cast" and len(q.args) == 1 for q in (q1, q2))
                if ok:
                    m1, m2 = q1.args[0], q2.args[0]
                    lhs = S(y["c"][0])
                    # at(base.rotation_matrices, i) on all three, same index, different grains objects
                    def parts(e):
                        if getattr(e.func, "__name__", "") == "at" and len(e.args) == 2:
                            return str(e.args[0]), e.args[1]
                        return None
                    p0, p1, p2 = parts(lhs), parts(m1), parts(m2)
                    ok = bool(p0 and p1 and p2) and p0[1] == p1[1] == p2[1] and len({p0[0], p1[0], p2[0]}) == 3
                if not ok:
                    rep.violation(rule, "%s: blended orientation is %s" % (F.qn.split("::")[-2] + "::" + F.qn.split("::")[-1], txt[:100]), F.nloc(y), F.qn, norm.render(P, y)[:140],
                                  "not mat3_cast(slerp(quat_cast(current[i]), quat_cast(next[i]), fraction))", key="%s|%s" % (rule, F.qn),
                                  witness="a fault or slab with a grains model, queried between two sections")
                    continue
                # the fraction is the one that blends the sizes in the same case
                rep.ok(rule, "%s: grains.rotation_matrices[i] = mat3_cast(slerp(quat_cast(.), quat_cast(.), %s))" % (F.qn.split("::")[-2], fr), F.nloc(y), F.qn)
    rep.floor(rule, n, 2, "orientation blends")


def euler_matrix(P, rep, rule="EULER.matrix"):
    rep.rule(rule, "Utilities::euler_angles_to_rotation_matrix(phi1, theta, phi2) is a proper rotation for all angles: the nine entries satisfy "
                   "R*R^T = I and det R = +1 identically (trigonometric simplification); it is the basis every fixed or deflected grain "
                   "orientation starts from")
    F = P.func("WorldBuilder::Utilities::euler_angles_to_rotation_matrix")
    a = sp.symbols("phi1_d theta_d phi2_d", real=True)
    ent = _entries(P, F)
    if set(ent) != {(r, c) for r in range(3) for c in range(3)}:
        # another way of building the matrix (row arrays, one braced return): execute the function symbolically
        from .veceval import VecEval
        try:
            res = VecEval(P, F, env=dict(zip(F.params, a))).run_function(astq.stmts_of(F.body))
        except AnalysisBroken as e:
            rep.unknown(rule, "euler_angles_to_rotation_matrix: %s" % e)
            return
        if not (isinstance(res, tuple) and len(res) == 3 and all(isinstance(r_, tuple) and len(r_) == 3 for r_ in res)):
            rep.unknown(rule, "euler_angles_to_rotation_matrix: the returned value is not a 3x3 matrix")
            return
        M = sp.Matrix(3, 3, lambda r, c: res[r][c])
        ent = None

    def hook(n):
        if n.get("k") == "DeclRefExpr" and P.d(n["r"]).get("qn") == "WorldBuilder::Consts::PI":
            return sp.pi
        return None
    if ent is not None:
        sym = norm.Sym(P, F, inline_locals=True, hook=hook, env=dict(zip(F.params, a)))
        M = sp.Matrix(3, 3, lambda r, c: sym(ent[(r, c)]))
    if M.free_symbols - set(a):
        rep.unknown(rule, "euler_angles_to_rotation_matrix: entries depend on %s" % sorted(map(str, M.free_symbols - set(a))))
        return
    D = (M * M.T - sp.eye(3)).applyfunc(lambda e: sp.simplify(sp.trigsimp(sp.expand(e))))
    det = sp.simplify(sp.trigsimp(sp.expand(M.det())))
    if D == sp.zeros(3, 3) and sp.simplify(det - 1) == 0:
        rep.ok(rule, "euler_angles_to_rotation_matrix: R*R^T = I and det R = 1 for all Euler angles", F.loc, F.qn)
    else:
        rep.violation(rule, "euler_angles_to_rotation_matrix does not return a proper rotation", F.loc, F.qn, "det = %s; R*R^T - I = %s" % (det, D.tolist()),
                      "fixed and deflected grain orientations are not orthonormal", key=rule, witness="a 'uniform' grains model with Euler angles (30, 40, 50)")


def matrix_product(P, rep, rule="EXPR.matmul"):
    from .veceval import VecEval
    rep.rule(rule, "Utilities::multiply_3x3_matrices(A, B) returns the matrix product: the function is executed symbolically on two generic "
                   "3x3 matrices (its counting loops have constant bounds and are unrolled) and each of the nine returned entries must "
                   "equal sum_k A[i][k]*B[k][j] (the product of two proper rotations is a proper rotation)")
    F = P.func("WorldBuilder::Utilities::multiply_3x3_matrices")
    if len(F.params) != 2:
        rep.unknown(rule, "multiply_3x3_matrices no longer takes two matrices")
        return
    A = tuple(tuple(sp.Symbol("a%d%d" % (i, j), real=True) for j in range(3)) for i in range(3))
    B = tuple(tuple(sp.Symbol("b%d%d" % (i, j), real=True) for j in range(3)) for i in range(3))
    V = VecEval(P, F, env={F.params[0]: A, F.params[1]: B})
    try:
        res = V.run_function(astq.stmts_of(F.body))
    except AnalysisBroken as e:
        rep.unknown(rule, "multiply_3x3_matrices: %s" % e)
        return
    if not (isinstance(res, tuple) and len(res) == 3 and all(isinstance(r_, tuple) and len(r_) == 3 for r_ in res)):
        rep.unknown(rule, "multiply_3x3_matrices: the returned value is not a 3x3 matrix (%s)" % str(res)[:60])
        return
    bad = []
    for i in range(3):
        for j in range(3):
            want = sum(A[i][k] * B[k][j] for k in range(3))
            if sp.expand(res[i][j] - want) != 0:
                bad.append("[%d][%d] = %s" % (i, j, sp.expand(res[i][j])))
    if bad:
        rep.violation(rule, "multiply_3x3_matrices: %s" % "; ".join(bad[:2])[:200], F.loc, F.qn, "", "the composed grain orientation is not the matrix product",
                      key=rule, witness="deflected random grains with a non-trivial basis orientation")
    else:
        rep.ok(rule, "multiply_3x3_matrices: result[i][j] = sum_k A[i][k]*B[k][j] for all nine entries", F.loc, F.qn)


def quaternion_blend(P, rep):
    rep.attempt(euler_matrix, P, rep)
    rep.attempt(matrix_product, P, rep)
    Mq = rep.attempt(matrix_from_quaternion, P, rep)
    if Mq:
        rep.attempt(quaternion_from_matrix, P, rep, Mq)
    rep.attempt(slerp_unit, P, rep)
    rep.attempt(blend_chain, P, rep)
