"""Model-level rules: operation discipline (R1), range guards (G4/G2), sentinels (N1), simple closed forms."""
import re

import sympy as sp

from .. import astq, norm
from ..astq import sc
from ..tu import AnalysisBroken
from . import guard
from .sib import MODEL_RE, is_model

GET = {"Temperature": "get_temperature", "Composition": "get_composition", "Grains": "get_grains", "Velocity": "get_velocity"}
INCOMING = {"Temperature": ("temperature_", "temperature"), "Composition": ("composition", "composition_"),
            "Grains": ("grains_", "grains"), "Velocity": ("velocity_", "velocity")}
WORLD_CONSTS = ("thermal_expansion_coefficient", "specific_heat", "thermal_diffusivity", "potential_mantle_temperature", "surface_temperature")


def model_getters(P, kinds=None):
    out = []
    for qn in sorted(P.records):
        m = MODEL_RE.match(qn)
        if not m or (m.group(3) == "Interface" or not is_model(P, qn, m)):
            continue
        if kinds and m.group(2) not in kinds:
            continue
        fs = P.funcs_named(qn + "::" + GET[m.group(2)])
        if len(fs) != 1:
            raise AnalysisBroken("%s: %d definitions of %s" % (qn, len(fs), GET[m.group(2)]))
        out.append((m.group(1), m.group(2), m.group(3), fs[0]))
    return out


def incoming_param(P, F, kind):
    """the by-value parameter holding the value painted so far"""
    want_t = {"Temperature": "double", "Composition": "double", "Grains": "WorldBuilder::grains", "Velocity": "std::array<double, 3>"}[kind]
    cands = []
    for p in F.params:
        d = P.d(p)
        nm = d.get("n", "")
        if nm in INCOMING[kind] and d.get("t", "").replace("const ", "") == want_t and not d.get("ref"):
            cands.append(p)
    if len(cands) == 1:
        return cands[0]
    # fall back: the only non-const by-value parameter of that type
    cands = [p for p in F.params if P.d(p).get("t", "") == want_t and not P.d(p).get("const")]
    if len(cands) == 1:
        return cands[0]
    return None


def is_unmodified_copy(P, F, v, inc, ret):
    """v is a local initialised from the incoming value, and every assignment to it is followed by a return in
    the same block (so at `ret` it still holds the incoming value)"""
    if v.get("k") != "DeclRefExpr":
        return False
    key = v["r"]
    init = None
    for x in F.walk():
        if x.get("k") == "VarDecl" and x.get("r") == key and x.get("c"):
            init = x["c"][0]
    if init is None or not astq.is_ref_to(init, inc):
        return False
    for a in F.walk():
        if a.get("k") in ("BinaryOperator", "CompoundAssignOperator", "UnaryOperator", "CXXOperatorCallExpr") and a.get("op") in norm.ASSIGN_OPS + ("++", "--"):
            if not astq.is_ref_to(a["c"][0], key):
                continue
            blk = astq.enclosing(F, a, ("CompoundStmt",))
            if blk is None:
                return False
            after = False
            returns_after = False
            for st in blk["c"]:
                if any(y is a for y in F.walk(st)):
                    after = True
                    continue
                if after and st.get("k") == "ReturnStmt":
                    returns_after = True
            if not returns_after or any(y is ret for y in F.walk(blk)) and ret["i"] < a["i"]:
                return False
    return True


def is_apply_operation(P, n):
    n = sc(n)
    return n is not None and n.get("k") == "CallExpr" and P.d(n.get("callee")).get("qn", "").endswith("FeatureUtilities::apply_operation")


def operation_discipline(P, rep, rule="R1"):
    rep.rule(rule, "every temperature/composition model returns either the incoming value unchanged or "
                   "apply_operation(this->operation, incoming, X); a composition model may also return the literal 0.0 under "
                   "`operation == REPLACE` (clearing unlisted compositions); the operation is parsed from the \"operation\" key")
    n = 0
    for ftype, kind, name, F in model_getters(P, ("Temperature", "Composition")):
        n += 1
        inc = incoming_param(P, F, kind)
        if inc is None:
            rep.unknown(rule, "%s: incoming value parameter not identified" % F.qn)
            continue
        bad = []
        for r in F.walk():
            if r.get("k") != "ReturnStmt" or not r.get("c"):
                continue
            if astq.enclosing(F, r, ("LambdaExpr",)):
                continue
            v = sc(r["c"][0])
            if astq.is_ref_to(v, inc) or is_unmodified_copy(P, F, v, inc, r):
                continue
            if is_apply_operation(P, v):
                a = [sc(x) for x in v["c"][1:]]
                if len(a) == 3 and astq.is_this_field(P, a[0], "operation") and astq.is_ref_to(a[1], inc):
                    continue
                bad.append((r, "apply_operation(%s, %s, ...) does not combine this->operation with the incoming value" % (norm.render(P, a[0]), norm.render(P, a[1]))))
                continue
            if kind == "Composition" and v.get("k") in ("FloatingLiteral", "IntegerLiteral") and float(v.get("v")) == 0.0:
                g = astq.enclosing(F, r, ("IfStmt",))
                okg = False
                if g is not None and any(y is r for y in F.walk(g["c"][1])):
                    c = sc(g["c"][0])
                    if c.get("k") == "BinaryOperator" and c.get("op") == "==" and astq.is_this_field(P, c["c"][0], "operation") \
                            and P.d(sc(c["c"][1]).get("r")).get("qn", "").endswith("Operations::REPLACE"):
                        okg = True
                if okg:
                    continue
                bad.append((r, "returns 0.0 outside `operation == REPLACE`"))
                continue
            bad.append((r, "returns %s without going through apply_operation" % norm.render(P, v)[:60]))
        for r, why in bad:
            rep.violation(rule, "%s: %s" % (F.qn, why), F.nloc(r), F.qn, norm.render(P, r)[:100],
                          "the model does not honour its declared operation (replace / add / subtract / replace defined only)",
                          key="%s|%s|%s" % (rule, F.qn, why[:30]), witness="two overlapping features, the upper one with operation add")
        if kind == "Composition":
            # 'replace' clears the compositions the model does not list: after the loop over `compositions`, still inside the
            # model's range test, `if (operation == REPLACE) return 0.0;`
            clears = []
            early = []
            for r in F.walk():
                if r.get("k") == "ReturnStmt" and r.get("c") and sc(r["c"][0]).get("k") in ("FloatingLiteral", "IntegerLiteral") and float(sc(r["c"][0]).get("v")) == 0.0:
                    g = astq.enclosing(F, r, ("IfStmt",))
                    if g is not None and "REPLACE" in norm.render(P, g["c"][0]) and "==" in norm.render(P, g["c"][0]):
                        # must follow a loop over the compositions list in the same block
                        blk = astq.enclosing(F, g, ("CompoundStmt",))
                        prev_loop = False
                        for st in blk["c"]:
                            if st is g:
                                break
                            if st.get("k") in ("ForStmt", "CXXForRangeStmt") and "compositions" in norm.render(P, st["c"][1]):
                                prev_loop = True
                            # the same search with the standard algorithm: std::find over the compositions list, then a test of the result
                            if any(y.get("k") == "CallExpr" and P.d(y.get("callee")).get("qn") in ("std::find", "std::find_if") and "compositions" in norm.render(P, y)
                                   for y in F.walk(st)):
                                prev_loop = True
                        if prev_loop:
                            clears.append(r)
                            # nothing inside the model's range hands the incoming value back before the clearing is reached
                            for st in blk["c"]:
                                if st is g:
                                    break
                                for y in F.walk(st):
                                    if y.get("k") == "ReturnStmt" and y.get("c") and not astq.enclosing(F, y, ("LambdaExpr",)) \
                                            and (astq.is_ref_to(sc(y["c"][0]), inc) or is_unmodified_copy(P, F, sc(y["c"][0]), inc, y)):
                                        # a guard clause on the model's range (`if (!(in range)) return incoming;`) leaves the range; what
                                        # matters is a return that depends on whether the composition is listed, or on nothing at all
                                        conds = [a_["c"][0] for a_ in F.ancestors(y) if a_.get("k") == "IfStmt" and any(z is a_ for z in F.walk(st))]
                                        listed = any(("compositions" in norm.render(P, c_)) or any(
                                            z.get("k") == "DeclRefExpr" and z.get("r") in F.params and "composition" in (P.d(z["r"]).get("n") or "")
                                            and z.get("r") != inc for z in F.walk(c_)) for c_ in conds)
                                        if listed or not conds:
                                            early.append(y)
            if len(clears) != 1:
                bad.append((F.body, "no `if (operation == REPLACE) return 0.0;` after the loop over the listed compositions (unlisted compositions are not cleared by replace)"))
                rep.violation(rule, "%s: %s" % (F.qn, bad[-1][1]), F.loc, F.qn, "", "operation replace does not clear the compositions the model does not list",
                              key="%s|%s|clear" % (rule, F.qn), witness="replace model listing composition 0 over a feature that painted composition 1")
                bad.pop()
                bad.append(None)
            for y in early:
                rep.violation(rule, "%s: the incoming value is returned inside the model's range before `if (operation == REPLACE) return 0.0;`" % F.qn,
                              F.nloc(y), F.qn, norm.render(P, y)[:100], "operation replace does not clear the compositions the model does not list on this path",
                              key="%s|%s|early" % (rule, F.qn), witness="replace model listing composition 0 over a feature that painted composition 1")
                bad.append(None)
        bad = [b for b in bad if b is not None] if any(b is None for b in bad) else bad
        if not bad and not (kind == "Composition" and len(clears) != 1):
            rep.ok(rule, "%s::%s::%s::%s" % (ftype, kind, name, F.name), F.loc, F.qn)
        # operation parsed from its key
        cls = F.qn.rsplit("::", 1)[0]
        pe = P.funcs_named(cls + "::parse_entries")
        okp = False
        for G in pe:
            for x in G.walk():
                if x.get("k") in ("BinaryOperator", "CXXOperatorCallExpr") and x.get("op") == "=" and astq.is_this_field(P, x["c"][0], "operation"):
                    r0 = sc(x["c"][1])
                    if r0.get("k") == "CallExpr" and P.d(r0.get("callee")).get("qn", "").endswith("string_operations_to_enum"):
                        from .asserts import string_lit
                        lit = None
                        for y in G.walk(r0):
                            if y.get("k") == "StringLiteral":
                                lit = y.get("v")
                        okp = lit == "operation"
        if not okp:
            rep.violation(rule, "%s: operation is not parsed from the \"operation\" entry" % cls, pe[0].loc if pe else F.loc, cls, "",
                          "declared operation ignored", key="%s|%s|parse" % (rule, cls), witness="model with operation add")
    rep.floor(rule, n, 34, "temperature/composition models")


RANGE_FIELDS = ("min_depth", "max_depth", "min_distance", "max_distance")


def range_guard(P, rep, rule="G4"):
    rep.rule(rule, "in every model a value other than the incoming one is returned only under the model's own range test: an "
                   "inclusive two-sided comparison (<= and >=) of the depth (area features, plume) or of the distance from the "
                   "plane (slab, fault) with the model's min/max fields")
    n = 0
    for ftype, kind, name, F in model_getters(P):
        n += 1
        inc = incoming_param(P, F, kind)
        ctl = guard.controlling(F)
        info = guard.branch_info(P, F)
        rets = [r for r in F.walk() if r.get("k") == "ReturnStmt" and r.get("c") and not astq.enclosing(F, r, ("LambdaExpr",))]
        problems = []
        n_changed = 0
        for r in rets:
            v = sc(r["c"][0])
            if inc is not None and astq.is_ref_to(v, inc):
                continue
            # a local copy of the incoming value (grains_local) returned before anything was stored into it is the incoming value
            if inc is not None and v.get("k") == "DeclRefExpr" and P.d(v["r"]).get("storage") == "local":
                decl = [x for x in F.walk() if x.get("k") == "VarDecl" and x.get("r") == v["r"] and x.get("c")]
                if decl and astq.is_ref_to(norm.strip_casts(decl[0]["c"][0]) if norm.strip_casts(decl[0]["c"][0]).get("k") == "DeclRefExpr" else
                                            (decl[0]["c"][0]["c"][0] if decl[0]["c"][0].get("k") in ("CXXConstructExpr",) and decl[0]["c"][0].get("c") else decl[0]["c"][0]), inc):
                    written_before = False
                    for w in F.walk():
                        kw = w.get("k")
                        tgt = None
                        if kw in ("BinaryOperator", "CompoundAssignOperator", "CXXOperatorCallExpr") and w.get("op") in norm.ASSIGN_OPS:
                            tgt = w["c"][0]
                        elif kw == "CXXForRangeStmt" and any(y.get("k") == "DeclRefExpr" and y.get("r") == v["r"] for y in F.walk(w["c"][1])):
                            tgt = w["c"][1]      # `for (auto &&m : local.matrices)` may store through m
                        if tgt is not None and any(y.get("k") == "DeclRefExpr" and y.get("r") == v["r"] for y in F.walk(tgt)):
                            if (w.get("l") or 0) <= (r.get("l") or 0):
                                written_before = True
                    if not written_before:
                        continue
            # a local copy of the incoming value that is returned on every path (grains_local): changed only where assigned
            n_changed += 1
            b = F.block_of(r)
            conds = [(info[a][1], i) for (a, i) in ctl.get(b, ()) if info.get(a, ("other", None))[0] == "cond" and info[a][1] is not None]
            lower = upper = False
            strict = []
            for c, idx in conds:
                # `if (!X) return incoming;` (guard clause): being past it means X held
                c0 = sc(c)
                while c0 is not None and c0.get("k") == "UnaryOperator" and c0.get("op") == "!":
                    c0 = sc(c0["c"][0])
                    idx = 1 - idx
                c = c0
                for cmp_ in F.walk(c):
                    if cmp_.get("k") != "BinaryOperator" or cmp_.get("op") not in ("<=", ">=", "<", ">"):
                        continue
                    l, rr = sc(cmp_["c"][0]), sc(cmp_["c"][1])
                    for a, bnd, op in ((l, rr, cmp_["op"]), (rr, l, {"<=": ">=", ">=": "<=", "<": ">", ">": "<"}[cmp_["op"]])):
                        if bnd.get("k") == "MemberExpr" and astq.is_this_field(P, bnd) and bnd.get("n") in RANGE_FIELDS:
                            if idx != 0:
                                continue   # reached through the false branch
                            if op in ("<", ">"):
                                strict.append(norm.render(P, cmp_))
                            if op in ("<=", "<") and bnd["n"].startswith("max"):
                                upper = True
                            if op in (">=", ">") and bnd["n"].startswith("min"):
                                lower = True
            if not (lower and upper):
                # models without an own range (plume models use the feature range passed in) are recognised by having no such fields
                has_fields = any(x.get("k") == "MemberExpr" and astq.is_this_field(P, x) and x.get("n") in RANGE_FIELDS for x in F.walk())
                if has_fields:
                    problems.append((r, "a changed value is returned outside the model's two-sided min/max test"))
            elif strict:
                problems.append((r, "range test uses a strict comparison %s (boundary points excluded)" % strict[0]))
        if kind in ("Grains",) and inc is not None:
            pass
        for r, why in problems:
            rep.violation(rule, "%s: %s" % (F.qn, why), F.nloc(r), F.qn, norm.render(P, r)[:100],
                          "the model acts outside its own min/max range (or not on its boundary)", key="%s|%s|%s" % (rule, F.qn, why[:25]),
                          witness="a point inside the feature but outside the model's min/max range (resp. exactly on its boundary)")
        if not problems:
            rep.ok(rule, "%s::%s::%s (%d value-changing returns)" % (ftype, kind, name, n_changed), F.loc, F.qn)
    rep.floor(rule, n, 57, "model get_* functions")


def sentinels(P, rep, rule="N1"):
    rep.rule(rule, "a parameter documented as 'negative means global/adiabatic value' is replaced under a test of exactly that "
                   "parameter (`X < 0`, no other disjunct) by the world's constant of the same name, resp. the adiabat "
                   "Tp*exp(alpha*g/cp*depth) for temperatures; after a query-time override only the overridden local is used "
                   "(no dead override); a `c ? a : b` selection tests the model's own value, not the world's")
    n = 0
    for qn in sorted(P.records):
        m = MODEL_RE.match(qn)
        if not m or (m.group(3) == "Interface" or not is_model(P, qn, m)):
            continue
        for F in [f for f in P.funcs.values() if f.qn.rsplit("::", 1)[0] == qn and f.body is not None]:
            for node in F.walk():
                if node.get("k") == "IfStmt" and not node.get("m"):
                    c = sc(node["c"][0])
                    tests = sentinel_tests(P, c)
                    if not tests:
                        continue
                    # assignments in the then-branch
                    asg = [x for x in F.walk(node["c"][1]) if x.get("k") in ("BinaryOperator", "CompoundAssignOperator") and x.get("op") in norm.ASSIGN_OPS]
                    targets = [sc(x["c"][0]) for x in asg]
                    tkeys = [t.get("r") for t in targets if t.get("k") in ("DeclRefExpr", "MemberExpr")]
                    if not tkeys or not (set(tkeys) & {t[0] for t in tests}):
                        continue      # not a sentinel override
                    n += 1
                    inst = "%s: if (%s)" % (F.qn, norm.render(P, c)[:60])
                    if len(tests) != 1 or c.get("k") != "BinaryOperator" or c.get("op") != "<":
                        rep.violation(rule, "%s couples several sentinels" % inst, F.nloc(node), F.qn, norm.render(P, c)[:100],
                                      "a parameter that was given is replaced by the global value because another one was left at its default",
                                      key="%s|%s|coupled" % (rule, F.qn), witness="set exactly one of the tested parameters")
                        continue
                    vkey, vname = tests[0]
                    if set(tkeys) != {vkey} or node["c"][2] is not None:
                        rep.violation(rule, "%s assigns %s" % (inst, sorted(P.d(k).get("n", "?") for k in tkeys)), F.nloc(node), F.qn,
                                      norm.render(P, node["c"][1])[:100], "the override does not (only) replace the tested parameter",
                                      key="%s|%s|%s|target" % (rule, F.qn, vname), witness="negative %s" % vname)
                        continue
                    rhs = asg[0]["c"][1]
                    base = re.sub(r"_local$", "", vname)
                    if base in WORLD_CONSTS and "temperature" not in base.replace("potential_mantle_temperature", ""):
                        r0 = sc(rhs)
                        okw = r0.get("k") == "MemberExpr" and r0.get("n") == base and "world" in norm.render(P, r0)
                        if not okw:
                            rep.violation(rule, "%s replaces %s by %s" % (inst, vname, norm.render(P, rhs)[:60]), F.nloc(node), F.qn, norm.render(P, rhs)[:100],
                                          "expected the world's %s" % base, key="%s|%s|%s|value" % (rule, F.qn, vname), witness="negative %s" % vname)
                            continue
                    elif "temperature" in vname:
                        if not is_adiabat(P, F, rhs):
                            rep.violation(rule, "%s replaces %s by %s" % (inst, vname, norm.render(P, rhs)[:80]), F.nloc(node), F.qn, norm.render(P, rhs)[:120],
                                          "expected the adiabat world.Tp*exp(world.alpha*g/world.cp*depth)", key="%s|%s|%s|value" % (rule, F.qn, vname),
                                          witness="negative %s" % vname)
                            continue
                    # dead override: the local X_local was initialised from field X; X must not be used after the if
                    d = P.d(vkey)
                    dead = None
                    if d.get("storage") == "local":
                        init = None
                        for x in F.walk():
                            if x.get("k") == "VarDecl" and x.get("r") == vkey and x.get("c"):
                                init = sc(x["c"][0])
                        if init is not None and init.get("k") == "MemberExpr" and astq.is_this_field(P, init):
                            fld = init["r"]
                            for x in F.walk():
                                if x.get("k") == "MemberExpr" and x.get("r") == fld and x["i"] > node["i"] and x is not init:
                                    dead = x
                                    break
                            used = any(x.get("k") == "DeclRefExpr" and x.get("r") == vkey and x["i"] > max(y["i"] for y in F.walk(node)) for x in F.walk())
                            if not used:
                                dead = dead or node
                    if dead is not None:
                        rep.violation(rule, "%s: the overridden local %s is bypassed (the raw parameter is used afterwards)" % (F.qn, vname), F.nloc(dead), F.qn,
                                      norm.render(P, F.parent.get(dead["i"]) or dead)[:100], "the documented fallback never reaches the result",
                                      key="%s|%s|%s|dead" % (rule, F.qn, vname), witness="negative %s" % re.sub("_local$", "", vname).replace("_", " "))
                        continue
                    rep.ok(rule, "%s -> %s" % (inst, norm.render(P, rhs)[:50]), F.nloc(node), F.qn)
                # ternary selection idiom
                if node.get("k") in ("BinaryOperator", "CXXOperatorCallExpr") and node.get("op") == "=":
                    r0 = sc(node["c"][1]) if len(node["c"]) > 1 else None
                    if r0 is not None and r0.get("k") == "ConditionalOperator":
                        c, a, b = [sc(x) for x in r0["c"]]
                        if c.get("k") == "BinaryOperator" and c.get("op") in (">=", "<", ">", "<=") and sc(c["c"][1]).get("k") in ("IntegerLiteral", "FloatingLiteral") \
                                and float(sc(c["c"][1]).get("v")) == 0.0:
                            tested = sc(c["c"][0])
                            ttxt = norm.render(P, tested)
                            atxt, btxt = norm.render(P, a), norm.render(P, b)
                            if "world" in atxt or "world" in btxt:
                                n += 1
                                if "world" in ttxt:
                                    rep.violation(rule, "%s: `%s` selects on the world's value" % (F.qn, norm.render(P, r0)[:90]), F.nloc(node), F.qn,
                                                  norm.render(P, node)[:140], "the model's own parameter is used only when the global one is negative: the documented local override is dead",
                                                  key="%s|%s|ternary" % (rule, F.qn), witness="two worlds differing only in this model's own value of the parameter")
                                else:
                                    rep.ok(rule, "%s: %s" % (F.qn, norm.render(P, r0)[:70]), F.nloc(node), F.qn)
    rep.floor(rule, n, 30, "sentinel overrides")


def sentinel_tests(P, c):
    """[(decl key, name)] for comparisons `V < 0` anywhere in condition c"""
    out = []
    if c is None:
        return out
    stack = [c]
    while stack:
        x = sc(stack.pop())
        if x is None:
            continue
        if x.get("k") == "BinaryOperator" and x.get("op") in ("||", "&&"):
            stack.extend(x["c"])
        elif x.get("k") == "BinaryOperator" and x.get("op") == "<":
            l, r = sc(x["c"][0]), sc(x["c"][1])
            if r.get("k") in ("IntegerLiteral", "FloatingLiteral") and float(r.get("v")) == 0.0 and l.get("k") in ("DeclRefExpr", "MemberExpr"):
                out.append((l["r"], l.get("n")))
        elif x.get("k") == "UnaryOperator" and x.get("op") == "!":
            stack.extend(x["c"])
    return out


def is_adiabat(P, F, e):
    Tp, al, cp, g = sp.symbols("Tp alpha cp g", positive=True)

    def hook(n):
        if n.get("k") == "MemberExpr" and n.get("n") in ("potential_mantle_temperature", "thermal_expansion_coefficient", "specific_heat") \
                and "world" in norm.render(P, n):
            return {"potential_mantle_temperature": Tp, "thermal_expansion_coefficient": al, "specific_heat": cp}[n["n"]]
        return None
    v = norm.Sym(P, F, inline_locals=False, hook=hook)(e)
    # two further quantities: the gravity magnitude (a parameter of the model function) and the depth; the formula is
    # symmetric in them, so they need not be told apart by name
    free = [s for s in v.free_symbols if s not in (Tp, al, cp)]
    if len(free) != 2:
        return False
    try:
        return sp.simplify(v - Tp * sp.exp(al * free[0] * free[1] / cp)) == 0
    except Exception:
        return False


def formulas(P, rep, thorough=False, rule="EXPR.models"):
    """closed forms of the simplest models, from the property statement"""
    rep.rule(rule, "uniform models return apply_operation(operation, incoming, <parsed value>); adiabatic models return "
                   "Tp*exp(alpha*g/cp*depth) of their (overridden) constants; linear models return "
                   "T_top + (x - x_top)*(T_bot - T_top)/(x_bot - x_top) with x_top/x_bot the model range clipped to the feature")
    n = 0
    for ftype, kind, name, F in model_getters(P, ("Temperature",)):
        if name not in ("Uniform", "Adiabatic", "Linear", "Chapman"):
            continue
        inc = incoming_param(P, F, kind)
        rets = [sc(r["c"][0]) for r in F.walk() if r.get("k") == "ReturnStmt" and r.get("c")]
        app = [r for r in rets if is_apply_operation(P, r)]
        if len(app) != 1:
            rep.unknown(rule, "%s: %d apply_operation returns" % (F.qn, len(app)))
            continue
        X = app[0]["c"][3]
        n += 1
        if name == "Uniform":
            x0 = sc(X)
            if x0.get("k") == "MemberExpr" and astq.is_this_field(P, x0, "temperature"):
                rep.ok(rule, "%s returns the parsed temperature" % F.qn, F.loc, F.qn)
            else:
                rep.violation(rule, "%s returns %s" % (F.qn, norm.render(P, X)[:60]), F.nloc(X), F.qn, norm.render(P, X)[:100], "expected this->temperature",
                              key="%s|%s" % (rule, F.qn), witness="uniform temperature 1234")
        elif name == "Chapman":
            # steady-state conduction with uniform heat production: T = T_top + (q/k) dz - (A/(2k)) dz^2, dz = depth - top of the model
            # range clipped to the feature (max(feature min depth, local min depth))
            q, kc, A = sp.symbols("q k A", positive=True)
            z = sp.Symbol("z", real=True)
            depth_k = [pk for pk in F.params if P.d(pk).get("n") == "depth"]

            sentinel_branches = []     # (true branch, false branch) of `X < 0 ? adiabat : X`

            def hookc(nn):
                if nn.get("k") == "ConditionalOperator":
                    c_ = sc(nn["c"][0])
                    if c_.get("k") == "BinaryOperator" and c_.get("op") == "<" and sc(c_["c"][1]).get("k") in ("IntegerLiteral", "FloatingLiteral") \
                            and float(sc(c_["c"][1]).get("v")) == 0.0 and norm.render(P, c_["c"][0], nocast=True) == norm.render(P, nn["c"][2], nocast=True):
                        sentinel_branches.append((nn["c"][1], nn["c"][2]))
                        return sp.Symbol("top_temperature_or_adiabat", real=True)
                if nn.get("k") == "MemberExpr" and astq.is_this_field(P, nn) and nn.get("n") in ("top_heat_flux", "thermal_conductivity", "heat_production_per_unit_volume"):
                    return {"top_heat_flux": q, "thermal_conductivity": kc, "heat_production_per_unit_volume": A}[nn["n"]]
                if nn.get("k") == "DeclRefExpr" and depth_k and nn.get("r") == depth_k[0]:
                    return z
                return None
            try:
                v = sp.expand(norm.Sym(P, F, inline_locals=True, hook=hookc)(X))
                poly = sp.Poly(v, z)
                cs_ = poly.all_coeffs()
            except Exception as e:
                rep.unknown(rule, "%s: value is not a polynomial in the depth (%s)" % (F.qn, e))
                continue
            okc = False
            detail = str(v)[:120]
            if poly.degree() == 2:
                c2, c1, c0 = cs_
                if sp.simplify(c2 + A / (2 * kc)) == 0:
                    M = sp.simplify((c1 - q / kc) * kc / A)          # the depth at which dz = 0
                    t = sp.Symbol("t", real=True)
                    top = sp.simplify(v.subs(z, M))
                    resid = sp.simplify(sp.expand(v.subs(z, M + t) - (top + (q / kc) * t - A / (2 * kc) * t ** 2)))
                    has_clip = any(isinstance(a_, sp.Max) for a_ in sp.preorder_traversal(M)) and any("feature_min_depth" in str(s_) for s_ in M.free_symbols)
                    top_ok = not top.has(z) and not top.has(q) and not top.has(A) and any("top_temperature" in str(s_) for s_ in top.free_symbols)
                    okc = resid == 0 and not M.has(z) and has_clip and top_ok
                    detail = "dz = depth - (%s); T(dz=0) = %s" % (str(M)[:80], str(top)[:60])
            if okc:
                # the adiabatic sentinel of the top temperature is evaluated at the depth from which dz is measured
                Tp_, al_, cp_ = sp.symbols("Tp alpha cp", positive=True)

                def hookw(nn):
                    r0 = hookc(nn)
                    if r0 is not None:
                        return r0
                    if nn.get("k") == "MemberExpr" and nn.get("n") in ("potential_mantle_temperature", "thermal_expansion_coefficient", "specific_heat") \
                            and "world" in norm.render(P, nn):
                        return {"potential_mantle_temperature": Tp_, "thermal_expansion_coefficient": al_, "specific_heat": cp_}[nn["n"]]
                    return None
                symw = norm.Sym(P, F, inline_locals=True, hook=hookw)
                symw(X)
                topk = symw.keys.get(top) if top.is_Symbol else None
                if topk is None:
                    topk = next((k_ for q_, k_ in symw.keys.items() if str(q_) == str(top)), None)
                cands_ = [(asg, asg["c"][1]) for asg in F.walk() if asg.get("k") == "BinaryOperator" and asg.get("op") == "=" and topk is not None
                          and astq.is_ref_to(sc(asg["c"][0]), topk)]
                cands_ += [(tb, tb) for tb, _ in sentinel_branches]
                for asg, rhs_ in cands_:
                    if True:
                        try:
                            rv = symw(rhs_)
                        except Exception:
                            continue
                        if not rv.has(Tp_):
                            continue
                        gs = [s_ for s_ in rv.free_symbols if s_ not in M.free_symbols and s_ not in (Tp_, al_, cp_)]
                        same = len(gs) == 1 and sp.simplify(rv - Tp_ * sp.exp(al_ * gs[0] * M / cp_)) == 0
                        if same:
                            rep.ok(rule, "%s: the adiabatic top temperature is taken at the depth from which dz is measured" % F.qn, F.nloc(asg), F.qn)
                        else:
                            okc = None
                            rep.violation(rule, "%s: the adiabatic top temperature is %s while dz is measured from %s" % (F.qn, str(rv)[:90], str(M)[:60]), F.nloc(asg), F.qn,
                                          norm.render(P, asg)[:140], "with a negative top temperature the geotherm does not start from the adiabat at the model's (clipped) top",
                                          key="%s|%s|adiabatic-top" % (rule, F.qn),
                                          witness="chapman model with top temperature -1 in a plate whose min depth lies below the model's min depth")
            if okc is None:
                pass
            elif okc:
                rep.ok(rule, "%s = T_top + (q/k) dz - (A/(2k)) dz^2 with dz measured from the clipped top of the model range" % F.qn, F.loc, F.qn)
            else:
                rep.violation(rule, "%s returns %s" % (F.qn, detail), F.nloc(X), F.qn, norm.render(P, X)[:120],
                              "expected T_top + (q_top/k)*dz - (A/(2k))*dz^2, dz = depth - max(feature min depth, local min depth)",
                              key="%s|%s" % (rule, F.qn), witness="chapman model with heat production 1e-6 and conductivity 2.5")
        elif name == "Adiabatic":
            Tp, al, cp, g = sp.symbols("Tp alpha cp g", positive=True)

            def hook(nn):
                if nn.get("k") == "MemberExpr" and astq.is_this_field(P, nn) and nn.get("n") in ("potential_mantle_temperature", "thermal_expansion_coefficient", "specific_heat"):
                    return {"potential_mantle_temperature": Tp, "thermal_expansion_coefficient": al, "specific_heat": cp}[nn["n"]]
                if nn.get("k") == "DeclRefExpr" and nn.get("n") == "gravity_norm":
                    return g
                if nn.get("k") == "DeclRefExpr" and nn.get("n") == "depth":
                    return sp.Symbol("depth", positive=True)
                return None
            v = norm.Sym(P, F, inline_locals=True, hook=hook)(X)
            want = Tp * sp.exp(al * g * sp.Symbol("depth", positive=True) / cp)
            try:
                ok = sp.simplify(v - want) == 0
            except Exception:
                ok = False
            if ok:
                rep.ok(rule, "%s = Tp*exp(alpha*g*depth/cp) of the model's constants" % F.qn, F.loc, F.qn)
            else:
                rep.violation(rule, "%s returns %s" % (F.qn, v), F.nloc(X), F.qn, norm.render(P, X)[:100], "expected Tp*exp(alpha*g*depth/cp)",
                              key="%s|%s" % (rule, F.qn), witness="adiabatic model with its own constants")
        elif name == "Linear":
            # T_top_local + (eps-test ? 0 : (x - x_top) * ((T_bot - T_top) / (x_bot - x_top)))
            sym = norm.Sym(P, F, inline_locals=False)
            x0 = sc(X)
            init = None
            if x0.get("k") == "DeclRefExpr":
                for d in F.walk():
                    if d.get("k") == "VarDecl" and d.get("r") == x0["r"] and d.get("c"):
                        init = d["c"][0]
            if init is None:
                rep.unknown(rule, "%s: linear value is not a local" % F.qn)
                continue

            def hk(nn):
                if nn.get("k") == "ConditionalOperator":
                    c0 = norm.render(P, nn["c"][0])
                    if "epsilon" in c0:
                        return symL(nn["c"][2])
                if nn.get("k") == "CallExpr" and P.d(nn.get("callee")).get("qn") in ("std::fabs", "fabs") and "distance_from_plane" in norm.render(P, nn):
                    return sp.Symbol("dist")
                if nn.get("k") == "MemberExpr" and nn.get("n") == "distance_from_plane":
                    return sp.Symbol("dist")
                return None
            symL = norm.Sym(P, F, inline_locals=False, hook=hk, inline_consts=True)
            v = sp.expand(symL(init))
            # roles, not names: the two boundary temperatures are the two mutable double locals of the profile (the sentinel
            # override may reassign them), the coordinate is the depth parameter or |distance from plane|
            dummies = {}
            for at in list(v.atoms(sp.Max, sp.Min)):
                dm = sp.Symbol("BOUND_%d" % len(dummies))
                dummies[dm] = at
                v = v.xreplace({at: dm})
            v = sp.expand(v)
            temps, xs = [], []
            for q in v.free_symbols:
                key = symL.keys.get(q)
                d = P.d(key) if key is not None else {}
                if str(q) == "dist" or (key in F.params and d.get("n") == "depth"):
                    xs.append(q)
                elif d.get("storage") == "local" and not d.get("const") and not (d.get("t") or "").startswith("const"):
                    temps.append(q)
            verdict = None
            if len(temps) == 2 and len(xs) == 1:
                x_ = xs[0]
                for Ta, Tb in ((temps[0], temps[1]), (temps[1], temps[0])):
                    try:
                        L = sp.solve(sp.Eq(v, Ta), x_)
                        H = sp.solve(sp.Eq(v, Tb), x_)
                    except Exception:
                        L = H = []
                    if len(L) == 1 and len(H) == 1:
                        L0, H0 = sp.simplify(L[0]), sp.simplify(H[0])
                        if not (L0.free_symbols | H0.free_symbols) & {Ta, Tb, x_}:
                            lt = str(L0.xreplace(dummies)).replace("Max(", "(").replace("Min(", "(").lower()
                            ht = str(H0.xreplace(dummies)).replace("Max(", "(").replace("Min(", "(").lower()
                            if "min" in lt and "max" not in lt and "max" in ht and "min" not in ht:
                                if sp.simplify(v - (Ta + (x_ - L0) * (Tb - Ta) / (H0 - L0))) == 0:
                                    verdict = (Ta, Tb, L0.xreplace(dummies), H0.xreplace(dummies))
                                    break
            if verdict is not None:
                rep.ok(rule, "%s = T_top + (x - x_top)*(T_bot - T_top)/(x_bot - x_top), x_top = %s, x_bot = %s" % (F.qn, str(verdict[2])[:50], str(verdict[3])[:50]), F.loc, F.qn)
            elif len(temps) != 2 or len(xs) != 1:
                rep.unknown(rule, "%s: linear profile not recognised (%d boundary temperatures, %d coordinates in %s)" % (F.qn, len(temps), len(xs), str(v)[:80]))
            else:
                rep.violation(rule, "%s returns %s" % (F.qn, str(v.xreplace(dummies))[:200]), F.nloc(init), F.qn, norm.render(P, init)[:160],
                              "expected the linear profile that takes the top temperature at the (clipped) lower bound and the bottom temperature at the (clipped) upper bound",
                              key="%s|%s" % (rule, F.qn), witness="linear model, query at the model top and bottom")
    rep.floor(rule, n, 14, "uniform/adiabatic/linear temperature models")


# ------------------------------------------------------------------------------------------------
def operation_algebra(P, rep, rule="EXPR.operation"):
    """apply_operation: REPLACE, REPLACE_DEFINED_ONLY -> new; ADD -> old+new; SUBTRACT -> old-new; all enumerators covered;
    string_operations_to_enum maps the four documented strings to the enumerators of the same meaning"""
    rep.rule(rule, "apply_operation(op, old, new) = new for REPLACE and REPLACE_DEFINED_ONLY, old+new for ADD, old-new for SUBTRACT, "
                   "with a case for every enumerator; string_operations_to_enum maps \"replace\", \"replace defined only\", \"add\", "
                   "\"subtract\" to the enumerators of the same name; every model schema admits exactly these strings")
    F = P.func("WorldBuilder::Features::FeatureUtilities::apply_operation")
    sws = [n for n in F.walk() if n.get("k") == "SwitchStmt"]
    if len(sws) != 1:
        rep.unknown(rule, "apply_operation: %d switches" % len(sws))
        return
    cases = astq.switch_cases(sws[0])
    old, new = sp.Symbol("old"), sp.Symbol("new")
    sym = norm.Sym(P, F, inline_locals=False, env={F.params[1]: old, F.params[2]: new})
    want = {"REPLACE": new, "REPLACE_DEFINED_ONLY": new, "ADD": old + new, "SUBTRACT": old - new}
    enum = P.enums.get("WorldBuilder::Features::FeatureUtilities::Operations")
    if enum is None:
        raise AnalysisBroken("enum Operations not found")
    enumerators = [c["n"] for c in enum["consts"]]
    if sorted(enumerators) != sorted(want):
        rep.violation(rule, "Operations has enumerators %s" % enumerators, F.loc, F.qn, "", "documented operations are %s" % sorted(want), key=rule + "|enum")
    got = {}
    for label, stmts in cases.items():
        if label == "default":
            continue
        rets = [s for s in stmts if s.get("k") == "ReturnStmt"]
        if len(rets) != 1 or not rets[0].get("c"):
            rep.violation(rule, "apply_operation case %s does not return a value" % label, F.nloc(stmts[0]) if stmts else F.loc, F.qn, "", "falls through to the NaN default",
                          key="%s|case|%s" % (rule, label), witness="model with operation %s" % label)
            continue
        got[label] = sym(rets[0]["c"][0])
    for e in enumerators:
        if e not in got:
            rep.violation(rule, "apply_operation has no case for %s" % e, F.nloc(sws[0]), F.qn, "", "the NaN default becomes reachable", key="%s|missing|%s" % (rule, e),
                          witness="model with operation %s" % e.lower())
        elif e in want and sp.expand(got[e] - want[e]) != 0:
            rep.violation(rule, "apply_operation(%s) = %s" % (e, got[e]), F.nloc(sws[0]), F.qn, str(got[e]), "expected %s" % want[e], key="%s|value|%s" % (rule, e),
                          witness="two overlapping features, operation %s" % e.lower())
        elif e in want:
            rep.ok(rule, "apply_operation(%s, old, new) = %s" % (e, want[e]), F.nloc(sws[0]), F.qn)
    # string -> enum
    S = P.func("WorldBuilder::Features::FeatureUtilities::string_operations_to_enum")
    mapping = {}
    default = None
    for n in S.walk():
        if n.get("k") == "IfStmt" and not n.get("m"):
            from .asserts import string_compare
            subj, lit = string_compare(P, S, sc(n["c"][0]))
            r = [x for x in S.walk(n["c"][1]) if x.get("k") == "ReturnStmt"]
            if subj is not None and r:
                mapping[lit] = P.d(sc(r[0]["c"][0]).get("r")).get("n")
    for n in astq.stmts_of(S.body):
        if n.get("k") == "ReturnStmt" and n.get("c"):
            default = P.d(sc(n["c"][0]).get("r")).get("n")
    want_map = {"add": "ADD", "subtract": "SUBTRACT", "replace defined only": "REPLACE_DEFINED_ONLY"}
    if mapping == want_map and default == "REPLACE":
        rep.ok(rule, "string_operations_to_enum: %s, otherwise REPLACE" % mapping, S.loc, S.qn)
    else:
        rep.violation(rule, "string_operations_to_enum maps %s, default %s" % (mapping, default), S.loc, S.qn, "", "expected %s and REPLACE for \"replace\"" % want_map,
                      key=rule + "|strings", witness="model with operation add / subtract / replace defined only")
    # schemas admit exactly the four strings
    n_decl = 0
    for D in P.funcs.values():
        if D.name != "declare_entries" or "Models::" not in D.qn:
            continue
        for n in D.walk():
            mc = astq.member_call(P, n, "declare_entry")
            if not mc or not mc[2]:
                continue
            from .asserts import string_lit
            if string_lit(D, mc[2][0]) != "operation":
                continue
            n_decl += 1
            lits = [x["v"] for x in D.walk(mc[2][1]) if x.get("k") == "StringLiteral"]
            allowed = lits[1:] if lits else []
            if sorted(set(allowed)) != sorted(["replace", "replace defined only", "add", "subtract"]) or (lits and lits[0] != "replace"):
                rep.violation(rule, "%s admits operations %s (default %s)" % (D.qn, allowed, lits[:1]), D.nloc(n), D.qn, "", "documented: replace (default), replace defined only, add, subtract",
                              key="%s|schema|%s" % (rule, D.qn), witness="an operation string the dispatcher maps to REPLACE silently")
    rep.ok(rule, "%d model schemas admit exactly {replace, replace defined only, add, subtract}" % n_decl)
    rep.floor(rule, n_decl, 10, "\"operation\" declarations in model schemas")


# models whose documented definition is relative to the temperature painted so far (one line of reason each)
AMBIENT_RELATIVE = {
    "MassConserving": "the mass-conserving slab temperature is an anomaly on the ambient mantle temperature and tapers back to it where "
                      "the slab's heat content is exhausted (documented; Billen & Fraters)",
}


def new_value_independent(P, rep, rule="R1.new-value"):
    """the value handed to apply_operation as `new` does not depend on the incoming (painted so far) value"""
    rep.rule(rule, "the new value a temperature/composition model hands to apply_operation is computed from the model's parameters, the "
                   "point and the world's constants only -- never from the value painted so far (otherwise 'replace' would not overwrite)")
    n = 0
    for ftype, kind, name, F in model_getters(P, ("Temperature", "Composition")):
        inc = incoming_param(P, F, kind)
        if inc is None:
            continue
        inits = {}
        assigns = {}
        for x in F.walk():
            if x.get("k") == "VarDecl" and x.get("c"):
                inits.setdefault(x["r"], []).append(x["c"][0])
            if x.get("k") in ("BinaryOperator", "CompoundAssignOperator") and x.get("op") in norm.ASSIGN_OPS:
                t = sc(x["c"][0])
                if t.get("k") == "DeclRefExpr":
                    assigns.setdefault(t["r"], []).append(x["c"][1])
        for r in F.walk():
            if not is_apply_operation(P, r):
                continue
            n += 1
            X = r["c"][3]
            seen = set()
            work = [X]
            tainted = None
            while work:
                e = work.pop()
                for x in F.walk(e):
                    if x.get("k") == "DeclRefExpr":
                        k = x["r"]
                        if k == inc:
                            tainted = x
                        if k in seen:
                            continue
                        seen.add(k)
                        # the local copy `double composition = composition_;` that is overwritten before use is not a dependence
                        srcs = list(assigns.get(k, []))
                        if not srcs:
                            srcs = list(inits.get(k, []))
                        elif not all(astq.is_ref_to(i, inc) for i in inits.get(k, [])):
                            srcs += list(inits.get(k, []))
                        work.extend(srcs)
            if tainted is not None and F.qn.rsplit("::", 2)[-2] in AMBIENT_RELATIVE:
                rep.ok(rule, "%s::%s::%s uses the ambient value by definition: %s" % (ftype, kind, name, AMBIENT_RELATIVE[F.qn.rsplit("::", 2)[-2]]), F.nloc(r), F.qn)
            elif tainted is not None:
                rep.violation(rule, "%s: the new value %s depends on the incoming value" % (F.qn, norm.render(P, X)[:50]), F.nloc(r), F.qn,
                              norm.render(P, r)[:120], "with operation replace, an earlier feature's value leaks into the result",
                              key="%s|%s" % (rule, F.qn), witness="the feature painted over another feature vs. the feature alone")
            else:
                rep.ok(rule, "%s::%s::%s" % (ftype, kind, name), F.nloc(r), F.qn)
    rep.floor(rule, n, 34, "apply_operation calls in models")


def feature_folds(P, rep, rule="FOLD"):
    """in each feature and kind: v := slot; for each model: v := m->get_*(..., v, ...); slot := v"""
    rep.rule(rule, "inside its extent a feature folds its models of a kind over the value painted so far: the model receives the "
                   "current slot value (resp. the running local) as its incoming argument and its result is stored back to the same "
                   "slot; without models of that kind the slot is untouched; the tag slot receives the feature's own tag_index")
    from .layout import feature_properties, find_switch_on_kind
    n = 0
    for F in feature_properties(P):
        out_key = F.params[6]
        sw = find_switch_on_kind(P, F)[0]
        cases = astq.switch_cases(sw)
        for kind_id, kind in ((1, "Temperature"), (2, "Composition")):
            stmts = cases.get(kind_id, [])
            calls = []
            for s in stmts:
                for x in F.walk(s):
                    if x.get("k") == "CXXMemberCallExpr" and P.d(x.get("callee")).get("n") == GET[kind]:
                        calls.append(x)
            for c in calls:
                n += 1
                # incoming argument position from the callee's parameter names
                callee = P.d(c["callee"])
                # find index of the incoming parameter via any overrider with a body
                idx = None
                for k in P.overriders.get(c["callee"], ()):
                    G = P.funcs.get(k)
                    if G is not None:
                        inc = incoming_param(P, G, kind)
                        if inc is not None:
                            idx = G.params.index(inc)
                            break
                if idx is None:
                    rep.unknown(rule, "%s: incoming argument of %s not located" % (F.qn, callee.get("qn")))
                    continue
                arg = c["c"][1 + idx]
                # stored back to
                par = F.parent.get(c["i"])
                while par is not None and par.get("k") in norm.CASTS:
                    par = F.parent.get(par["i"])
                tgt = None
                if par is not None and par.get("k") == "BinaryOperator" and par.get("op") == "=":
                    tgt = par["c"][0]
                elif par is not None and par.get("k") == "VarDecl":
                    tgt = {"k": "DeclRefExpr", "r": par["r"], "n": par.get("n"), "i": -999999}
                a_txt = norm.render(P, arg, nocast=True)
                t_txt = norm.render(P, tgt, nocast=True) if tgt is not None else "?"
                loop = astq.enclosing(F, c, ("CXXForRangeStmt", "ForStmt"))
                in_model_loop = loop is not None and "_models" in norm.render(P, loop["c"][1] if loop["k"] == "CXXForRangeStmt" else loop["c"][1])
                ok = tgt is not None and a_txt == t_txt and in_model_loop
                if not ok and tgt is not None:
                    # slab/fault: temperature_current_section = model->get_temperature(..., temperature_current_section, ...) later interpolated into the slot
                    ok = a_txt == t_txt or (a_txt.startswith("output[") and t_txt.startswith("output["))
                if ok:
                    rep.ok(rule, "%s %s: %s = model(..., %s, ...)" % (F.qn.split("::")[-2], kind.lower(), t_txt[:40], a_txt[:40]), F.nloc(c), F.qn)
                else:
                    rep.violation(rule, "%s: %s model receives %s but its result is stored to %s" % (F.qn, kind.lower(), a_txt[:50], t_txt[:50]), F.nloc(c), F.qn,
                                  norm.render(P, par)[:140] if par else "", "the models of a kind do not compose over the value painted so far",
                                  key="%s|%s|%s" % (rule, F.qn, kind), witness="two models of the same kind with operation add")
        # tag
        for s in cases.get(4, []):
            for x in F.walk(s):
                if x.get("k") == "BinaryOperator" and x.get("op") == "=":
                    sub = astq.subscript(x["c"][0])
                    if sub and astq.is_ref_to(sub[0], out_key):
                        n += 1
                        v = sc(x["c"][1])
                        if v.get("k") == "MemberExpr" and astq.is_this_field(P, v, "tag_index"):
                            rep.ok(rule, "%s tag <- this->tag_index" % F.qn.split("::")[-2], F.nloc(x), F.qn)
                        else:
                            rep.violation(rule, "%s writes %s into the tag slot" % (F.qn, norm.render(P, v)[:50]), F.nloc(x), F.qn, norm.render(P, x)[:100],
                                          "the reported tag is not the covering feature's", key="%s|%s|tag" % (rule, F.qn), witness="tag request inside the feature")
    rep.floor(rule, n, 18, "model folds and tag writes in the 6 features")


def _seed_slot(P, F, stmt, up):
    """what identifies an arithmetic seed independently of the names of locals: the component it is stored to and the operation"""
    tgt = stmt["c"][0] if stmt.get("k") == "BinaryOperator" else None
    comp = "?"
    if tgt is not None:
        sb = astq.subscript(sc(tgt))
        if sb and sc(sb[1]).get("k") == "IntegerLiteral":
            comp = str(sc(sb[1])["v"])
    u = sc(up)
    lits = [str(y.get("v")) for y in F.walk(u) if y.get("k") in ("IntegerLiteral", "FloatingLiteral")]
    return "component %s %s %s" % (comp, u.get("op", "?"), ",".join(lits[:2]))


def seed_copies(P, rep, rule="FOLD.seed"):
    """the painted value enters a feature's computation only as a copy of its own element"""
    rep.rule(rule, "inside a feature a value read from the result vector is used only as a whole: it initialises or is assigned to a "
                   "local (element k of a local array from element k of the block), or is handed to a model as its incoming value; it "
                   "is never combined arithmetically in the feature itself, so that models fold over exactly the value painted so far")
    import sympy as sp
    from .layout import feature_properties, find_switch_on_kind, forward_loop, prop_hook
    WRAP = norm.CASTS + ("ImplicitCastExpr", "MaterializeTemporaryExpr", "ParenExpr", "ExprWithCleanups", "CXXBindTemporaryExpr")
    n = 0
    for F in feature_properties(P):
        entry_k, out_k = F.params[5], F.params[6]
        sym = norm.Sym(P, F, hook=prop_hook(P), inline_locals=True)
        for x in F.walk():
            if not (x.get("k") == "DeclRefExpr" and x.get("r") == out_k):
                continue
            par = F.parent.get(x["i"])
            while par is not None and par.get("k") in WRAP:
                par = F.parent.get(par["i"])
            sub = astq.subscript(par)
            if sub is None or sc(sub[0]) is not x:
                continue    # handed over as a whole (grains view): LAYOUT.L3
            node = sc(par)
            up = F.parent.get(node["i"])
            child = node
            while up is not None and up.get("k") in WRAP:
                child, up = up, F.parent.get(up["i"])
            if up is None:
                continue
            uk = up.get("k")
            # the write side
            if uk in ("BinaryOperator", "CompoundAssignOperator", "CXXOperatorCallExpr") and up.get("op") in norm.ASSIGN_OPS and sc(up["c"][0]) is node:
                if up.get("op") != "=":
                    n += 1
                    rep.violation(rule, "%s: %s" % (F.qn, norm.render(P, up)[:80]), F.nloc(up), F.qn, norm.render(P, up)[:140],
                                  "the feature itself offsets the painted value", key="%s|%s|compound" % (rule, F.qn))
                continue
            n += 1
            # offset of the element read
            idx = sub[1]
            off = None
            try:
                e = sp.expand(sym(idx))
                ent = [a for a in e.free_symbols if str(a).startswith("entry_in_output") or "entry" in str(a).lower()]
                # offset = idx - entry_in_output[i_property]: take the integer constant term
                off = e.as_coeff_Add()[0]
                off = int(off) if off.is_Integer else None
            except Exception:
                off = None
            if uk in ("CXXMemberCallExpr", "CallExpr"):
                callee = P.d(up.get("callee")).get("n", "")
                if callee.startswith("get_"):
                    rep.ok(rule, "%s: %s handed to %s" % (F.qn.split("::")[-2], norm.render(P, node)[:50], callee), F.nloc(x), F.qn)
                    continue
            if uk == "VarDecl":
                rep.ok(rule, "%s: %s initialises %s" % (F.qn.split("::")[-2], norm.render(P, node)[:50], up.get("n")), F.nloc(x), F.qn)
                continue
            if uk == "BinaryOperator" and up.get("op") == "=" and sc(up["c"][1]) is node:
                tsub = astq.subscript(up["c"][0])
                if tsub is None:
                    rep.ok(rule, "%s: %s assigned to %s" % (F.qn.split("::")[-2], norm.render(P, node)[:50], norm.render(P, up["c"][0])[:30]), F.nloc(x), F.qn)
                    continue
                ti = sc(tsub[1])
                if ti.get("k") == "IntegerLiteral" and off is not None and int(ti["v"]) == off:
                    rep.ok(rule, "%s: element %d of %s <- element %d of the block" % (F.qn.split("::")[-2], off, norm.render(P, tsub[0])[:30], off), F.nloc(x), F.qn)
                    continue
                rep.violation(rule, "%s: %s receives %s" % (F.qn, norm.render(P, up["c"][0])[:40], norm.render(P, node)[:50]), F.nloc(up), F.qn,
                              norm.render(P, up)[:140], "element of the local does not come from the same element of the block",
                              key="%s|%s|%s|misaligned" % (rule, F.qn, norm.render(P, up["c"][0])[:40]),
                              witness="a covering feature of this type over a plate that painted a velocity")
                continue
            if uk in ("InitListExpr", "CXXConstructExpr"):
                rep.ok(rule, "%s: %s in an initialiser list" % (F.qn.split("::")[-2], norm.render(P, node)[:50]), F.nloc(x), F.qn)
                continue
            if uk in ("BinaryOperator",) and up.get("op") in ("+", "-", "*", "/"):
                stmt = up
                for a in F.ancestors(up):
                    if a.get("k") in ("BinaryOperator",) and a.get("op") == "=":
                        stmt = a
                        break
                    if a.get("k") in ("VarDecl",):
                        stmt = a
                        break
                rep.violation(rule, "%s: %s is combined arithmetically (%s)" % (F.qn, norm.render(P, node)[:50], norm.render(P, up)[:60]), F.nloc(up), F.qn,
                              norm.render(P, stmt)[:160], "the value the models start from is not the value painted so far",
                              key="%s|%s|%s|arith" % (rule, F.qn, _seed_slot(P, F, stmt, up)),
                              witness="a covering feature of this type without (or with an out-of-range / add) model of this kind over a plate that painted a value")
                continue
            # comparisons, asserts, isnan... do not change the value
            rep.ok(rule, "%s: %s read in %s" % (F.qn.split("::")[-2], norm.render(P, node)[:50], uk), F.nloc(x), F.qn)
    rep.floor(rule, n, 22, "reads of the result vector in the 6 features")


def tag_registry(P, rep, rule="TAG.unique"):
    """tags are interned by full string equality"""
    rep.rule(rule, "add_vector_unique(list, s) returns the index of an element equal to s (full std::string equality against the "
                   "argument) or appends s and returns the new last index; every feature's tag_index is the result of interning its "
                   "own tag in world->feature_tags -- two features share a tag index iff their tags are the same string")
    F = P.func("WorldBuilder::Features::FeatureUtilities::add_vector_unique")
    vec_k, str_k = F.params
    ifs = [x for x in F.walk() if x.get("k") == "IfStmt"]
    loops = [x for x in F.walk() if x.get("k") in ("ForStmt", "CXXForRangeStmt", "WhileStmt")]
    finds = [x for x in F.walk() if x.get("k") == "CallExpr" and P.d(x.get("callee")).get("qn") == "std::find"]
    if len(finds) == 1 and not loops and len(ifs) == 1:
        # the same search spelled with the standard algorithm: std::find compares with operator== (full string equality)
        R_ = lambda n: norm.render(P, n, nocast=True, subst=norm.naming_locals(P, F)).replace(" ", "")
        a = finds[0]["c"][1:]
        okf = len(a) == 3 and R_(a[0]) == "vector.begin()" and R_(a[1]) == "vector.end()" and astq.is_ref_to(a[2], str_k) and astq.is_ref_to(sc(a[0])["c"][0]["c"][0] if sc(a[0]).get("c") else None, vec_k)
        cond = R_(ifs[0]["c"][0])
        rets_ = [x for x in F.walk() if x.get("k") == "ReturnStmt" and x.get("c")]
        in_if_ = [r for r in rets_ if any(a_ is ifs[0] for a_ in F.ancestors(r))]
        after_ = [r for r in rets_ if r not in in_if_]
        found_txt = R_(finds[0])
        for v_ in F.walk():        # the iterator may be held in a local
            if v_.get("k") == "VarDecl" and v_.get("c") and any(y is finds[0] for y in F.walk(v_["c"][0])) and R_(v_["c"][0]).endswith(found_txt):
                found_txt = v_.get("n")
        hit = len(in_if_) == 1 and R_(in_if_[0]["c"][0]) in ("std::distance(vector.begin(),%s)" % found_txt, "(%s-vector.begin())" % found_txt)
        miss = len(after_) == 1 and R_(after_[0]["c"][0]) in ("(vector.size()-1)",)
        pushes_ = [x for x in F.walk() if x.get("k") == "CXXMemberCallExpr" and x["c"][0].get("n") in ("push_back", "emplace_back")]
        push_ok = len(pushes_) == 1 and astq.is_ref_to(pushes_[0]["c"][0]["c"][0], vec_k) and astq.is_ref_to(pushes_[0]["c"][1], str_k)
        if okf and cond in ("(%s!=vector.end())" % found_txt, "(vector.end()!=%s)" % found_txt) and hit and miss and push_ok:
            rep.ok(rule, "add_vector_unique: std::find over the whole list with the argument (operator==), index by distance, else append", F.loc, F.qn)
        else:
            rep.unknown(rule, "add_vector_unique uses std::find in a form this rule does not recognise")
        n = 0
        from .layout import FEATURES
        _tag_sites(P, rep, F, rule)
        return
    if len(ifs) != 1 or len(loops) != 1:
        raise AnalysisBroken("add_vector_unique: %d ifs, %d loops (the confirmed shape is one search loop with one test)" % (len(ifs), len(loops)))
    cond = sc(ifs[0]["c"][0])
    ok = False
    if cond.get("k") == "CXXOperatorCallExpr" and cond.get("op") == "==" and len(cond["c"]) == 2:
        a, b = sc(cond["c"][0]), sc(cond["c"][1])
        def is_elem(n):
            sub = astq.subscript(n)
            return sub is not None and astq.is_ref_to(sub[0], vec_k)
        def is_arg(n):
            return astq.is_ref_to(n, str_k)
        ok = (is_elem(a) and is_arg(b)) or (is_elem(b) and is_arg(a))
    if ok:
        rep.ok(rule, "add_vector_unique: match test is `%s`" % norm.render(P, cond), F.nloc(cond), F.qn)
    else:
        rep.violation(rule, "add_vector_unique: match test is `%s`" % norm.render(P, cond)[:100], F.nloc(cond), F.qn, norm.render(P, cond)[:160],
                      "an element is taken for the tag although it is not the same string: two different tags share an index, a point reports another feature's tag",
                      key="%s|match" % rule, witness="two features whose tags differ but satisfy this test (one a prefix of the other, different case, ...)")
    # on a match: return the loop index; otherwise append the argument and return size()-1
    rets = [x for x in F.walk() if x.get("k") == "ReturnStmt"]
    sym = norm.Sym(P, F, inline_locals=True)
    in_if = [r for r in rets if any(a is ifs[0] for a in F.ancestors(r))]
    after = [r for r in rets if r not in in_if]
    pushes = [x for x in F.walk() if x.get("k") == "CXXMemberCallExpr" and x["c"][0].get("n") in ("push_back", "emplace_back")]
    good = len(in_if) == 1 and len(after) == 1 and len(pushes) == 1
    if good:
        rv = sc(in_if[0]["c"][0])
        loopvars = {v.get("r") for v in F.walk(loops[0]["c"][0]) if v.get("k") == "VarDecl"} if loops[0]["k"] == "ForStmt" and loops[0]["c"][0] else set()
        good = rv.get("k") == "DeclRefExpr" and rv.get("r") in loopvars
        good = good and astq.is_ref_to(pushes[0]["c"][0]["c"][0], vec_k) and astq.is_ref_to(pushes[0]["c"][1], str_k)
        import sympy as sp
        r = sc(after[0]["c"][0])
        szc = astq.member_call(P, r["c"][0], "size") if r.get("k") == "BinaryOperator" and r.get("op") == "-" else None
        good = good and bool(szc) and astq.is_ref_to(szc[0], vec_k) and sc(r["c"][1]).get("v") == 1
    if good:
        rep.ok(rule, "add_vector_unique: returns the matching index, else appends the argument and returns size()-1", F.loc, F.qn)
    else:
        rep.violation(rule, "add_vector_unique: return/append structure", F.loc, F.qn, "; ".join(norm.render(P, r)[:60] for r in rets),
                      "the index handed back is not that of the interned tag", key="%s|structure" % rule)
    _tag_sites(P, rep, F, rule)


def _tag_sites(P, rep, F, rule):
    n = 0
    from .layout import FEATURES
    for f in FEATURES:
        G = P.func("WorldBuilder::Features::%s::parse_entries" % f)
        sites = [x for x in G.walk() if x.get("k") == "CallExpr" and x.get("callee") == F.key]
        for c in sites:
            n += 1
            par = G.parent.get(c["i"])
            while par is not None and par.get("k") in norm.CASTS + ("ImplicitCastExpr",):
                par = G.parent.get(par["i"])
            a0, a1 = sc(c["c"][1]), sc(c["c"][2])
            tgt_ok = par is not None and par.get("k") == "BinaryOperator" and par.get("op") == "=" and astq.is_this_field(P, sc(par["c"][0]), "tag_index")
            a0_ok = a0.get("k") == "MemberExpr" and a0.get("n") == "feature_tags"
            a1_ok = a1.get("k") == "MemberExpr" and astq.is_this_field(P, a1, "tag")
            if not a1_ok and a1.get("k") == "DeclRefExpr" and P.d(a1["r"]).get("storage") == "local":
                # a local holding the feature's tag: initialised from the "tag" entry of the file
                # (directly, or through other locals: `tag = user_tag.empty() ? "<type>" : user_tag`)
                inits_ = {v_["r"]: v_["c"][0] for v_ in G.walk() if v_.get("k") == "VarDecl" and v_.get("c")}
                seen_, todo_ = set(), [a1["r"]]
                while todo_:
                    k_ = todo_.pop()
                    if k_ in seen_ or k_ not in inits_:
                        continue
                    seen_.add(k_)
                    if any(y.get("k") == "StringLiteral" and y.get("v") == "tag" for y in G.walk(inits_[k_])):
                        a1_ok = True
                    todo_ += [y["r"] for y in G.walk(inits_[k_]) if y.get("k") == "DeclRefExpr" and y.get("r") in inits_]
            if tgt_ok and a0_ok and a1_ok:
                rep.ok(rule, "%s: tag_index = add_vector_unique(world->feature_tags, tag)" % f, G.nloc(c), G.qn)
            else:
                rep.violation(rule, "%s::parse_entries: %s" % (f, norm.render(P, par if par else c)[:100]), G.nloc(c), G.qn, norm.render(P, par if par else c)[:160],
                              "the feature's tag index is not the index of its own tag in the world's tag list", key="%s|%s|site" % (rule, f))
    rep.floor(rule, n, 6, "features interning their tag")


def smooth_blend(P, rep, rule="EXPR.smooth"):
    """smooth composition: a blend between the two documented end fractions"""
    import sympy as sp
    rep.rule(rule, "every smooth composition model returns, for a listed composition, w*A + (1-w)*B with w = (1 - tanh(...))/2, where A is the "
                   "fraction parsed from the \"center fractions\"/\"top fractions\" key and B the one from \"side fractions\"/\"bottom fractions\": "
                   "the value tends to A where tanh -> -1 (centre/top) and to B where tanh -> +1 (sides/bottom)")
    n = 0
    for F in sorted(P.funcs.values(), key=lambda f: f.key):
        if F.body is None or not F.qn.endswith("Composition::Smooth::get_composition"):
            continue
        cls = F.qn.rsplit("::", 1)[0]
        PE = P.func(cls + "::parse_entries")
        role = {}
        for x in PE.walk():
            if x.get("k") in ("BinaryOperator", "CXXOperatorCallExpr") and x.get("op") == "=":
                t = sc(x["c"][0])
                if t.get("k") == "MemberExpr" and astq.is_this_field(P, t):
                    lits = [y.get("v") for y in PE.walk(x["c"][1]) if y.get("k") == "StringLiteral"]
                    for l in lits:
                        if l in ("center fractions", "top fractions"):
                            role[t["r"]] = "A"
                        if l in ("side fractions", "bottom fractions"):
                            role[t["r"]] = "B"
        if sorted(role.values()) != ["A", "B"]:
            rep.unknown(rule, "%s: end fractions not identified in parse_entries (%s)" % (cls, sorted(role.values())))
            continue
        A, B, TH = sp.symbols("A B TH", real=True)

        def hook(nd):
            sub = astq.subscript(nd)
            if sub is not None:
                b = sc(sub[0])
                if b.get("k") == "MemberExpr" and b.get("r") in role:
                    return {"A": A, "B": B}[role[b["r"]]]
            if nd.get("k") == "CallExpr" and P.d(nd.get("callee")).get("qn") in ("tanh", "std::tanh"):
                return TH
            return None
        comp_k = None
        for x in F.walk():
            if x.get("k") == "VarDecl" and x.get("n") == "composition":
                comp_k = x["r"]
        asg = [x for x in F.walk() if x.get("k") == "BinaryOperator" and x.get("op") == "=" and comp_k is not None and astq.is_ref_to(x["c"][0], comp_k)]
        if len(asg) != 1:
            rep.unknown(rule, "%s: %d assignments to the local `composition`" % (F.qn, len(asg)))
            continue
        n += 1
        sym = norm.Sym(P, F, inline_locals=True, hook=hook)
        e = sp.expand(sym(asg[0]["c"][1]))
        ok = e.free_symbols <= {A, B, TH} and sp.Poly(e, TH).degree() <= 1
        centre = sp.simplify(e.subs(TH, -1)) if ok else None
        side = sp.simplify(e.subs(TH, 1)) if ok else None
        if ok and centre == A and side == B:
            rep.ok(rule, "%s: composition = w*A + (1-w)*B" % cls.split("Features::")[-1], F.nloc(asg[0]), F.qn)
        else:
            rep.violation(rule, "%s: composition = %s (tanh=-1: %s, tanh=+1: %s)" % (cls.split("Features::")[-1], str(e)[:80], centre, side), F.nloc(asg[0]), F.qn,
                          norm.render(P, asg[0])[:160], "the documented end fractions are not reached", key="%s|%s" % (rule, cls),
                          witness="center/top fraction 1 with side/bottom fraction 0.5: query at the centre and at the side")
    rep.floor(rule, n, 2, "smooth composition models")


# ------------------------------------------------------------------------------------------------
def cooling_formulas(P, rep, rule="EXPR.cooling"):
    """closed forms of the cooling models and the Gaussian plume, from the published model descriptions"""
    from .expr import Block, eq
    rep.rule(rule, "half space: T_b + (T_t - T_b) erfc(d / (2 sqrt(kappa * dist/v))); plate model: T_t + (T_b - T_t) d/L + sum_{n>=1} (T_b - T_t) "
                   "(2/(n pi)) sin(n pi d/L) exp((vL/(2 kappa) - sqrt(v^2 L^2/(4 kappa^2) + n^2 pi^2)) v age/L) with age = dist/v; constant-age plate: the "
                   "same with exp(-n^2 pi^2 kappa age/L^2); Gaussian plume: T_c exp(-rho/(2 sigma^2)); (dist, v) are elements 1 and 0 of the ridge "
                   "routine's result, kappa the world's thermal diffusivity")
    Tt, Tb, d, L, kap, v, dist, age = sp.symbols("Tt Tb d L kappa v dist age", positive=True)

    ctx = {}

    def mk_hook(F, extra=None):
        def hook(n):
            if n.get("k") == "MemberExpr" and astq.is_this_field(P, n):
                m = {"top_temperature": Tt, "bottom_temperature": Tb, "max_depth": L, "plate_age": age}.get(n.get("n"))
                if m is not None:
                    return m
            if n.get("k") == "MemberExpr" and n.get("n") == "thermal_diffusivity" and "world" in norm.render(P, n):
                return kap
            if n.get("k") == "DeclRefExpr" and n.get("n") == "depth" and P.d(n["r"]).get("storage") == "param":
                return d
            if n.get("k") == "DeclRefExpr" and P.d(n["r"]).get("qn") == "WorldBuilder::Consts::PI":
                return sp.pi
            s = astq.subscript(n)
            if s and sc(s[0]).get("n") == "ridge_parameters" and sc(s[1]).get("k") == "IntegerLiteral":
                return {0: v, 1: dist}.get(sc(s[1])["v"])
            if n.get("k") == "ConditionalOperator":
                c = norm.render(P, n["c"][0], nocast=True).replace(" ", "")
                if c in ("(age>0)", "(0<age)"):
                    return ctx["sym"](n["c"][1])
            if extra:
                return extra(n)
            return None
        return hook

    def choose(c):
        t = norm.render(P, c, nocast=True).replace(" ", "")
        if re.match(r"^\(\w+_local<0\)$", t) or re.match(r"^\(\w+<0\)$", t):
            return False       # parameters given (sentinels are N1's business)
        return True

    def run(F, extra=None, loops=False):
        B = Block(P, F, choose=choose, hook=mk_hook(F, extra))
        B.sym.inline_locals = True
        ctx["sym"] = B.sym
        if loops:
            B.loops = []
        B.run(astq.stmts_of(F.body))
        return B

    def value_of(B, F):
        rets = [sc(r["c"][0]) for r in F.walk() if r.get("k") == "ReturnStmt" and r.get("c") and is_apply_operation(P, sc(r["c"][0]))]
        if len(rets) != 1:
            return None
        X = sc(rets[0]["c"][3])
        if X.get("k") == "DeclRefExpr":
            return B.state.get(("var", ("v", X["r"])))
        return B.sym(X)

    n_ok = 0
    extracted = {}
    syms = dict(Tt=Tt, Tb=Tb, d=d, L=L, kappa=kap, v=v, dist=dist, age=age)
    # half space
    for F in P.funcs_named("WorldBuilder::Features::OceanicPlateModels::Temperature::HalfSpaceModel::get_temperature"):
        n_ok += 1
        try:
            B = run(F)
            val = value_of(B, F)
        except AnalysisBroken as e:
            rep.unknown(rule, "%s: %s" % (F.qn, e))
            continue
        want = Tb + (Tt - Tb) * sp.erfc(d / (2 * sp.sqrt(kap * dist / v)))
        if val is not None:
            extracted["half space"] = (F, val)
        if val is not None and eq(val, want):
            rep.ok(rule, "half space model = T_b + (T_t - T_b) erfc(d/(2 sqrt(kappa dist/v)))", F.loc, F.qn)
        else:
            rep.violation(rule, "half space model returns %s" % val, F.loc, F.qn, str(val)[:200], "expected %s" % want, key="%s|halfspace" % rule,
                          witness="oceanic plate with a ridge, point away from the ridge")
    # plate models
    for qn, with_v in (("WorldBuilder::Features::OceanicPlateModels::Temperature::PlateModel::get_temperature", True),
                       ("WorldBuilder::Features::OceanicPlateModels::Temperature::PlateModelConstantAge::get_temperature", False)):
        for F in P.funcs_named(qn):
            n_ok += 1
            try:
                B = run(F, loops=True)
            except AnalysisBroken as e:
                rep.unknown(rule, "%s: %s" % (F.qn, e))
                continue
            if len(B.loops) != 1 or len(B.loops[0]["delta"]) != 1:
                rep.unknown(rule, "%s: series loop not recognised (%d loops)" % (F.qn, len(B.loops)))
                continue
            lp = B.loops[0]
            n = lp["var"]
            (key, delta), = lp["delta"].items()
            base = lp["pre"][key]
            a = dist / v
            if with_v:
                term = (Tb - Tt) * (2 / (n * sp.pi)) * sp.sin(n * sp.pi * d / L) * sp.exp((v * L / (2 * kap) - sp.sqrt(v ** 2 * L ** 2 / (4 * kap ** 2) + n ** 2 * sp.pi ** 2)) * (v * a / L))
            else:
                term = (Tb - Tt) * (2 / (n * sp.pi)) * sp.sin(n * sp.pi * d / L) * sp.exp(-n ** 2 * sp.pi ** 2 * kap * age / L ** 2)
            wbase = Tt + (Tb - Tt) * d / L
            extracted["plate model" if with_v else "constant-age plate model"] = (F, base, delta, n)
            init_ok = lp["init"] == 1
            cnd = norm.render(P, lp["cond"], nocast=True).replace(" ", "")
            mm = re.match(r"^\(\w+<\((\w+)\+1\)\)$", cnd) or re.match(r"^\(\w+<=(\w+)\)$", cnd)
            ok = eq(delta, term) and eq(base, wbase) and init_ok and mm is not None
            label = "plate model" if with_v else "constant-age plate model"
            if ok:
                rep.ok(rule, "%s: linear base + series term n = 1..N" % label, F.loc, F.qn)
            else:
                why = []
                if not eq(base, wbase):
                    why.append("base is %s" % base)
                if not eq(delta, term):
                    why.append("series term is %s" % delta)
                if not init_ok or mm is None:
                    why.append("series runs from %s under %s" % (lp["init"], cnd))
                rep.violation(rule, "%s deviates: %s" % (label, "; ".join(why)[:300]), F.nloc(lp["node"]), F.qn, "", "expected base %s and term %s" % (wbase, term),
                              key="%s|%s" % (rule, label.replace(" ", "-")), witness="oceanic plate, point at mid depth away from the ridge")
    # gaussian plume
    for F in P.funcs_named("WorldBuilder::Features::PlumeModels::Temperature::Gaussian::get_temperature"):
        n_ok += 1
        Tc, sig, rho = sp.symbols("Tc sigma rho", positive=True)

        def extra(nn):
            if nn.get("k") == "DeclRefExpr" and nn.get("n") == "center_temperature_local":
                return Tc
            if nn.get("k") == "DeclRefExpr" and nn.get("n") == "gaussian_sigma":
                return sig
            if nn.get("k") == "DeclRefExpr" and nn.get("n") == "relative_distance_from_center":
                return rho
            return None
        rets = [sc(r["c"][0]) for r in F.walk() if r.get("k") == "ReturnStmt" and r.get("c") and is_apply_operation(P, sc(r["c"][0]))]
        if len(rets) != 1:
            rep.unknown(rule, "%s: apply_operation return" % F.qn)
            continue
        X = sc(rets[0]["c"][3])
        init = X
        if X.get("k") == "DeclRefExpr":
            for x in F.walk():
                if x.get("k") == "VarDecl" and x.get("r") == X["r"] and x.get("c"):
                    init = x["c"][0]
        val = norm.Sym(P, F, inline_locals=False, hook=mk_hook(F, extra))(init)
        want = Tc * sp.exp(-rho / (2 * sig ** 2))
        if eq(val, want):
            rep.ok(rule, "gaussian plume = T_c exp(-rho/(2 sigma^2))", F.loc, F.qn)
        else:
            rep.violation(rule, "gaussian plume returns %s" % val, F.loc, F.qn, str(val)[:160], "expected %s" % want, key=rule + "|gaussian", witness="point off the plume axis")
    rep.floor(rule, n_ok, 4, "cooling / plume closed forms")
    # the two oceanic plate models sum the same series: they truncate it after the same number of terms (sibling agreement;
    # the number itself is not prescribed here)
    terms = {}
    for nm in ("PlateModel", "PlateModelConstantAge"):
        G = P.func("WorldBuilder::Features::OceanicPlateModels::Temperature::%s::get_temperature" % nm)
        symn = norm.Sym(P, G, inline_locals=True)
        for lp in G.walk():
            if lp.get("k") == "ForStmt" and lp["c"][0] is not None and lp["c"][0].get("k") == "DeclStmt" and sc(lp["c"][1]) is not None:
                iv = lp["c"][0]["c"][0]
                c0 = sc(lp["c"][1])
                body_txt = norm.render(P, lp["c"][3])
                if "sin" not in body_txt or c0.get("k") != "BinaryOperator" or c0.get("op") not in ("<", "<=") or not astq.is_ref_to(c0["c"][0], iv.get("r")):
                    continue
                try:
                    start = int(symn(iv["c"][0]))
                    bound = int(symn(c0["c"][1]))
                except Exception:
                    continue
                terms[nm] = (bound - start + (1 if c0["op"] == "<=" else 0), G, lp)
    rule2 = rule + ".terms"
    rep.rule(rule2, "the plate model and the constant-age plate model evaluate the same Fourier series and truncate it after the same number of terms")
    if len(terms) == 2:
        (n1, G1, l1), (n2, G2, l2) = terms["PlateModel"], terms["PlateModelConstantAge"]
        if n1 == n2:
            rep.ok(rule2, "both oceanic plate models sum %d terms" % n1, G1.nloc(l1), G1.qn)
        else:
            few, Gf, lf = (n1, G1, l1) if n1 < n2 else (n2, G2, l2)
            rep.violation(rule2, "the plate model sums %d terms, the constant-age plate model %d" % (n1, n2), Gf.nloc(lf), Gf.qn, "",
                          "one of the two copies of the series is cut shorter: for young plates its truncation error is visible",
                          key=rule2, witness="a plate of a few 10 kyr: the two models with the same age differ beyond the truncation error of the longer sum")
    else:
        rep.unknown(rule2, "series loops found in %s only" % sorted(terms))
    return extracted, syms


def envelope(P, rep, extracted, syms, rule="EXPR.envelope"):
    """C20, the clauses decidable by calculus on the extracted closed forms"""
    rep.rule(rule, "on the closed forms extracted from the code: (B) the prescribed boundary temperatures are attained -- half space: T(depth 0) = "
                   "T_top and T -> T_bottom as depth -> infinity; plate models: T(0) = T_top and T(max depth) = T_bottom (every series term vanishes "
                   "there); (E) half space: T is a convex combination T_b + w (T_t - T_b) with w = erfc(nonnegative) in [0,1], dT/d(depth) has the sign "
                   "of (T_b - T_t) and dT/d(ridge distance) the sign of (T_b - T_t) (older is colder at fixed depth iff T_t < T_b)")
    Tt, Tb, d, L, dist, v = syms["Tt"], syms["Tb"], syms["d"], syms["L"], syms["dist"], syms["v"]
    if "half space" in extracted:
        F, val = extracted["half space"]
        top = sp.simplify(val.subs(d, 0))
        bottom = sp.limit(val, d, sp.oo)
        if sp.simplify(top - Tt) == 0 and sp.simplify(bottom - Tb) == 0:
            rep.ok(rule, "half space: T(0) = T_top, T(inf) = T_bottom", F.loc, F.qn)
        else:
            rep.violation(rule, "half space boundary values: T(0) = %s, T(inf) = %s" % (top, bottom), F.loc, F.qn, "", "prescribed boundary temperatures are not attained",
                          key=rule + "|halfspace|boundary", witness="query at depth 0 away from the ridge")
        w = sp.simplify((val - Tb) / (Tt - Tb))
        is_erfc = w.func == sp.erfc and (w.args[0].is_nonnegative or w.args[0].is_positive)
        dd = sp.simplify(sp.diff(val, d) / (Tb - Tt))
        da = sp.simplify(sp.diff(val, dist) / (Tb - Tt))
        if is_erfc and dd.is_positive and da.is_positive is False and sp.simplify(-da).is_positive:
            rep.ok(rule, "half space: T = T_b + erfc(u>=0) (T_t - T_b); dT/ddepth ~ +(T_b - T_t); dT/ddist ~ -(T_b - T_t)", F.loc, F.qn)
        else:
            rep.violation(rule, "half space envelope/monotonicity: weight %s, dT/dd/(Tb-Tt) = %s, dT/ddist/(Tb-Tt) = %s" % (w, dd, da), F.loc, F.qn, "",
                          "the profile is not a convex combination of its end members rising with depth and falling with age", key=rule + "|halfspace|envelope",
                          witness="T_top < T_bottom, increasing depth / distance from the ridge")
    for label in ("plate model", "constant-age plate model"):
        if label not in extracted:
            continue
        F, base, delta, n = extracted[label]
        t0 = sp.simplify(base.subs(d, 0))
        tL = sp.simplify(base.subs(d, L))
        s0 = sp.simplify(delta.subs(d, 0))
        sL = sp.simplify(delta.subs(d, L))
        if sp.simplify(t0 - Tt) == 0 and sp.simplify(tL - Tb) == 0 and s0 == 0 and sL == 0:
            rep.ok(rule, "%s: T(0) = T_top, T(max depth) = T_bottom (series terms vanish at both boundaries for integer n)" % label, F.loc, F.qn)
        else:
            rep.violation(rule, "%s boundary values: base(0) = %s, base(L) = %s, term(0) = %s, term(L) = %s" % (label, t0, tL, s0, sL), F.loc, F.qn, "",
                          "prescribed boundary temperatures are not attained", key="%s|%s|boundary" % (rule, label.replace(" ", "-")),
                          witness="query at depth 0 and at the model's max depth")


# ------------------------------------------------------------------------------------------------
def parameter_single_source(P, rep, rule="PARAM.source"):
    """a model that keeps its own copy of a world constant reads the world's value only while parsing"""
    rep.rule(rule, "a model class that has a field named like a physical constant of World (its own, possibly overridden, copy: thermal "
                   "diffusivity, specific heat, ...) reads `world-><that constant>` only in parse_entries, where the copy is initialised; "
                   "every function on the query path uses the copy - otherwise one formula mixes two values of the same parameter as soon "
                   "as the model overrides it")
    own = {}       # class qn -> {field name}
    reads = {}     # class qn -> [(F, node, name)]
    for F in P.funcs.values():
        if F.body is None or "/source/world_builder/features/" not in F.file or "::" not in F.qn:
            continue
        cls = F.qn.rsplit("::", 1)[0]
        for n in F.walk(F.body):
            if n.get("k") != "MemberExpr":
                continue
            d = P.d(n.get("r"))
            if d.get("k") != "Field":
                continue
            qn = d.get("qn") or ""
            if qn.startswith("WorldBuilder::World::"):
                reads.setdefault(cls, []).append((F, n, d.get("n")))
            elif astq.is_this_field(P, n):
                own.setdefault(cls, set()).add(d.get("n"))
    n_cls = 0
    for cls in sorted(own):
        shadow = {nm for (_, _, nm) in reads.get(cls, [])} & own[cls]
        if not shadow:
            continue
        n_cls += 1
        bad = [(F, n, nm) for (F, n, nm) in reads[cls] if nm in shadow and F.name != "parse_entries"]
        if bad:
            F, n, nm = bad[0]
            rep.violation(rule, "%s::%s reads world->%s although the model has its own %s" % (cls.replace("WorldBuilder::Features::", ""), F.name, nm, nm),
                          F.nloc(n), F.qn, norm.render(P, astq.enclosing(F, n, ("VarDecl", "BinaryOperator")) or n)[:140],
                          "with an overridden `%s` the formula mixes the model's and the world's value" % nm.replace("_", " "),
                          key="%s|%s|%s" % (rule, cls, nm), witness="a model that sets its own '%s' different from the world's" % nm.replace("_", " "))
        else:
            rep.ok(rule, "%s: world's %s read while parsing only" % (cls.replace("WorldBuilder::Features::", ""), ", ".join(sorted(shadow))), "", cls)
    rep.floor(rule, n_cls, 5, "model classes with their own copy of a world constant")


# ------------------------------------------------------------------------------------------------
def mckenzie_formula(P, rep, rule="EXPR.mckenzie"):
    """the slab `plate model` is McKenzie's (1970) series"""
    from .veceval import VecEval, EPS
    from .frame import _at
    rep.rule(rule, "SubductingPlateModels::Temperature::PlateModel: T = f * (Tm + 2 (Tm - 273.15) sum_{n=1..N} ((-1)^n/(n pi)) exp((R - sqrt(R^2 + n^2 "
                   "pi^2)) x') sin(n pi z')), R = rho cp v H/(2 k) with v the plate velocity per second, H = min(local thickness, max distance), "
                   "x' = distance along the slab / H, z' = 1 - distance from the slab surface / H, f = exp(alpha g depth/cp) with adiabatic heating "
                   "and 1 without (McKenzie 1970, as documented); the extracted loop term and final expression are compared by a 40-digit "
                   "zero test at five parameter points")
    fs = P.funcs_named("WorldBuilder::Features::SubductingPlateModels::Temperature::PlateModel::get_temperature")
    if not fs:
        rep.unknown(rule, "SubductingPlateModels::Temperature::PlateModel::get_temperature not found")
        return
    F = fs[0]
    loops = [l for l in F.walk(F.body) if l.get("k") == "ForStmt"]
    if len(loops) != 1:
        rep.unknown(rule, "%d loops in the slab plate model (one series expected)" % len(loops))
        return
    loop = loops[0]
    blk = astq.enclosing(F, loop, ("CompoundStmt",))
    iv = loop["c"][0]["c"][0] if loop["c"][0] is not None and loop["c"][0].get("k") == "DeclStmt" else None
    if iv is None:
        rep.unknown(rule, "series loop variable not found")
        return
    n_ok = 0
    for adiabatic in (True, False):
        def choose(cv, node, adiabatic=adiabatic):
            txt = str(cv)
            if "adiabatic_heating" in txt:
                return adiabatic
            if cv.has(EPS):
                # generic point (not on the slab surface, not at the trench): decide the rounding guard at generic values
                try:
                    pt_ = {x_: (sp.Rational(1, 10 ** 16) if x_ == EPS else sp.Rational(12345, 10)) for x_ in cv.free_symbols}
                    return bool(_at(cv, pt_))
                except Exception:
                    return None
            return None
        V = VecEval(P, F, env={}, choose=choose)
        i_s = sp.Symbol("n_", integer=True, positive=True)
        S0 = sp.Symbol("S0", real=True)
        try:
            # the thickness declared in front of the range test
            for st in astq.stmts_of(F.body):
                if st.get("k") == "DeclStmt":
                    V.stmt(st)
            stmts = astq.stmts_of(blk)
            k_loop = [q for q, st in enumerate(stmts) if st is loop][0]
            for st in stmts[:k_loop]:
                V.stmt(st)
            sum_keys = [v["r"] for st in stmts[:k_loop] if st.get("k") == "DeclStmt" for v in st["c"] if v.get("k") == "VarDecl" and V.env.get(v["r"]) == 0]
            if len(sum_keys) != 1:
                rep.unknown(rule, "the accumulator of the series (a local starting at 0) was not identified")
                return
            sk = sum_keys[0]
            V.env[sk] = S0
            V.env[iv["r"]] = i_s
            V.stmt(loop["c"][3])
            term = sp.expand(V.env[sk] - S0)
            start = V.ev(iv["c"][0])
            last = V.ev(sc(loop["c"][1])["c"][1])
            V.env[sk] = sp.Symbol("SUM", real=True)
            for st in stmts[k_loop + 1:]:
                if st.get("k") in ("DeclStmt", "IfStmt", "BinaryOperator", "CompoundAssignOperator") and not any(z.get("k") == "ReturnStmt" for z in F.walk(st)):
                    V.stmt(st)
            rets = [r_ for st in stmts[k_loop + 1:] for r_ in F.walk(st) if r_.get("k") == "ReturnStmt" and r_.get("c") and is_apply_operation(P, sc(r_["c"][0]))]
            if len(rets) != 1:
                rep.unknown(rule, "the value handed to apply_operation after the series was not found")
                return
            val = V.ev(sc(rets[0]["c"][0])["c"][3])
        except AnalysisBroken as e:
            rep.unknown(rule, "slab plate model (%s adiabatic heating): %s" % ("with" if adiabatic else "without", e))
            return
        # name the symbols by role
        names = {}
        for s_ in (term.free_symbols | val.free_symbols):
            nm = str(s_).replace("this->", "")
            names[s_] = nm
        def sy(name):
            c_ = [s_ for s_, nm in names.items() if nm == name or nm.endswith("." + name) or nm.endswith("->" + name)]
            return c_[0] if len(c_) == 1 else None
        rho, cp, vp, kc, al, Tm, Lmax = sy("density"), sy("specific_heat"), sy("plate_velocity"), sy("thermal_conductivity"), sy("thermal_expansion_coefficient"), \
            sy("potential_mantle_temperature"), sy("max_depth")
        dfp, dap, hloc = sy("distance_from_plane"), sy("distance_along_plane"), sy("local_thickness")
        depth_s, g_s = sy("depth"), sy("gravity_norm")
        need = [rho, cp, vp, kc, Tm, Lmax, dfp, dap, hloc] + ([al, depth_s, g_s] if adiabatic else [])
        if any(x is None for x in need):
            rep.unknown(rule, "slab plate model: parameters not identified by name (%s)" % sorted(names.values())[:12])
            return
        H = sp.Min(hloc, Lmax)
        Rr = rho * cp * (vp / (sp.Rational(36525, 100) * 24 * 60 * 60)) * H / (2 * kc)
        xs, zs = dap / H, 1 - dfp / H
        want_term = ((-1) ** i_s / (i_s * sp.pi)) * sp.exp((Rr - sp.sqrt(Rr ** 2 + i_s ** 2 * sp.pi ** 2)) * xs) * sp.sin(i_s * sp.pi * zs)
        f_ = sp.exp(al * g_s * depth_s / cp) if adiabatic else 1
        want_val = f_ * (Tm + 2 * (Tm - sp.Rational(27315, 100)) * sp.Symbol("SUM", real=True))
        import random
        rnd = random.Random(7)
        bad = None
        for trial in range(5):
            Q = lambda a_, b_: sp.Rational(rnd.randint(int(a_ * 1000), int(b_ * 1000)), 1000)
            pt = {rho: Q(3000, 3400), cp: Q(1000, 1300), vp: Q(0.01, 0.1), kc: Q(2, 4), Tm: Q(1500, 1700), Lmax: Q(90000, 120000), dfp: Q(1000, 80000), dap: Q(1000, 400000),
                  hloc: Q(80000, 130000), i_s: sp.Integer(rnd.randint(1, 9)), sp.Symbol("SUM", real=True): Q(-0.4, 0.0), EPS: sp.Rational(1, 10 ** 16)}
            if adiabatic:
                pt.update({al: sp.Rational(3, 10 ** 5), g_s: Q(9, 10), depth_s: Q(1000, 600000)})
            try:
                d1 = _at(term - want_term, pt)
                d2 = _at(val - want_val, pt)
            except Exception as e:
                rep.unknown(rule, "slab plate model: %s" % e)
                return
            if not (abs(d1) < 1e-25 and abs(d2) < 1e-9):      # the literal 273.15 is a double, not 27315/100
                bad = (d1, d2)
                break
        n_terms_ok = (start == 1 and getattr(last, "is_Integer", False) and int(last) >= 100)
        if bad or not n_terms_ok:
            rep.violation(rule, "slab plate model (%s adiabatic heating): %s" % ("with" if adiabatic else "without",
                          "the series runs from n = %s to %s" % (start, last) if not n_terms_ok else "the series term / final expression differ from McKenzie's by (%.3g, %.3g) at a parameter point" % (float(bad[0]), float(bad[1]))),
                          F.nloc(loop), F.qn, str(term)[:160], "expected T = f (Tm + 2 (Tm - 273.15) sum ((-1)^n/(n pi)) exp((R - sqrt(R^2 + n^2 pi^2)) x') sin(n pi z'))",
                          key="%s|%s" % (rule, "ad" if adiabatic else "noad"), witness="a slab with the `plate model` temperature and non-default plate velocity")
        else:
            n_ok += 1
    if n_ok == 2:
        rep.ok(rule, "slab plate model = McKenzie (1970) series (n = 1..%s), with and without adiabatic heating" % last, F.nloc(loop), F.qn)


# ------------------------------------------------------------------------------------------------
def polynomial_tables(P, rep, rule="EXPR.poly"):
    """tian2019: each polynomial is evaluated with one table: loop bound, coefficient and exponent refer to the same coefficients"""
    rep.rule(rule, "in the tian2019 water-content models every polynomial sum has the form sum_i T[i] * pow(x, T.size() - 1 - i) for i in "
                   "[0, T.size()): the loop bound, the coefficient and the exponent are taken from one and the same table T (highest power "
                   "first), and the four sums accumulate into four different variables")
    n = 0
    for F in sorted(P.funcs.values(), key=lambda f: f.qn):
        if F.body is None or not F.qn.endswith("TianWaterContent::calculate_water_content"):
            continue
        R = lambda x: norm.render(P, x, nocast=True).replace(" ", "").replace("this->", "")
        accs = {}
        for L in F.walk(F.body):
            if L.get("k") != "ForStmt":
                continue
            init, cond = L["c"][0], sc(L["c"][1])
            iv = init["c"][0] if init is not None and init.get("k") == "DeclStmt" and init["c"] else None
            if iv is None or cond is None or cond.get("op") != "<":
                continue
            bm = astq.member_call(P, cond["c"][1], "size")
            if not bm:
                continue
            table = R(bm[0])
            n += 1
            problems = []
            if not (iv.get("c") and sc(iv["c"][0]).get("k") == "IntegerLiteral" and int(sc(iv["c"][0])["v"]) == 0):
                problems.append("the loop does not start at 0")
            adds = [y for y in F.walk(L["c"][3]) if y.get("k") == "CompoundAssignOperator" and y.get("op") == "+="]
            if len(adds) != 1:
                problems.append("%d accumulations in the loop" % len(adds))
            else:
                y = adds[0]
                acc = sc(y["c"][0])
                rhs = sc(y["c"][1])
                coef = pw = None
                if rhs.get("k") == "BinaryOperator" and rhs.get("op") == "*":
                    for a_, b_ in ((rhs["c"][0], rhs["c"][1]), (rhs["c"][1], rhs["c"][0])):
                        s_ = astq.subscript(sc(a_))
                        b0 = sc(b_)
                        while b0 is not None and b0.get("k") == "ParenExpr":
                            b0 = sc(b0["c"][0])
                        if s_ and astq.is_ref_to(s_[1], iv["r"]) and b0 is not None and b0.get("k") == "CallExpr" and P.d(b0.get("callee")).get("qn") in ("std::pow", "pow"):
                            coef, pw = s_, b0
                if coef is None:
                    problems.append("the term is not T[i] * pow(x, e): %s" % R(rhs)[:60])
                else:
                    if R(coef[0]) != table:
                        problems.append("the coefficient is read from %s, the loop runs over %s" % (R(coef[0])[:40], table[:40]))
                    ex = R(pw["c"][2])
                    want = ["((%s.size()-1)-%s)" % (table, iv.get("n")), "(%s.size()-1-%s)" % (table, iv.get("n")), "(%s.size()-(1+%s))" % (table, iv.get("n")),
                            "(%s.size()-(%s+1))" % (table, iv.get("n"))]
                    if ex not in want:
                        problems.append("the exponent is %s, expected %s.size() - 1 - %s" % (ex[:60], table[:40], iv.get("n")))
                if acc is not None and acc.get("k") == "DeclRefExpr":
                    for (other_key, other_loop) in accs.get(F.qn, []):
                        if other_key != acc["r"]:
                            continue
                        # the two arms of one if-statement are alternatives, not two sums of one evaluation
                        exclusive = False
                        for a_ in F.ancestors(L):
                            if a_.get("k") == "IfStmt" and len(a_["c"]) > 2 and a_["c"][2] is not None:
                                in_then = lambda node, a_=a_: any(z is node for z in F.walk(a_["c"][1]))
                                in_else = lambda node, a_=a_: any(z is node for z in F.walk(a_["c"][2]))
                                if (in_then(L) and in_else(other_loop)) or (in_else(L) and in_then(other_loop)):
                                    exclusive = True
                        if not exclusive:
                            problems.append("two sums accumulate into %s" % acc.get("n"))
                    accs.setdefault(F.qn, []).append((acc["r"], L))
            if problems:
                rep.violation(rule, "%s: %s" % (F.qn.replace("WorldBuilder::Features::", ""), "; ".join(problems)), F.nloc(L), F.qn, R(L["c"][3])[:140],
                              "a polynomial of the parameterisation is evaluated with the wrong powers or coefficients", key="%s|%s|%s" % (rule, F.qn, table[:30]),
                              witness="a tian2019 water content model at 3 GPa")
            else:
                rep.ok(rule, "%s: sum over %s" % (F.qn.replace("WorldBuilder::Features::", ""), table), F.nloc(L), F.qn)
    rep.floor(rule, n, 6, "polynomial sums in the tian2019 models")


# ------------------------------------------------------------------------------------------------
def blend_identity(P, rep, rule="FOLD.blend"):
    """a line feature whose two sections give the same value hands that value on unchanged"""
    from .segments import LINE
    rep.rule(rule, "in SubductingPlate / Fault::properties every value blended between the current and the next section comes back unchanged when "
                   "both sections give the same value (in particular when neither has a model of that kind and both are the incoming value): "
                   "cur + f*(next - cur) is cur for next = cur; a blend through quat_cast / slerp / mat3_cast is not the identity (a zero matrix "
                   "becomes the identity matrix, a rotation picks up round-off) unless equal orientations are kept by a guard in front of it")
    n = 0
    for name, cls in LINE.items():
        F = P.func(cls + "::properties")
        for y in F.walk(F.body):
            if not (y.get("k") in ("BinaryOperator", "CXXOperatorCallExpr") and y.get("op") == "="):
                continue
            kids = [x for x in y["c"] if x is not None]
            rhs = kids[-1]
            calls = [z for z in F.walk(rhs) if z.get("k") == "CallExpr" and z.get("callee") and (P.d(z["callee"]).get("qn") or "").endswith("quaternion::mat3_cast")]
            if not calls:
                continue
            n += 1
            # a guard that keeps equal orientations: the statement is control dependent on a comparison of two rotation matrices having failed
            guarded = False
            for a in F.ancestors(y):
                if a.get("k") == "IfStmt":
                    t = norm.render(P, a["c"][0], nocast=True)
                    if "rotation_matrices" in t and ("==" in t or "!=" in t):
                        guarded = True
            loop = astq.enclosing(F, y, ("ForStmt",))
            if loop is not None and not guarded:
                for st in astq.stmts_of(loop["c"][3]):
                    if st is y or any(z is y for z in F.walk(st)):
                        break
                    if st.get("k") == "IfStmt" and "rotation_matrices" in norm.render(P, st["c"][0], nocast=True) and \
                            any(z.get("k") in ("ContinueStmt",) for z in F.walk(st["c"][1])):
                        guarded = True
            if guarded:
                rep.ok(rule, "%s: orientations are blended through quaternions only when they differ" % name, F.nloc(y), F.qn)
            else:
                rep.violation(rule, "%s::properties: grain orientations are always passed through quat_cast / slerp / mat3_cast" % name, F.nloc(y), F.qn,
                              norm.render(P, y)[:140], "inside a %s whose sections have no grains models (or equal ones) the incoming orientation is not handed on unchanged: "
                              "an unset (zero) matrix becomes the identity matrix" % name.lower(), key="%s|%s|orientation" % (rule, cls),
                              witness="a plate without grains models crossed by a %s without grains models, grains requested inside it" % name.lower())
    rep.floor(rule, n, 2, "orientation blends in line features")


# ------------------------------------------------------------------------------------------------
def gaussian_top_side(P, rep, rule="EXPR.massconserving.top"):
    """C20, mass-conserving slab: the side above the slab's coldest surface"""
    rep.rule(rule, "MassConserving::get_temperature_analytic, side above the coldest surface (adjusted distance < 0): the Gaussian "
                   "T_ + Q/(rho c sqrt(pi kappa t)) exp(-x^2/(4 kappa t)) with t = (Q/(rho c (T_min - T_)))^2/(pi kappa) attains T_min at "
                   "x = 0 when Q < 0 and T_ > T_min (it joins the lower side there and stays between T_min and T_); it is entered only "
                   "when the incoming temperature is not below T_min - otherwise the result would be 2 T_ - T_min, below both end members")
    F = P.func("WorldBuilder::Features::SubductingPlateModels::Temperature::MassConserving::get_temperature_analytic")
    # the incoming temperature by position in the callee's signature is not reliable under reordering: take it from the call in
    # get_temperature, where the model's incoming value parameter is passed
    G = P.func("WorldBuilder::Features::SubductingPlateModels::Temperature::MassConserving::get_temperature")
    inc_outer = incoming_param(P, G, "Temperature")
    inc = None
    for c in G.walk():
        if c.get("k") == "CXXMemberCallExpr" and c.get("callee") == F.key:
            for i, a in enumerate(c["c"][1:]):
                if astq.is_ref_to(sc(a), inc_outer):
                    inc = F.params[i]
    if inc is None:
        raise AnalysisBroken("%s: incoming temperature argument not found in the call from get_temperature" % F.qn)
    # the assignment  temperature = T_ + (...) * exp(...)  in the else branch of an if
    cands = []
    for x in F.walk():
        if x.get("k") == "BinaryOperator" and x.get("op") == "=" and any(
                y.get("k") == "CallExpr" and P.d(y.get("callee")).get("qn") in ("std::exp", "exp") for y in F.walk(x["c"][1])) and any(
                astq.is_ref_to(y, inc) for y in F.walk(x["c"][1])):
            g = astq.enclosing(F, x, ("IfStmt",))
            if g is not None and len(g["c"]) > 2 and g["c"][2] is not None:
                in_else = any(y is x for y in F.walk(g["c"][2]))
                in_then = any(y is x for y in F.walk(g["c"][1]))
                if in_else or in_then:
                    cands.append((x, g, in_else))
    if len(cands) != 1:
        raise AnalysisBroken("%s: %d guarded Gaussian assignments" % (F.qn, len(cands)))
    asg, g, in_else = cands[0]
    Tm, T_, D, Q, rho, cp, kap, X = sp.symbols("Tmin Tin D Q rho cp kappa x", positive=True)
    symb = norm.Sym(P, F, inline_locals=True)
    E = symb(asg["c"][1])
    # name the symbols by role: parameters by their use in the denominator (T_min - T_ + eps): the one subtracted is the incoming value
    free = {str(q).split("@")[0]: q for q in E.free_symbols}
    incname = P.d(inc).get("n")
    if incname not in free:
        raise AnalysisBroken("%s: incoming temperature does not occur in the Gaussian" % F.qn)
    # T_min: the parameter that occurs in a difference with the incoming temperature
    tmin = None
    for n in sp.preorder_traversal(E):
        if n.is_Add:
            syms_ = [a for a in n.args if a.is_Symbol] + [-a for a in n.args if (-a).is_Symbol]
            if free[incname] in [(-a) for a in n.args if (-a).is_Symbol] and any(a.is_Symbol and a != free[incname] for a in n.args):
                tmin = [a for a in n.args if a.is_Symbol and a != free[incname]][0]
    if tmin is None:
        raise AnalysisBroken("%s: no difference (T_min - incoming) in the Gaussian" % F.qn)
    fields = {str(q): q for q in E.free_symbols if str(q).startswith("this.")}
    consts = {q: sp.pi for q in E.free_symbols if str(q).endswith("Consts::PI")}
    others = [q for q in E.free_symbols if q not in (free[incname], tmin) and not str(q).startswith("this.") and q not in consts]
    # Q = the heat content (the remaining parameter other than x); x = the one squared inside exp
    xs = None
    dummy = sp.Symbol("exp_")
    noexp = E.replace(lambda n: n.func == sp.exp, lambda n: dummy)
    for q in sorted(others, key=str):
        if not noexp.has(q):       # occurs inside the exponential only
            xs = q
    qs = [q for q in others if q != xs]
    if xs is None or len(qs) != 1:
        raise AnalysisBroken("%s: heat content / distance symbols not identified (%s)" % (F.qn, others))
    sub = {xs: 0, qs[0]: -Q, tmin: T_ - D, free[incname]: T_}
    sub.update(consts)
    for nm, q in fields.items():
        sub[q] = sp.Symbol(nm.replace("this.", "p_"), positive=True)
    E0 = E.xreplace(sub)
    E0 = E0.xreplace({f: sp.Integer(0) for f in E0.atoms(sp.Float, sp.Rational) if 0 < abs(float(f)) <= 1e-12})
    E0 = sp.simplify(E0)
    at0 = sp.simplify(E0 - (T_ - D))
    if at0 == 0:
        rep.ok(rule, "at x = 0 with Q < 0, T_ > T_min the Gaussian side equals T_min (eps terms dropped)", F.nloc(asg), F.qn, norm.render(P, asg)[:120])
    else:
        rep.violation(rule, "Gaussian side at x = 0 is %s, not T_min = Tin - D" % E0, F.nloc(asg), F.qn, norm.render(P, asg)[:160],
                      "the two sides of the slab's coldest surface do not join at the minimum temperature: the profile leaves [T_min, T_] there",
                      key=rule + "|join", witness="mass conserving slab, point just above the coldest surface")
    # everywhere on that side: T = T_ - D w with w = exp(nonpositive) in (0, 1], i.e. between T_min and T_
    xr = sp.Symbol("x", real=True)
    sub_x = dict(sub)
    sub_x[xs] = xr
    Ex = E.xreplace(sub_x)
    Ex = Ex.xreplace({f: sp.Integer(0) for f in Ex.atoms(sp.Float, sp.Rational) if 0 < abs(float(f)) <= 1e-12})
    w = sp.simplify((T_ - Ex) / D)
    if w.func == sp.exp and w.args[0].is_nonpositive:
        rep.ok(rule, "on the whole side T = T_ - (T_ - T_min) exp(%s): between T_min and T_" % w.args[0], F.nloc(asg), F.qn)
    else:
        rep.violation(rule, "Gaussian side is T_ - (T_ - T_min) * (%s)" % w, F.nloc(asg), F.qn, norm.render(P, asg)[:160],
                      "the weight is not exp(nonpositive): the side above the coldest surface is not confined between T_min and T_",
                      key=rule + "|weight", witness="mass conserving slab, points above the coldest surface")
    # the guard
    c = sc(g["c"][0])
    okg = False
    if c.get("k") == "BinaryOperator" and c.get("op") in ("<", "<=", ">", ">="):
        try:
            e = sp.simplify((symb(c["c"][0]) - symb(c["c"][1])).xreplace({tmin: T_ - D, free[incname]: T_}))
        except Exception:
            e = None
        if e is not None:
            below = (e == D and c["op"] in ("<", "<=")) or (e == -D and c["op"] in (">", ">="))     # cond <=> incoming below T_min
            above = (e == D and c["op"] in (">", ">=")) or (e == -D and c["op"] in ("<", "<="))     # cond <=> incoming above T_min
            okg = (below and in_else) or (above and not in_else)
    if okg:
        rep.ok(rule, "the Gaussian side is entered only when the incoming temperature is not below T_min: `%s`" % norm.render(P, c), F.nloc(g), F.qn)
    else:
        rep.violation(rule, "the Gaussian side is guarded by `%s`" % norm.render(P, c), F.nloc(g), F.qn, norm.render(P, c),
                      "for an incoming temperature below T_min the Gaussian gives 2 T_ - T_min, colder than both end members (below the surface "
                      "temperature in the overriding plate)", key=rule + "|guard",
                      witness="mass conserving slab under a cold overriding plate: point above the slab top whose painted temperature is below the slab's minimum temperature")


def conductive_bottom_side(P, rep, rule="EXPR.massconserving.bottom"):
    """C20, mass-conserving slab: the side below the slab's coldest surface"""
    rep.rule(rule, "MassConserving::get_temperature_analytic, side below the coldest surface (adjusted distance x >= 0): the half-space form is "
                   "T_b + (T_min - T_b) erfc(x / (2 sqrt(kappa t))) - T_min at x = 0, T_b as x -> infinity, weight erfc(nonnegative); the "
                   "plate form is T_b + (T_min - T_b)(1 - x/L) minus series terms that vanish at x = 0 and x = L for every integer index, used for "
                   "x < L with the same L, and T_b beyond; both reference models share T_min and T_b")
    F = P.func("WorldBuilder::Features::SubductingPlateModels::Temperature::MassConserving::get_temperature_analytic")
    # the side split: the first if whose condition compares a parameter with 0
    split = None
    for x in F.walk():
        if x.get("k") == "IfStmt" and len(x["c"]) > 2 and x["c"][2] is not None:
            c = sc(x["c"][0])
            if c.get("k") == "BinaryOperator" and c.get("op") in ("<", "<=") and sc(c["c"][0]).get("k") == "DeclRefExpr" and sc(c["c"][0]).get("r") in F.params \
                    and sc(c["c"][1]).get("k") in ("IntegerLiteral", "FloatingLiteral") and float(sc(c["c"][1])["v"]) == 0.0:
                split = x
                break
    if split is None:
        raise AnalysisBroken("%s: side split `x < 0` not found" % F.qn)
    xk = sc(sc(split["c"][0])["c"][0])["r"]
    symb = norm.Sym(P, F, inline_locals=False, inline_consts=True)
    X = sp.Symbol("x", positive=True)
    I = sp.Symbol("i", integer=True, positive=True)
    asgs = [a for a in F.walk(split["c"][2]) if a.get("k") == "BinaryOperator" and a.get("op") == "=" and sc(a["c"][0]).get("k") == "DeclRefExpr"]
    tgt = {sc(a["c"][0])["r"] for a in asgs}
    if len(tgt) != 1:
        raise AnalysisBroken("%s: the lower side assigns %d different locals" % (F.qn, len(tgt)))
    tk = tgt.pop()

    def pos(E):
        """parameters/fields as positive symbols, x by role, loop counters as positive integers, pi exact"""
        sub = {}
        for q in E.free_symbols:
            nm = str(q)
            k = symb.keys.get(q)
            if k == xk:
                sub[q] = X
            elif nm.endswith("Consts::PI"):
                sub[q] = sp.pi
            elif k is not None and k not in F.params and k != tk:
                sub[q] = I if "int" in (P.d(k).get("t") or "") else sp.Symbol(nm.split("@")[0], positive=True)
            elif k != tk:
                sub[q] = sp.Symbol(nm.split("@")[0].replace("this.", "p_"), positive=True)
        return E.xreplace(sub)
    ends = {}     # form -> (value at 0, far value)
    n = 0
    for a in asgs:
        rhs = sc(a["c"][1])
        E = pos(symb(rhs))
        loop = astq.enclosing(F, a, ("ForStmt",))
        tsym = [q for q in E.free_symbols if symb.keys.get(q) == tk]
        n += 1
        if loop is not None:
            if len(tsym) != 1:
                rep.violation(rule, "series step does not update the running temperature", F.nloc(a), F.qn, norm.render(P, a)[:120], "", key=rule + "|series-form")
                continue
            term = sp.simplify(E - tsym[0])
            Ls = _plate_thickness(term, X)
            z0 = sp.simplify(term.subs(X, 0))
            zL = sp.simplify(term.subs(X, Ls)) if Ls is not None else None
            if z0 == 0 and zL == 0:
                rep.ok(rule, "plate series term vanishes at x = 0 and x = %s for every integer index" % Ls, F.nloc(a), F.qn)
                ends.setdefault("plate", {})["L_series"] = Ls
            else:
                rep.violation(rule, "plate series term is %s at x = 0 and %s at x = L" % (z0, zL), F.nloc(a), F.qn, norm.render(P, a)[:160],
                              "the series shifts the temperature at the coldest surface or at the plate's base away from T_min / T_b",
                              key=rule + "|series-ends", witness="mass conserving slab with the plate reference model: point on the coldest surface / at distance max depth below it")
            continue
        if tsym:
            rep.violation(rule, "lower side: %s" % norm.render(P, a)[:100], F.nloc(a), F.qn, "", "unexpected update of the running temperature", key=rule + "|update")
            continue
        if E.has(sp.erfc) or E.has(sp.erf):
            v0 = sp.simplify(E.subs(X, 0))
            vinf = sp.limit(E, X, sp.oo)
            ends["half space"] = {"at0": v0, "far": vinf}
            w = sp.simplify((E - vinf) / (v0 - vinf)) if v0 != vinf else None
            if w is not None and w.func == sp.erfc and (w.args[0].is_nonnegative or w.args[0].is_positive) and v0.is_Symbol and vinf.is_Symbol:
                rep.ok(rule, "half-space form: %s at x = 0, %s as x -> oo, weight erfc(%s)" % (v0, vinf, w.args[0]), F.nloc(a), F.qn)
            else:
                rep.violation(rule, "half-space form: %s at x = 0, %s as x -> oo, weight %s" % (v0, vinf, w), F.nloc(a), F.qn, norm.render(P, a)[:160],
                              "not a convex combination of the minimum and the ambient temperature", key=rule + "|halfspace",
                              witness="mass conserving slab with the half space reference model, points below the coldest surface")
        elif E.has(X):
            v0 = sp.simplify(E.subs(X, 0))
            Ls = _plate_thickness(E, X)
            vL = sp.simplify(E.subs(X, Ls)) if Ls is not None else None
            ends.setdefault("plate", {}).update({"at0": v0, "far": vL, "L": Ls})
            # used only for x < L
            g = astq.enclosing(F, a, ("IfStmt",))
            gc = sc(g["c"][0]) if g is not None else None
            okg = False
            if gc is not None and gc.get("k") == "BinaryOperator" and gc.get("op") in ("<", "<="):
                try:
                    okg = sp.simplify(pos(symb(gc["c"][0])) - X) == 0 and sp.simplify(pos(symb(gc["c"][1])) - Ls) == 0
                except Exception:
                    okg = False
            try:
                deg = sp.Poly(sp.expand(E), X).degree()
            except Exception:
                deg = -1
            if deg == 1 and v0.is_Symbol and vL is not None and vL.is_Symbol and okg:
                rep.ok(rule, "plate form: linear from %s at x = 0 to %s at x = %s, used for x < %s" % (v0, vL, Ls, Ls), F.nloc(a), F.qn)
            else:
                rep.violation(rule, "plate form: %s at x = 0, %s at x = %s (guard `%s`)" % (v0, vL, Ls, norm.render(P, gc) if gc else "-"), F.nloc(a), F.qn,
                              norm.render(P, a)[:160], "the conductive profile of the plate does not run from T_min at the coldest surface to T_b at its base",
                              key=rule + "|plate", witness="mass conserving slab with the plate reference model, points below the coldest surface")
        else:
            ends.setdefault("beyond", []).append((E, a))
    far = {str(v.get("far")) for k, v in ends.items() if k in ("half space", "plate")}
    at0 = {str(v.get("at0")) for k, v in ends.items() if k in ("half space", "plate")}
    bey = {str(e) for e, _ in ends.get("beyond", [])}
    ls = {str(ends.get("plate", {}).get("L")), str(ends.get("plate", {}).get("L_series", ends.get("plate", {}).get("L")))}
    if len(far) == 1 and len(at0) == 1 and bey <= far and len(ls) == 1 and "half space" in ends and "plate" in ends:
        rep.ok(rule, "both reference models run from %s to %s; beyond the plate's base %s; one plate thickness %s" % (at0.pop(), far.pop(), sorted(bey), ls.pop()), F.loc, F.qn)
    else:
        rep.violation(rule, "end members: at the coldest surface %s, far %s, beyond the base %s, thickness %s" % (sorted(at0), sorted(far), sorted(bey), sorted(ls)), F.loc, F.qn, "",
                      "the reference models disagree on the minimum / ambient temperature or on the plate thickness", key=rule + "|ends",
                      witness="the same slab with reference model plate and half space")
    rep.floor(rule, n, 4, "assignments on the lower side")


def _plate_thickness(E, X):
    """the L of x/L: the positive symbol dividing x in E"""
    for n in sp.preorder_traversal(E):
        if n.is_Mul and n.has(X):
            num, den = n.as_numer_denom()
            if den.is_Symbol and num.has(X):
                return den
            for f in den.as_ordered_factors() if den.is_Mul else []:
                pass
    for n in sp.preorder_traversal(E):
        if n.is_Pow and n.exp == -1 and n.base.is_Symbol:
            if any(m.is_Mul and m.has(X) and m.has(n) for m in sp.preorder_traversal(E)):
                return n.base
    return None


def analytic_profile_guard(P, rep, rule="EXPR.massconserving.guard"):
    """C20, mass-conserving slab: when the analytic profile is used at all"""
    rep.rule(rule, "MassConserving::get_temperature evaluates the analytic profile (which runs from its minimum temperature to its ambient "
                   "temperature) only under `minimum < ambient` of exactly the two values it hands to get_temperature_analytic; otherwise the "
                   "incoming temperature is kept - a profile with the end members the wrong way round lies above max(ambient, adiabat)")
    A = P.func("WorldBuilder::Features::SubductingPlateModels::Temperature::MassConserving::get_temperature_analytic")
    G = P.func("WorldBuilder::Features::SubductingPlateModels::Temperature::MassConserving::get_temperature")
    # roles of the callee's parameters by name of the parameter in its own definition is avoided: minimum = the parameter the lower side
    # takes at x = 0, ambient = the one it tends to (decided by EXPR.massconserving.bottom); here they are located by those two facts
    symb = norm.Sym(P, A, inline_locals=False, inline_consts=True)
    tmin_i = amb_i = None
    for a in A.walk():
        if a.get("k") == "BinaryOperator" and a.get("op") == "=" and any(
                y.get("k") == "CallExpr" and P.d(y.get("callee")).get("qn") in ("std::erfc", "erfc") for y in A.walk(a["c"][1])):
            try:
                E = symb(a["c"][1])
            except Exception:
                continue
            pos = {q: sp.Symbol("p_" + str(q).replace("@", "_").replace(".", "_"), positive=True) for q in E.free_symbols}
            back = {v: k_ for k_, v in pos.items()}
            Ep = E.xreplace(pos)
            xs = [q for q in E.free_symbols if any(n_.func in (sp.erfc,) and n_.has(q) for n_ in sp.preorder_traversal(E))]
            for q in xs:
                k_ = symb.keys.get(q)
                if k_ in A.params:
                    try:
                        v0 = sp.simplify(Ep.subs(pos[q], 0))
                        vinf = sp.limit(Ep, pos[q], sp.oo)
                    except Exception:
                        continue
                    v0, vinf = back.get(v0), back.get(vinf)
                    if v0 is not None and vinf is not None and v0 != vinf and symb.keys.get(v0) in A.params and symb.keys.get(vinf) in A.params:
                        tmin_i, amb_i = A.params.index(symb.keys[v0]), A.params.index(symb.keys[vinf])
    if tmin_i is None:
        raise AnalysisBroken("%s: minimum / ambient parameters not identified" % A.qn)
    calls = [c for c in G.walk() if c.get("k") == "CXXMemberCallExpr" and c.get("callee") == A.key]
    if not calls:
        raise AnalysisBroken("%s: no call of get_temperature_analytic" % G.qn)
    n = 0
    R = lambda e: norm.render(P, e, nocast=True).replace(" ", "")
    for c in calls:
        args = c["c"][1:]
        tmin_a, amb_a = R(args[tmin_i]), R(args[amb_i])
        n += 1
        guard = None
        for a in G.ancestors(c):
            if a.get("k") == "IfStmt" and any(y is c for y in G.walk(a["c"][1])):
                cnd = sc(a["c"][0])
                if cnd.get("k") == "BinaryOperator" and cnd.get("op") in ("<", "<=", ">", ">="):
                    l_, r_ = R(cnd["c"][0]), R(cnd["c"][1])
                    if {l_.strip("()"), r_.strip("()")} & {tmin_a, amb_a} or tmin_a in l_ + r_ or amb_a in l_ + r_:
                        guard = (a, cnd, l_.strip("()"), r_.strip("()"))
                        break
        if guard is None:
            rep.violation(rule, "get_temperature_analytic(%s, %s) is not guarded by a comparison of its end members" % (tmin_a, amb_a), G.nloc(c), G.qn,
                          norm.render(P, c)[:120], "with the minimum above the ambient temperature the profile lies above its warm end member",
                          key=rule + "|missing", witness="a young, slow slab deep in its tip taper")
            continue
        a, cnd, l_, r_ = guard
        ok = (cnd["op"] in ("<", "<=") and l_ == tmin_a and r_ == amb_a) or (cnd["op"] in (">", ">=") and l_ == amb_a and r_ == tmin_a)
        # the value tested must be the value handed over: a write of either end member inside the guarded region (between the
        # test and the call) makes the guard speak about a different number than the profile receives
        stale = None
        if ok:
            names = set()
            for arg in (args[tmin_i], args[amb_i]):
                for y in G.walk(arg):
                    if y.get("k") == "DeclRefExpr" and P.d(y["r"]).get("storage") in ("local", "param"):
                        names.add(y["r"])
            for w in G.walk(a["c"][1]):
                tgt = None
                if w.get("k") in ("BinaryOperator", "CompoundAssignOperator") and w.get("op") in norm.ASSIGN_OPS and w.get("c"):
                    tgt = w["c"][0]
                elif w.get("k") == "UnaryOperator" and w.get("op") in ("++", "--") and w.get("c"):
                    tgt = w["c"][0]
                if tgt is not None and any(y.get("k") == "DeclRefExpr" and y.get("r") in names for y in G.walk(tgt)):
                    stale = w
                    break
        if stale is not None:
            rep.violation(rule, "`%s` inside the region guarded by `%s`" % (norm.render(P, stale)[:80], norm.render(P, cnd)[:60]), G.nloc(stale), G.qn,
                          norm.render(P, stale)[:120], "the guard compared the end members before this write, the profile receives them after it: "
                          "`minimum < ambient` is no longer known for the values handed to get_temperature_analytic",
                          key=rule + "|stale", witness="a young, slow slab whose minimum temperature lies just below the adiabat at the tested depth")
        elif ok:
            rep.ok(rule, "analytic profile under `%s`, the end members it is called with" % norm.render(P, cnd)[:60], G.nloc(a), G.qn)
        else:
            rep.violation(rule, "the analytic profile of (%s, %s) is used under `%s`" % (tmin_a, amb_a, norm.render(P, cnd)[:80]), G.nloc(a), G.qn,
                          norm.render(P, cnd)[:120], "the condition is not `minimum < ambient` of the values handed to the profile: for some inputs the "
                          "profile is evaluated with its end members the wrong way round and exceeds max(ambient, adiabat)",
                          key=rule + "|guard", witness="adiabatic heating on, a young slow slab, points deep in the tip taper")
    rep.floor(rule, n, 1, "calls of the analytic profile")
