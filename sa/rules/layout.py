"""LAYOUT — agreement of the flat result-vector layouts (DESIGN §3.2) and XDEP (§3.3)."""
import sympy as sp

from .. import astq, norm
from ..astq import sc
from ..tu import AnalysisBroken

NG = sp.Symbol("n_grains", integer=True, nonnegative=True)    # property[2]
CN = sp.Symbol("composition_number", integer=True, nonnegative=True)  # property[1]
KINDS = {1: "temperature", 2: "composition", 3: "grains", 4: "tag", 5: "velocity"}
# the documented widths (include/world_builder/world.h: temperature 1, composition 1, grains 10 per grain,
# tag 1, velocity 3) -- used only to print; the rule compares the code's tables with each other
DOC_WIDTH = {1: sp.Integer(1), 2: sp.Integer(1), 3: 10 * NG, 4: sp.Integer(1), 5: sp.Integer(3)}


def prop_hook(P):
    """abstract `property[k]` / `properties[i][k]` (std::array<unsigned,3> element) to a symbol"""
    def hook(n):
        s = astq.subscript(n)
        if s is None:
            return None
        base, idx = s
        bt = sc(base).get("t", "") if sc(base) else ""
        i = sc(idx)
        if "array<unsigned int, 3>" in bt.replace("std::", "") and "vector" not in bt and i.get("k") == "IntegerLiteral":
            return {0: sp.Symbol("kind"), 1: CN, 2: NG}.get(i["v"])
        return None
    return hook


def _is_kind_expr(P, F, e):
    """`request[0]` of an array<unsigned int, 3>, directly or through a const local initialised with it"""
    e = sc(e)
    if e is not None and e.get("k") == "DeclRefExpr":
        for v in F.walk():
            if v.get("k") == "VarDecl" and v.get("r") == e["r"] and v.get("c") and "const" in (v.get("t") or ""):
                e = sc(v["c"][0])
                break
    s = astq.subscript(e) if e is not None else None
    return bool(s and sc(s[1]).get("k") == "IntegerLiteral" and sc(s[1])["v"] == 0 and "array<unsigned int, 3>" in sc(s[0]).get("t", "").replace("std::", ""))


def _kind_values(P, F, c):
    """the kind literals of a condition `kind == a || kind == b ...`, else None"""
    c = sc(c)
    if c.get("k") == "BinaryOperator" and c.get("op") == "||":
        l, r = _kind_values(P, F, c["c"][0]), _kind_values(P, F, c["c"][1])
        return None if l is None or r is None else l + r
    if c.get("k") == "BinaryOperator" and c.get("op") == "==":
        a, b = sc(c["c"][0]), sc(c["c"][1])
        if b.get("k") != "IntegerLiteral":
            a, b = b, a
        if b.get("k") == "IntegerLiteral" and _is_kind_expr(P, F, a):
            return [b["v"]]
    return None


def find_switch_on_kind(P, F):
    out = []
    for n in F.walk():
        if n.get("k") == "SwitchStmt":
            c = sc(n["c"][0])
            if _is_kind_expr(P, F, c):
                out.append(n)
    if out:
        return out
    # the same dispatch written as an if / else-if chain on the kind: presented as a switch (the head `if` with a case table)
    for n in F.walk():
        if n.get("k") != "IfStmt" or _kind_values(P, F, n["c"][0]) is None:
            continue
        par = F.parent.get(n["i"])
        if par is not None and par.get("k") == "IfStmt" and len(par["c"]) > 2 and par["c"][2] is n:
            continue        # not the head of the chain
        table = {}
        cur = n
        okc = True
        while cur is not None and cur.get("k") == "IfStmt":
            vals = _kind_values(P, F, cur["c"][0])
            if vals is None:
                okc = False
                break
            body = cur["c"][1]
            stmts = [x for x in (body["c"] if body.get("k") == "CompoundStmt" else [body]) if x is not None]
            for v in vals:
                table[v] = stmts
            nxt = cur["c"][2] if len(cur["c"]) > 2 else None
            if nxt is not None and nxt.get("k") != "IfStmt":
                table["default"] = [x for x in (nxt["c"] if nxt.get("k") == "CompoundStmt" else [nxt]) if x is not None]
                nxt = None
            cur = nxt
        if okc and len(table) >= 3:
            syn = dict(n)
            syn["ifchain"] = table
            out.append(syn)
    return out


def accumulate(P, F, stmts, acc_key, sym):
    """sum of `acc += X` / `acc = acc + X` over a straight-line list of statements; None on other writes"""
    total = sp.Integer(0)
    for s in stmts:
        for n in F.walk(s):
            k = n.get("k")
            if k == "CompoundAssignOperator" and astq.is_ref_to(n["c"][0], acc_key):
                if n["op"] == "+=":
                    total += sym(n["c"][1])
                else:
                    return None
            elif k == "BinaryOperator" and n.get("op") == "=" and astq.is_ref_to(n["c"][0], acc_key):
                return None
            elif k == "UnaryOperator" and n.get("op") in ("++", "--") and astq.is_ref_to(n["c"][0], acc_key):
                total += 1 if n["op"] == "++" else -1
    return sp.expand(total)


def count_appends(P, F, stmts, out_key, sym, on_append=None):
    """set of symbolic totals of elements appended to vector `out_key` along the paths through `stmts`
    (if/else explored; loops are not expected).  on_append(node, total_before) is called per append."""
    class Done(object):
        """a total of a path that has left the statement list (break / return): later statements do not add to it"""
        __slots__ = ("v",)

        def __init__(self, v):
            self.v = v

        def __hash__(self):
            return hash(("done", self.v))

        def __eq__(self, o):
            return isinstance(o, Done) and o.v == self.v

    def seq(stmts, totals):
        for s in stmts:
            live = {t for t in totals if not isinstance(t, Done)}
            if not live:
                break
            totals = {t for t in totals if isinstance(t, Done)} | one(s, live)
        return totals

    def one(s, totals):
        if s is None:
            return totals
        k = s.get("k")
        if k == "CompoundStmt":
            return seq(s["c"], totals)
        if k == "IfStmt":
            t = one(s["c"][1], set(totals))
            e = one(s["c"][2], set(totals)) if s["c"][2] is not None else set(totals)
            return t | e
        if k == "BreakStmt":
            return {Done(t) for t in totals}
        if k in astq.LOOPS:
            inner = one(s["c"][-1], {sp.Integer(0)})
            if inner != {sp.Integer(0)}:
                raise AnalysisBroken("append to the output vector inside a loop at %s" % F.nloc(s))
            return totals
        if k == "ReturnStmt":
            return totals
        add = sp.Integer(0)
        for n in F.walk(s):
            mc = astq.member_call(P, n)
            if mc is None:
                continue
            recv, name, args = mc
            if not astq.is_ref_to(recv, out_key):
                continue
            if name in ("emplace_back", "push_back"):
                if on_append:
                    on_append(n, totals, add, args)
                add += 1
            elif name == "insert":
                # insert(end(), first, last) with first/last = X.begin()/X.end(): + size(X)
                if len(args) == 3:
                    b = astq.member_call(P, args[1], "begin")
                    e = astq.member_call(P, args[2], "end")
                    pos = astq.member_call(P, args[0], "end")
                    if b and e and pos and astq.is_ref_to(pos[0], out_key) and sc(b[0]).get("r") == sc(e[0]).get("r"):
                        src = sc(b[0])
                        size = vector_size(P, F, src, sym)
                        if size is None:
                            raise AnalysisBroken("size of inserted range unknown at %s" % F.nloc(n))
                        if on_append:
                            on_append(n, totals, add, args)
                        add += size
                        continue
                    # insert(end(), count, value): the fill form
                    if pos and astq.is_ref_to(pos[0], out_key) and not b and any(t_ in (sc(args[1]).get("t") or "") for t_ in ("int", "long", "size_t")):
                        if on_append:
                            on_append(n, totals, add, args)
                        add += sym(args[1])
                        continue
                raise AnalysisBroken("unrecognised insert into the output vector at %s" % F.nloc(n))
            elif name in ("resize", "clear", "erase", "pop_back", "assign", "reserve"):
                if name != "reserve":
                    raise AnalysisBroken("output vector modified by %s at %s" % (name, F.nloc(n)))
        return {sp.expand(t + add) for t in totals}

    return {(t.v if isinstance(t, Done) else t) for t in seq(stmts, {sp.Integer(0)})}


def vector_size(P, F, ref, sym):
    """size of a local vector constructed as `std::vector<T> v(N, x)`"""
    if ref.get("k") != "DeclRefExpr":
        return None
    for n in F.walk():
        if n.get("k") == "VarDecl" and n.get("r") == ref["r"] and n.get("c"):
            init = n["c"][0]
            if init.get("k") in ("CXXConstructExpr", "CXXTemporaryObjectExpr") and len(init.get("c", [])) >= 2 and "vector" in init.get("t", ""):
                return sp.expand(sym(init["c"][0]))
    return None


# ------------------------------------------------------------------------------------------------
def width_tables(P, rep, rule="LAYOUT.L1"):
    """the three width tables of the library"""
    rep.rule(rule, "properties_output_size, the 3D fill loop and the 2D wrapper's counter give every property kind the "
                   "same width as polynomials in the request (1, 1, 10*n_grains, 1, 3)")
    tables = {}
    hook = prop_hook(P)
    # T1
    F = P.func("WorldBuilder::World::properties_output_size")
    sws = find_switch_on_kind(P, F)
    if len(sws) != 1:
        raise AnalysisBroken("properties_output_size: %d switches on the property kind" % len(sws))
    acc = None
    for n in F.walk():
        if n.get("k") == "ReturnStmt" and n.get("c"):
            r = sc(n["c"][0])
            if r.get("k") == "DeclRefExpr":
                acc = r["r"]
    if acc is None:
        raise AnalysisBroken("properties_output_size does not return an accumulator variable")
    sym = norm.Sym(P, F, hook=hook)
    t1 = {}
    for kind, stmts in astq.switch_cases(sws[0]).items():
        if kind == "default":
            continue
        w = accumulate(P, F, stmts, acc, sym)
        if w is None:
            raise AnalysisBroken("properties_output_size case %s: accumulator written other than by +=" % kind)
        t1[kind] = w
    tables["properties_output_size"] = (F, sws[0], t1)
    # T2
    F3 = P.func("WorldBuilder::World::properties", ptypes=["array<double, 3>"])
    sws = find_switch_on_kind(P, F3)
    if len(sws) != 1:
        raise AnalysisBroken("World::properties(3D): %d switches on the property kind" % len(sws))
    outv = entryv = None
    for n in F3.walk():
        if n.get("k") == "VarDecl" and n.get("n") == "output":
            pass
    # the output vector is the local returned at the end; entry_in_output is the local size_t vector
    rets = [sc(n["c"][0]) for n in F3.walk() if n.get("k") == "ReturnStmt" and n.get("c")]
    keys = {r.get("r") for r in rets if r.get("k") == "DeclRefExpr"}
    if len(keys) != 1:
        raise AnalysisBroken("World::properties(3D) returns %d different objects" % len(keys))
    outv = keys.pop()
    sym3 = norm.Sym(P, F3, hook=hook)
    t2 = {}
    for kind, stmts in astq.switch_cases(sws[0]).items():
        if kind == "default":
            continue
        totals = count_appends(P, F3, stmts, outv, sym3)
        if len(totals) != 1:
            rep.violation(rule, "3D fill loop, %s: paths append different numbers of values %s" % (KINDS.get(kind, kind), sorted(map(str, totals))),
                          F3.nloc(stmts[0]) if stmts else F3.loc, F3.qn, "case %s" % kind,
                          "the block width depends on the path", key="%s|fill-paths|%s" % (rule, kind))
            continue
        t2[kind] = totals.pop()
    tables["3D fill loop"] = (F3, sws[0], t2)
    # T3
    F2 = P.func("WorldBuilder::World::properties", ptypes=["array<double, 2>"])
    sws = find_switch_on_kind(P, F2)
    if len(sws) != 1:
        raise AnalysisBroken("World::properties(2D): %d switches on the property kind" % len(sws))
    # the counter: the variable updated by += in the cases
    cands = set()
    for n in F2.walk(sws[0]):
        if n.get("k") == "CompoundAssignOperator" and n.get("op") == "+=" and sc(n["c"][0]).get("k") == "DeclRefExpr":
            cands.add(sc(n["c"][0])["r"])
    if len(cands) != 1:
        raise AnalysisBroken("World::properties(2D): %d counter candidates" % len(cands))
    counter = cands.pop()
    sym2 = norm.Sym(P, F2, hook=hook)
    t3 = {}
    for kind, stmts in astq.switch_cases(sws[0]).items():
        if kind == "default":
            continue
        w = accumulate(P, F2, stmts, counter, sym2)
        if w is None:
            raise AnalysisBroken("2D wrapper case %s: counter written other than by +=" % kind)
        t3[kind] = w
    tables["2D wrapper counter"] = (F2, sws[0], t3)

    # compare
    names = list(tables)
    ref_name = names[0]
    ref = tables[ref_name][2]
    kinds = set()
    for nme in names:
        kinds |= set(tables[nme][2])
    for kind in sorted(kinds, key=str):
        vals = {nme: tables[nme][2].get(kind) for nme in names}
        missing = [nme for nme, v in vals.items() if v is None]
        if missing:
            F, sw, _ = tables[missing[0]]
            rep.violation(rule, "kind %s has no case in %s" % (KINDS.get(kind, kind), missing[0]), F.nloc(sw), F.qn, "switch",
                          "a property kind one table knows is unknown to another", key="%s|missing|%s|%s" % (rule, kind, missing[0]))
            continue
        base = vals[ref_name]
        for nme in names[1:]:
            if sp.expand(vals[nme] - base) != 0:
                # which one deviates from the majority?
                others = [v for k2, v in vals.items() if k2 != nme]
                dev = nme if all(sp.expand(o - others[0]) == 0 for o in others) else ref_name
                F, sw, _ = tables[dev]
                w = smallest_witness(vals[dev], [v for k2, v in vals.items() if k2 != dev][0])
                rep.violation(rule, "width of %s: %s says %s, the others say %s" % (
                    KINDS.get(kind, kind), dev, vals[dev], [str(v) for k2, v in vals.items() if k2 != dev][0]),
                    F.nloc(sw), F.qn, "case %s" % kind, "the layouts of producer and walker disagree",
                    key="%s|width|%s|%s" % (rule, kind, dev), witness=w)
                break
        else:
            rep.ok(rule, "width(%s) = %s in %d tables" % (KINDS.get(kind, kind), base, len(names)), tables[ref_name][0].loc,
                   "", "; ".join(names))
    return tables, outv, counter


def smallest_witness(a, b):
    for n in range(0, 5):
        if sp.expand(a - b).subs(NG, n) != 0:
            return "request with n_grains = %d followed by another property (widths %s vs %s)" % (n, a.subs(NG, n), b.subs(NG, n))
    return ""


# ------------------------------------------------------------------------------------------------
def fill_loop(P, rep, outv, rule="LAYOUT.L2"):
    """entry_in_output[i] = size of output before slot i is appended; slots in request order"""
    rep.rule(rule, "in the 3D evaluator every case records output.size() in entry_in_output exactly once before it "
                   "appends its block, forwards the request element unchanged to properties_local, and the loop walks "
                   "the request forwards, once")
    F = P.func("WorldBuilder::World::properties", ptypes=["array<double, 3>"])
    sw = find_switch_on_kind(P, F)[0]
    loop = astq.enclosing(F, sw, astq.LOOPS)
    if loop is None or loop["k"] not in ("ForStmt", "CXXForRangeStmt"):
        rep.unknown(rule, "fill switch is not inside a for loop")
        return
    prop_param = F.params[2]
    lam = astq.local_lambda_calls(P, F, loop)
    if lam:
        rep.unknown(rule, "the fill loop does part of its bookkeeping through the local lambda `%s`; this rule reads the statements of the loop body only" % lam[0][1])
        return
    if loop["k"] == "CXXForRangeStmt":
        # `for (const auto &property : properties)`: visits the request forwards, once, by construction
        ok_loop, ivar, bound = True, None, None
        elem_key = loop["c"][0]["r"]
        is_elem = lambda nd: astq.is_ref_to(nd, elem_key)
        if astq.is_ref_to(loop["c"][1], prop_param):
            rep.ok(rule, "fill loop walks the request forwards (range-for)", F.nloc(loop), F.qn)
        else:
            rep.violation(rule, "fill loop ranges over %s, not over the request" % norm.render(P, loop["c"][1]), F.nloc(loop), F.qn,
                          norm.render(P, loop["c"][1]), "not every requested property gets a block", key=rule + "|loop-bound")
    else:
        ok_loop, ivar, bound = forward_loop(P, F, loop)

        def is_elem(nd):
            s_ = astq.subscript(nd)
            return bool(s_ and astq.is_ref_to(s_[0], prop_param) and astq.is_ref_to(s_[1], ivar))
    if loop["k"] == "CXXForRangeStmt":
        pass
    elif not ok_loop:
        rep.violation(rule, "fill loop is not `for (i = 0; i < properties.size(); ++i)`", F.nloc(loop), F.qn,
                      norm.render(P, loop["c"][1]), "slots are not laid out in request order",
                      key=rule + "|loop-shape", witness="request with two different kinds")
    else:
        bm = astq.member_call(P, bound, "size")
        if not (bm and astq.is_ref_to(bm[0], prop_param)):
            rep.violation(rule, "fill loop bound is %s, not properties.size()" % norm.render(P, bound), F.nloc(loop), F.qn,
                          norm.render(P, bound), "not every requested property gets a block", key=rule + "|loop-bound")
        else:
            rep.ok(rule, "fill loop walks the request forwards", F.nloc(loop), F.qn)
    # the switch is on properties[ivar][0]
    s = astq.subscript(sc(sw["c"][0]))
    if not (s and is_elem(s[0])):
        rep.violation(rule, "fill switch is on %s, not on properties[i][0]" % norm.render(P, sw["c"][0]), F.nloc(sw), F.qn,
                      norm.render(P, sw["c"][0]), "block kind does not follow the request", key=rule + "|switch-subject")
    entry_keys = set()
    local_keys = set()
    for kind, stmts in astq.switch_cases(sw).items():
        if kind == "default":
            continue
        problems = []

        def on_append(n, totals, add, args):
            pass
        # order of events along each path: entries recorded (with output.size()), appends
        def paths(stmts):
            """list of event lists"""
            res = [[]]
            for s in stmts:
                res = ext(s, res)
            return res

        def ext(s, res):
            if s is None:
                return res
            k = s.get("k")
            if k == "CompoundStmt":
                for c in s["c"]:
                    res = ext(c, res)
                return res
            if k == "IfStmt":
                t = ext(s["c"][1], [list(r) for r in res])
                e = ext(s["c"][2], [list(r) for r in res]) if s["c"][2] is not None else [list(r) for r in res]
                return t + e
            if k == "ReturnStmt":
                return [r + [("return", s)] for r in res]
            ev = []
            for n in F.walk(s):
                mc = astq.member_call(P, n)
                if mc is None:
                    continue
                recv, name, args = mc
                r0 = sc(recv) if recv is not None else {}
                if name in ("emplace_back", "push_back", "insert") and r0.get("k") == "DeclRefExpr":
                    if r0["r"] == outv:
                        ev.append(("append", n))
                    else:
                        t = r0.get("t", "")
                        if "unsigned long" in t and "array" not in t:
                            ev.append(("entry", n, args))
                            entry_keys.add(r0["r"])
                        elif "array<unsigned int, 3>" in t.replace("std::", ""):
                            ev.append(("local", n, args))
                            local_keys.add(r0["r"])
            # events inside one statement: source order
            ev.sort(key=lambda e: e[1].get("i", 0))
            return [r + ev for r in res]

        for path in paths(stmts):
            kinds_seq = [e[0] for e in path]
            n_entry = kinds_seq.count("entry")
            n_local = kinds_seq.count("local")
            if n_entry != n_local and "return" not in kinds_seq:
                problems.append("entry_in_output gets %d and properties_local %d elements on a path (the two lists are "
                                "indexed together by the features)" % (n_entry, n_local))
                continue
            if n_entry == 0 and n_local == 0:
                # a slot that is not handed to the features: only the forced surface temperature
                apps = [e for e in path if e[0] == "append"]
                vals = [astq.member_call(P, e[1])[2] for e in apps]
                if len(apps) == 1 and vals[0] and astq.is_this_field(P, vals[0][0], "surface_temperature") and kind == 1:
                    continue
                problems.append("the block is appended but never offered to the features")
                continue
            if n_entry != 1:
                problems.append("entry_in_output receives %d values on a path" % n_entry)
                continue
            ie = kinds_seq.index("entry")
            if "append" in kinds_seq[:ie]:
                problems.append("a value is appended before the slot offset is recorded")
            e = path[ie]
            a = e[2][0] if e[2] else None
            am = astq.member_call(P, a, "size") if a is not None else None
            if not (am and astq.is_ref_to(am[0], outv)):
                problems.append("recorded offset is %s, not output.size()" % norm.render(P, a))
            early_return = "return" in kinds_seq
            if not early_return and n_local != 1:
                problems.append("properties_local receives %d elements" % n_local)
            for ev in path:
                if ev[0] == "local":
                    a = ev[2][0] if ev[2] else None
                    if not (a is not None and is_elem(a)):
                        problems.append("properties_local gets %s, not properties[i]" % norm.render(P, a))
        if problems:
            rep.violation(rule, "3D fill loop, %s: %s" % (KINDS.get(kind, kind), "; ".join(sorted(set(problems)))),
                          F.nloc(stmts[0]) if stmts else F.loc, F.qn, "case %s" % kind,
                          "features would write the block at a wrong offset", key="%s|case|%s" % (rule, kind),
                          witness="request in which %s is not the first property" % KINDS.get(kind, kind))
        else:
            rep.ok(rule, "case %s records output.size() before appending; forwards properties[i]" % KINDS.get(kind, kind),
                   F.nloc(stmts[0]) if stmts else F.loc, F.qn)
    # any direct element access to the result vector in the evaluator itself must go through a recorded slot offset
    for n in F.walk():
        s = astq.subscript(n)
        if s and astq.is_ref_to(s[0], outv):
            idx = norm.render(P, s[1])
            via_entry = any(x.get("k") == "DeclRefExpr" and x.get("r") in entry_keys for x in F.walk(s[1]))
            if via_entry:
                rep.ok(rule, "evaluator accesses output[%s] through a recorded slot offset" % idx, F.nloc(n), F.qn)
            else:
                rep.violation(rule, "the evaluator accesses output[%s]: indexed by %s, not by a recorded slot offset" % (idx, idx), F.nloc(n), F.qn,
                              norm.render(P, F.parent.get(n["i"]) or n)[:120], "position in the request is not position in the result (grains and velocity are wider than 1)",
                              key="%s|direct-index|%s" % (rule, idx), witness="request in which a velocity or grains property precedes this one")
    return entry_keys, local_keys


def forward_loop(P, F, loop):
    """(is `for (T i = 0; i < B; ++i)`, induction var key, bound expr)"""
    init, cond, inc, body = loop["c"]
    if not (init and init.get("k") == "DeclStmt" and len(init["c"]) == 1 and init["c"][0].get("c")):
        return False, None, None
    iv = init["c"][0]["r"]
    i0 = sc(init["c"][0]["c"][0])
    ok = i0.get("k") == "IntegerLiteral" and i0["v"] == 0
    c = sc(cond) if cond else None
    bound = None
    if c is not None and c.get("k") == "BinaryOperator" and c.get("op") == "<" and astq.is_ref_to(c["c"][0], iv):
        bound = c["c"][1]
    elif c is not None and c.get("k") == "BinaryOperator" and c.get("op") == "!=" and astq.is_ref_to(c["c"][0], iv):
        bound = c["c"][1]
    else:
        ok = False
    i = sc(inc) if inc else None
    if not (i is not None and i.get("k") == "UnaryOperator" and i.get("op") == "++" and astq.is_ref_to(i["c"][0], iv)):
        ok = False
    # induction variable not written in the body
    for n in F.walk(body):
        if n.get("k") in ("BinaryOperator", "CompoundAssignOperator", "UnaryOperator") and n.get("op") in norm.ASSIGN_OPS + ("++", "--"):
            if astq.is_ref_to(n["c"][0], iv):
                ok = False
    return ok, iv, bound


# ------------------------------------------------------------------------------------------------
FEATURES = ["ContinentalPlate", "OceanicPlate", "MantleLayer", "Plume", "SubductingPlate", "Fault"]


def feature_properties(P):
    out = []
    for f in FEATURES:
        out.append(P.func("WorldBuilder::Features::%s::properties" % f))
    return out


def feature_slots(P, rep, widths, rule="LAYOUT.L3"):
    """every access to `output` in a feature is output[entry_in_output[i] + k], 0 <= k < width(kind of the case)"""
    rep.rule(rule, "a feature touches the result vector only at entry_in_output[i_property] + k with 0 <= k < width of "
                   "the kind handled by the enclosing case; grains are (un)packed at entry_in_output[i_property] with "
                   "properties[i_property][2] grains; grains ctor and unroll_into cover exactly [start, start+10n)")
    hook = prop_hook(P)
    n_sites = 0
    for F in feature_properties(P):
        # parameters: (cart, natural, depth, properties, gravity, entry_in_output, output)
        if len(F.params) != 7:
            raise AnalysisBroken("%s has %d parameters" % (F.qn, len(F.params)))
        props_k, entry_k, out_k = F.params[3], F.params[5], F.params[6]
        sws = find_switch_on_kind(P, F)
        if len(sws) != 1:
            raise AnalysisBroken("%s: %d switches on the property kind" % (F.qn, len(sws)))
        sw = sws[0]
        loop = astq.enclosing(F, sw, astq.LOOPS)
        okl, ivar, bound = forward_loop(P, F, loop) if loop and loop["k"] == "ForStmt" else (False, None, None)
        if not okl:
            rep.unknown(rule, "%s: property loop shape" % F.qn)
            continue
        cases = astq.switch_cases(sw)
        case_of = {}
        for kind, stmts in cases.items():
            for s in stmts:
                for n in F.walk(s):
                    case_of.setdefault(n["i"], set()).add(kind)
        sym = norm.Sym(P, F, hook=hook, inline_locals=True)
        E = sp.Symbol("ENTRY")

        def entry_hook(n):
            h = hook(n)
            if h is not None:
                return h
            s = astq.subscript(n)
            if s and astq.is_ref_to(s[0], entry_k):
                if astq.is_ref_to(s[1], ivar):
                    return E
                return sp.Symbol("ENTRY_OTHER")
            return None
        sym.hook = entry_hook
        for n in F.walk():
            # uses of the output parameter
            if not (n.get("k") == "DeclRefExpr" and n.get("r") == out_k):
                continue
            par = F.parent.get(n["i"])
            while par is not None and par.get("k") in norm.CASTS:
                par = F.parent.get(par["i"])
            n_sites += 1
            kinds = case_of.get(n["i"], set())
            s = astq.subscript(par)
            if s is not None and sc(s[0]) is n:
                idx = sp.expand(sym(s[1]))
                off = sp.expand(idx - E)
                if off.has(E) or off.has(sp.Symbol("ENTRY_OTHER")) or not idx.has(E):
                    rep.violation(rule, "%s: output[%s] is not addressed through entry_in_output[i_property]" % (F.qn, norm.render(P, s[1])),
                                  F.nloc(n), F.qn, norm.render(P, par), "a feature reads or writes another property's block",
                                  key="%s|%s|foreign|%s" % (rule, F.qn, norm.render(P, s[1])),
                                  witness="request with two properties")
                    continue
                if not kinds:
                    rep.violation(rule, "%s: output accessed outside the per-kind switch" % F.qn, F.nloc(n), F.qn, norm.render(P, par),
                                  "write not tied to a property kind", key="%s|%s|outside" % (rule, F.qn))
                    continue
                bad = False
                for kind in kinds:
                    w = widths.get(kind)
                    if w is None:
                        continue
                    if not (off.is_Integer and off >= 0 and (sp.expand(w - off - 1).subs(NG, 0) >= 0 if not w.has(NG) else True)):
                        bad = True
                    if off.is_Integer and not w.has(NG) and off >= w:
                        bad = True
                if bad:
                    rep.violation(rule, "%s: output[entry+%s] in case %s exceeds the block width" % (F.qn, off, sorted(kinds, key=str)),
                                  F.nloc(n), F.qn, norm.render(P, par), "a feature writes into the next property's block",
                                  key="%s|%s|offset|%s|%s" % (rule, F.qn, off, sorted(kinds, key=str)),
                                  witness="request in which this kind is followed by another property")
                else:
                    rep.ok(rule, "%s output[entry+%s] case %s" % (F.qn.split("::")[-2], off, sorted(kinds, key=str)), F.nloc(n), F.qn)
                continue
            # passed as an argument: grains ctor / unroll_into
            call = par
            if call is not None and call.get("k") in ("CXXConstructExpr", "CXXTemporaryObjectExpr") and "WorldBuilder::grains" in call.get("t", ""):
                a = call["c"]
                good = len(a) == 3 and sp.expand(sym(a[2]) - E) == 0 and sp.expand(sym(a[1]) - NG) == 0 and kinds == {3}
                if good:
                    rep.ok(rule, "%s grains(output, n_grains, entry)" % F.qn.split("::")[-2], F.nloc(n), F.qn)
                else:
                    rep.violation(rule, "%s: grains view constructed as %s" % (F.qn, norm.render(P, call)), F.nloc(n), F.qn, norm.render(P, call),
                                  "grains read from another block or with another count", key="%s|%s|grains-ctor" % (rule, F.qn))
                continue
            if call is not None and call.get("k") == "CXXMemberCallExpr" and call["c"][0].get("n") == "unroll_into":
                a = call["c"][1:]
                good = len(a) == 2 and sp.expand(sym(a[1]) - E) == 0 and kinds == {3}
                if good:
                    rep.ok(rule, "%s unroll_into(output, entry)" % F.qn.split("::")[-2], F.nloc(n), F.qn)
                else:
                    rep.violation(rule, "%s: grains unrolled as %s" % (F.qn, norm.render(P, call)), F.nloc(n), F.qn, norm.render(P, call),
                                  "grains written into another block", key="%s|%s|grains-unroll" % (rule, F.qn))
                continue
            rep.unknown(rule, "%s: output used in an unrecognised way at %s: %s" % (F.qn, F.nloc(n), norm.render(P, par)))
    rep.floor(rule, n_sites, 60, "uses of the output parameter in the 6 features")
    grains_layout(P, rep, rule)


def grains_layout(P, rep, rule):
    """grains::grains(vector, n, start) and grains::unroll_into(vector, start): the index sets are
    start+g (sizes) and start+n+9g+(3r+c) (matrix element [g][r][c]); together exactly [start, start+10n)"""
    ctor = None
    for f in P.funcs_named("WorldBuilder::grains::grains"):
        if len(f.params) == 3:
            ctor = f
    unroll = P.func("WorldBuilder::grains::unroll_into")
    if ctor is None:
        raise AnalysisBroken("grains(vector, n, start) constructor not found")
    maps = {}
    for F, vec_k, start_k, n_sym_src in ((ctor, ctor.params[0], ctor.params[2], ctor.params[1]), (unroll, unroll.params[0], unroll.params[1], None)):
        sym = norm.Sym(P, F, inline_locals=False)
        S = sp.Symbol("START")
        N = sp.Symbol("N")
        sym.env[start_k] = S
        if n_sym_src is not None:
            sym.env[n_sym_src] = N
        else:
            # const size_t number_of_grains = sizes.size();
            for n in F.walk():
                if n.get("k") == "VarDecl" and n.get("c"):
                    mc = astq.member_call(P, n["c"][0], "size")
                    if mc and astq.is_this_field(P, mc[0], "sizes"):
                        sym.env[n["r"]] = N
        table = {}   # (kind, r, c) -> offset polynomial in (N, G)
        G = sp.Symbol("G")
        for n in F.walk():
            if n.get("k") != "BinaryOperator" or n.get("op") != "=":
                continue
            lhs, rhs = n["c"]
            # one side is vector[...], the other sizes[g] or rotation_matrices[g][r][c]
            for vec_side, mem_side in ((lhs, rhs), (rhs, lhs)):
                s = astq.subscript(vec_side)
                if not (s and astq.is_ref_to(s[0], vec_k)):
                    continue
                loop = astq.enclosing(F, n, ("ForStmt",))
                okl, iv, bound = forward_loop(P, F, loop) if loop else (False, None, None)
                if not okl:
                    rep.unknown(rule, "%s: element copy outside a forward loop" % F.qn)
                    continue
                sym.env[iv] = G
                b = sp.expand(sym(bound))
                if sp.expand(b - N) != 0:
                    rep.violation(rule, "%s: grain loop bound is %s, not the number of grains" % (F.qn, norm.render(P, bound)), F.nloc(loop), F.qn,
                                  norm.render(P, bound), "not every grain is copied", key="%s|%s|loop-bound" % (rule, F.name))
                off = sp.expand(sym(s[1]) - S)
                # member side
                chain = []
                m = mem_side
                while True:
                    ss = astq.subscript(m)
                    if not ss:
                        break
                    chain.append(sp.expand(sym(ss[1])))
                    m = ss[0]
                chain = chain[::-1]
                m = sc(m)
                fld = m.get("n") if m.get("k") == "MemberExpr" else None
                if fld == "sizes" and len(chain) == 1 and chain[0] == G:
                    table[("size",)] = off
                elif fld == "rotation_matrices" and len(chain) == 3 and chain[0] == G and chain[1].is_Integer and chain[2].is_Integer:
                    table[("rot", int(chain[1]), int(chain[2]))] = off
                else:
                    rep.unknown(rule, "%s: unrecognised grains member access %s" % (F.qn, norm.render(P, mem_side)))
                del sym.env[iv]
        maps[F.name] = (F, table)
        G = sp.Symbol("G")
        N = sp.Symbol("N")
        expect = {("size",): G}
        for r in range(3):
            for c in range(3):
                expect[("rot", r, c)] = N + 9 * G + 3 * r + c
        bad = []
        for key, e in expect.items():
            got = table.get(key)
            if got is None:
                bad.append("%s not copied" % (key,))
            elif sp.expand(got - e) != 0:
                bad.append("%s at start+%s (expected start+%s)" % (key, got, e))
        if bad:
            rep.violation(rule, "%s: grain layout deviates: %s" % (F.qn, "; ".join(bad)), F.loc, F.qn, "", "grains are scrambled or overlap the next block",
                          key="%s|grains-map|%s" % (rule, F.name), witness="grains request with 2 grains; compare with the stand-alone grains query")
        else:
            rep.ok(rule, "%s maps sizes to start+g and R[g][r][c] to start+n+9g+3r+c (covers [start,start+10n))" % F.qn, F.loc, F.qn)


# ------------------------------------------------------------------------------------------------
def xdep(P, rep, funcs, rule="XDEP"):
    """the property list is used only through the loop bound and the current element"""
    rep.rule(rule, "in the evaluator and in every feature the request list is used only as the bound of the property "
                   "loop and through the element of the current loop index; no branch, return or value depends on the "
                   "length of the list or on another element")
    for F, prop_k in funcs:
        n_uses = 0
        loops = {}
        for n in F.walk():
            if n.get("k") == "ForStmt":
                okl, iv, bound = forward_loop(P, F, n)
                if okl and bound is not None:
                    bm = astq.member_call(P, bound, "size")
                    if bm and astq.is_ref_to(bm[0], prop_k):
                        for x in F.walk(bound):
                            loops[x["i"]] = iv
                        loops[("iv", n["i"])] = iv
        ivs = {v for k, v in loops.items() if isinstance(k, tuple)}
        for n in F.walk():
            if not (n.get("k") == "DeclRefExpr" and n.get("r") == prop_k):
                continue
            n_uses += 1
            if n["i"] in loops:
                continue   # the loop bound
            par = F.parent.get(n["i"])
            while par is not None and par.get("k") in norm.CASTS:
                par = F.parent.get(par["i"])
            s = astq.subscript(par)
            if s is not None and sc(s[0]) is n:
                if sc(s[1]).get("k") == "DeclRefExpr" and sc(s[1])["r"] in ivs:
                    continue
                rep.violation(rule, "%s reads properties[%s] (not the current element)" % (F.qn, norm.render(P, s[1])), F.nloc(n), F.qn,
                              norm.render(P, par), "a block depends on another element of the request",
                              key="%s|%s|other-element|%s" % (rule, F.qn, norm.render(P, s[1])),
                              witness="the same property requested alone and together with another one")
                continue
            # range-for over the list: allowed (element-wise); the range expression initialises the implicit __range variable
            if par is not None and par.get("k") == "CXXForRangeStmt":
                continue
            if par is not None and par.get("k") == "VarDecl" and (par.get("n") or "").startswith("__range") and astq.enclosing(F, par, ("CXXForRangeStmt",)) is not None:
                continue
            # passed on unchanged as a whole (2D -> 3D forwarding, feature call)
            if par is not None and par.get("k") in ("CXXMemberCallExpr", "CallExpr") and sc(par["c"][0]) is not n:
                callee = P.d(par.get("callee")).get("qn", "")
                if callee.endswith("::properties") or callee.endswith("properties_output_size"):
                    continue
            # captured by a local lambda: the uses inside its body are judged like uses here (current element only)
            if par is not None and par.get("k") == "LambdaExpr" and par.get("lam") in P.funcs and P.funcs[par["lam"]].body is not None:
                G = P.funcs[par["lam"]]
                inner_bad = None
                for m_ in G.walk(G.body):
                    if m_.get("k") == "DeclRefExpr" and m_.get("r") == prop_k:
                        pp = G.parent.get(m_["i"])
                        while pp is not None and pp.get("k") in norm.CASTS:
                            pp = G.parent.get(pp["i"])
                        s2 = astq.subscript(pp)
                        if not (s2 is not None and sc(s2[0]) is m_ and sc(s2[1]).get("k") == "DeclRefExpr" and sc(s2[1])["r"] in ivs):
                            inner_bad = (m_, pp)
                            break
                if inner_bad is None:
                    continue
                rep.violation(rule, "%s: a local lambda uses the request list other than through the current element: %s" % (F.qn, norm.render(P, inner_bad[1])[:80]),
                              F.nloc(n), F.qn, norm.render(P, inner_bad[1])[:120], "the answer depends on how the request is batched", key="%s|%s|lambda" % (rule, F.qn),
                              witness="the same property requested alone and together with another one")
                continue
            mc = None
            gp = F.parent.get(par["i"]) if par is not None else None
            if par is not None and par.get("k") == "MemberExpr":
                what = par.get("n")
                ctx = gp
                # where is the value used?
                use = describe_use(F, ctx)
                rep.violation(rule, "%s uses properties.%s() in %s" % (F.qn, what, use), F.nloc(n), F.qn,
                              norm.render(P, enclosing_stmt(F, n)), "the answer depends on how the request is batched",
                              key="%s|%s|container|%s" % (rule, F.qn, what),
                              witness="the same property requested alone and together with another one")
                continue
            rep.violation(rule, "%s uses the request list as a whole: %s" % (F.qn, norm.render(P, par)), F.nloc(n), F.qn,
                          norm.render(P, par), "the answer depends on how the request is batched",
                          key="%s|%s|whole" % (rule, F.qn))
        rep.ok(rule + ".fn", "%s: %d uses of the request list examined" % (F.qn, n_uses), F.loc, F.qn)


def upward_exposed(P, F, loop, body, key):
    """is there a path from the start of the loop body to a use of variable `key` that does not first pass a
    plain whole-variable assignment `key = e`?  (CFG walk; elements are in evaluation order)"""
    if not F.cfg:
        return True
    body_ids = {n["i"] for n in F.walk(body)}
    kill_lhs = set()    # DeclRefExpr ids that are the direct target of a plain assignment
    kills = {}          # assignment node id -> True
    for n in F.walk(body):
        k = n.get("k")
        if (k == "BinaryOperator" and n.get("op") == "=") or (k == "CXXOperatorCallExpr" and n.get("op") == "=" and n.get("memop")):
            t = norm.strip_casts(n["c"][0])
            if t is not None and t.get("k") == "DeclRefExpr" and t.get("r") == key:
                kill_lhs.add(t["i"])
                kills[n["i"]] = True
    uses = {n["i"] for n in F.walk(body) if n.get("k") == "DeclRefExpr" and n.get("r") == key and n["i"] not in kill_lhs}
    if not uses:
        return False
    blocks = F.blocks()
    first = None
    for st in astq.stmts_of(body):
        first = F.block_of(st)
        if first is not None:
            break
    if first is None:
        return True
    seen, work = set(), [first]
    while work:
        bid = work.pop()
        if bid in seen:
            continue
        seen.add(bid)
        blk = blocks[bid]
        elems = list(blk["s"]) + ([blk["t"]] if "t" in blk else [])
        if not any(e in body_ids for e in elems) and bid != first:
            continue     # left the body (loop increment / condition / after the loop)
        killed = False
        for e in blk["s"]:
            if e in uses:
                return True
            if e in kills:
                killed = True
                break
        if killed:
            continue
        # a terminator condition's sub-expressions are elements of the block already
        for sx in blk["succ"]:
            if sx is not None:
                work.append(sx)
    return False


def carried(P, rep, funcs, rule="XDEP.carried"):
    """nothing computed for one property of the request survives into the next one"""
    rep.rule(rule, "inside the loop over the request list a function writes only objects declared inside the loop body "
                   "(and the result vector): no local declared before the loop is assigned, incremented or mutated in "
                   "the body, so no value computed for one property can reach the block of the next")
    n_loops = 0
    for F, prop_k in funcs:
        for loop in F.walk():
            if loop.get("k") != "ForStmt":
                continue
            okl, iv, bound = forward_loop(P, F, loop)
            if not (okl and bound is not None):
                continue
            bm = astq.member_call(P, bound, "size")
            if not (bm and astq.is_ref_to(bm[0], prop_k)):
                continue
            n_loops += 1
            body = loop["c"][-1]
            inside = {n["i"] for n in F.walk(body) if n.get("k") in ("VarDecl", "DecompositionDecl", "BindingDecl")}
            inside_keys = {n.get("r", n.get("d")) for n in F.walk(body) if n.get("k") in ("VarDecl", "DecompositionDecl", "BindingDecl")}
            n_w = 0
            for n in F.walk(body):
                k = n.get("k")
                target = how = None
                if k in ("BinaryOperator", "CompoundAssignOperator") and n.get("op") in norm.ASSIGN_OPS:
                    target, how = n["c"][0], "assigned"
                elif k == "UnaryOperator" and n.get("op") in ("++", "--"):
                    target, how = n["c"][0], "incremented"
                elif k == "CXXOperatorCallExpr" and n.get("op") in norm.ASSIGN_OPS and n.get("memop"):
                    target, how = n["c"][0], "assigned"
                elif k == "CXXMemberCallExpr" and n.get("c") and n["c"][0].get("k") == "MemberExpr":
                    d = P.d(n.get("callee"))
                    if not d.get("const") and n["c"][0].get("c"):
                        target, how = n["c"][0]["c"][0], "mutated by %s()" % n["c"][0].get("n")
                if target is None:
                    continue
                b = target
                while True:
                    b = norm.strip_casts(b)
                    s2 = astq.subscript(b)
                    if s2 is not None:
                        b = s2[0]
                        continue
                    if b.get("k") == "MemberExpr" and not b.get("arrow") and b.get("c"):
                        b = b["c"][0]
                        continue
                    break
                if b.get("k") != "DeclRefExpr":
                    continue
                d = P.d(b["r"])
                if d.get("k") not in ("Var", "Decomposition", "Binding"):
                    continue
                if d.get("storage") in ("static", "static_local", "global"):
                    continue    # PURE decides these
                n_w += 1
                if b["r"] == iv or b["r"] in inside_keys:
                    continue
                if d.get("ref") or d.get("ptr"):
                    continue    # an alias: decided where the referee is resolved (LAYOUT.L3 / PURE)
                if not upward_exposed(P, F, loop, body, b["r"]):
                    continue    # re-assigned as a whole before any use in every iteration: a hoisted scratch variable
                rep.violation(rule, "%s: local '%s' declared before the property loop is %s inside it" % (F.qn, d.get("n"), how),
                              F.nloc(n), F.qn, norm.render(P, n), "the value left by one property's iteration is visible to the next: "
                              "a block depends on what else was requested and in what order",
                              key="%s|%s|%s" % (rule, F.qn, d.get("n")), witness="the same property requested twice, or after another one, in one call")
            rep.ok(rule, "%s: property loop at %s, %d local writes all to loop-body objects" % (F.qn, F.nloc(loop), n_w), F.nloc(loop), F.qn)
    rep.floor(rule, n_loops, len(funcs), "loops over the request list")


def no_early_exit(P, rep, funcs, rule="XDEP.exit"):
    """every property of the request is visited"""
    rep.rule(rule, "a loop over the request list is never left early: it contains no break that targets the loop itself (breaks of an "
                   "inner switch or inner loop are fine) and no goto; so what is done for one property does not decide whether the next "
                   "one is processed")
    n = 0
    for F, prop_k in funcs:
        for loop in F.walk():
            is_req = False
            if loop.get("k") == "ForStmt":
                okl, iv, bound = forward_loop(P, F, loop)
                bm = astq.member_call(P, bound, "size") if bound is not None else None
                is_req = bool(bm and astq.is_ref_to(bm[0], prop_k))
            elif loop.get("k") == "CXXForRangeStmt":
                is_req = astq.is_ref_to(loop["c"][1], prop_k)
            if not is_req:
                continue
            n += 1
            bad = None
            for x in F.walk(loop["c"][-1]):
                if x.get("k") in ("BreakStmt", "GotoStmt"):
                    tgt = None
                    for a in F.ancestors(x):
                        if a.get("k") in ("SwitchStmt", "ForStmt", "CXXForRangeStmt", "WhileStmt", "DoStmt"):
                            if a.get("k") == "DoStmt" and a.get("m"):
                                continue        # the do { } while (false) of an assertion macro
                            tgt = a
                            break
                    if x.get("k") == "GotoStmt" or tgt is loop:
                        bad = x
                        break
            if bad is not None:
                rep.violation(rule, "%s: the loop over the request list is left by `%s`" % (F.qn, bad.get("k")[:-4].lower()), F.nloc(bad), F.qn, "",
                              "the properties after the current one are not processed: a block depends on what was requested before it",
                              key="%s|%s" % (rule, F.qn), witness="a request in which the property handled by that branch is followed by another one")
            else:
                rep.ok(rule, "%s: request loop at %s has no early exit" % (F.qn, F.nloc(loop)), F.nloc(loop), F.qn)
    rep.floor(rule, n, len(funcs), "loops over the request list")


def describe_use(F, n):
    for a in [n] + list(F.ancestors(n)) if n is not None else []:
        if a.get("k") == "IfStmt":
            return "an if condition"
        if a.get("k") in ("ReturnStmt",):
            return "a return"
        if a.get("k") in ("VarDecl", "BinaryOperator"):
            continue
    return "an expression"


def enclosing_stmt(F, n):
    prev = n
    for a in F.ancestors(n):
        if a.get("k") in ("CompoundStmt", "IfStmt", "ForStmt", "SwitchStmt", "CaseStmt"):
            if a.get("k") == "IfStmt":
                return a["c"][0]
            return prev
        prev = a
    return prev


# ------------------------------------------------------------------------------------------------
def wrapper2d(P, rep, counter, rule="LAYOUT.2D"):
    """the 2D wrapper forwards the request unchanged to the 3D evaluator and rewrites only velocity
    blocks: results[counter+k], k in {0,1,2}, under case 5"""
    rep.rule(rule, "World::properties(2D) passes depth and the request list unchanged to the 3D evaluator, and its only "
                   "writes to the result are results[counter+0..2] inside case 5 (velocity): "
                   "(u_x*v0 + u_y*v1, v2, 0) with u = surface_coord_conversions")
    F2 = P.func("WorldBuilder::World::properties", ptypes=["array<double, 2>"])
    F3 = P.func("WorldBuilder::World::properties", ptypes=["array<double, 3>"])
    calls = [n for n in F2.walk() if n.get("k") == "CXXMemberCallExpr" and n.get("callee") == F3.key]
    if len(calls) != 1:
        rep.violation(rule, "2D -> 3D forwarding", F2.loc, F2.qn, "%d calls" % len(calls), "the 2D wrapper does not call the 3D evaluator exactly once",
                      key=rule + "|ncalls")
        return
    call = calls[0]
    args = call["c"][1:]
    if astq.is_ref_to(args[1], F2.params[1]) and astq.is_ref_to(args[2], F2.params[2]):
        rep.ok(rule, "2D -> 3D forwards depth and request unchanged", F2.nloc(call), F2.qn)
    else:
        rep.violation(rule, "2D -> 3D forwarding", F2.nloc(call), F2.qn, norm.render(P, call), "depth or request list altered on the way to the 3D evaluator",
                      key=rule + "|args", witness="2D vs 3D query of the same point")
    par = F2.parent.get(call["i"])
    while par is not None and par.get("k") in norm.CASTS + ("CXXConstructExpr",):
        par = F2.parent.get(par["i"])
    if par is None or par.get("k") != "VarDecl":
        rep.unknown(rule, "result of the 3D call is not bound to a local")
        return
    res_k = par["r"]
    rets = [sc(n["c"][0]) for n in F2.walk() if n.get("k") == "ReturnStmt" and n.get("c")]
    if not all(r.get("k") == "DeclRefExpr" and r["r"] == res_k for r in rets) or not rets:
        rep.violation(rule, "2D result", F2.loc, F2.qn, "; ".join(norm.render(P, r) for r in rets), "the 2D wrapper does not return the 3D result vector",
                      key=rule + "|return")
    sw = find_switch_on_kind(P, F2)[0]
    cases = astq.switch_cases(sw)
    case_of = {}
    for kind, stmts in cases.items():
        for s in stmts:
            for n in F2.walk(s):
                case_of.setdefault(n["i"], set()).add(kind)
    sym = norm.Sym(P, F2, hook=prop_hook(P), inline_locals=False)
    C = sp.Symbol("COUNTER")
    sym.env[counter] = C
    writes = {}
    for n in F2.walk():
        if n.get("k") in ("BinaryOperator", "CompoundAssignOperator") and n.get("op") in norm.ASSIGN_OPS:
            s = astq.subscript(n["c"][0])
            if s and astq.is_ref_to(s[0], res_k):
                off = sp.expand(sym(s[1]) - C)
                kinds = case_of.get(n["i"], set())
                if kinds != {5} or not off.is_Integer or not (0 <= off < 3) or n.get("op") != "=":
                    rep.violation(rule, "2D wrapper writes results[%s] in case %s" % (norm.render(P, s[1]), sorted(kinds, key=str)), F2.nloc(n), F2.qn,
                                  norm.render(P, n), "the wrapper alters a value the 3D evaluator produced for a non-velocity property",
                                  key="%s|write|%s|%s" % (rule, off, sorted(kinds, key=str)))
                else:
                    writes[int(off)] = n
        elif n.get("k") == "CXXMemberCallExpr" and not P.d(n.get("callee")).get("const"):
            me = n["c"][0]
            if me.get("c") and astq.is_ref_to(me["c"][0], res_k) and me.get("n") not in ("operator[]", "at", "begin", "end"):
                rep.violation(rule, "2D wrapper modifies the result vector by %s" % me.get("n"), F2.nloc(n), F2.qn, norm.render(P, n),
                              "layout of the 3D result changed", key="%s|modify|%s" % (rule, me.get("n")))
    # projection formula; statements are sequential, so evaluate in order with the old values
    if set(writes) == {0, 1, 2}:
        order = sorted(writes.values(), key=lambda n: n["i"])
        V = [sp.Symbol("v0"), sp.Symbol("v1"), sp.Symbol("v2")]
        state = {0: V[0], 1: V[1], 2: V[2]}
        ux, uy = sp.Symbol("ux"), sp.Symbol("uy")

        def hook(n):
            s = astq.subscript(n)
            if s and astq.is_ref_to(s[0], res_k):
                off = sp.expand(norm.Sym(P, F2, hook=prop_hook(P), inline_locals=False, env={counter: C})(s[1]) - C)
                if off.is_Integer and int(off) in state:
                    return state[int(off)]
            if s and astq.is_this_field(P, s[0], "surface_coord_conversions"):
                i = sc(s[1])
                if i.get("k") == "IntegerLiteral":
                    return {0: ux, 1: uy}.get(i["v"])
            return None
        ev = norm.Sym(P, F2, inline_locals=False, hook=hook)
        # locals declared in the velocity case hold the value of their initialiser at that point (the stores follow in order)
        case_decls = [v for st_ in cases.get(5, []) for v in F2.walk(st_) if v.get("k") == "VarDecl" and v.get("c")
                      and (v.get("t") or "").replace("const ", "").strip() in ("double", "float")]
        for n in sorted(order + case_decls, key=lambda q: q["i"]):
            if n.get("k") == "VarDecl":
                try:
                    ev.env[n["r"]] = sp.expand(ev(n["c"][0]))
                except Exception:
                    pass
                continue
            s = astq.subscript(n["c"][0])
            off = int(sp.expand(sym(s[1]) - C))
            state[off] = sp.expand(ev(n["c"][1]))
        want = {0: sp.expand(ux * V[0] + uy * V[1]), 1: V[2], 2: sp.Integer(0)}
        bad = [k for k in (0, 1, 2) if sp.expand(state[k] - want[k]) != 0]
        # the three stores are unconditional inside the velocity case
        chain_ids = set()
        if sw.get("ifchain") is not None:
            cur_ = sw
            while cur_ is not None and cur_.get("k") == "IfStmt":
                chain_ids.add(cur_["i"])
                cur_ = cur_["c"][2] if len(cur_["c"]) > 2 else None
        for n in order:
            for a in F2.ancestors(n):
                if a.get("k") == "SwitchStmt" or a.get("i") in chain_ids:
                    break
                if a.get("k") in ("IfStmt", "ConditionalOperator"):
                    cond_txt = norm.render(P, a["c"][0])[:80]
                    rep.violation(rule, "2D velocity projection is applied only when %s" % cond_txt, F2.nloc(n), F2.qn, norm.render(P, n)[:120],
                                  "for the remaining cross sections the 3D velocity component is passed through unprojected",
                                  key=rule + "|projection-conditional", witness="a cross section for which the condition is false (e.g. pointing in -x)")
                    bad = bad or [-1]
                    break
        bad = [k for k in bad if k != -1] if bad != [-1] else []
        if bad:
            rep.violation(rule, "2D velocity projection", F2.nloc(order[0]), F2.qn, "; ".join("slot %d = %s" % (k, state[k]) for k in (0, 1, 2)),
                          "expected (ux*v0 + uy*v1, v2, 0)", key=rule + "|projection",
                          witness="cross section not aligned with x; velocity with distinct components")
        else:
            rep.ok(rule, "2D velocity projection = (ux*v0+uy*v1, v2, 0), evaluated in statement order", F2.nloc(order[0]), F2.qn)
    else:
        rep.violation(rule, "2D velocity projection", F2.loc, F2.qn, "slots written: %s" % sorted(writes), "not all three velocity slots are rewritten",
                      key=rule + "|projection-slots")
