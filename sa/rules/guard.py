"""GUARD — dominance / must-pass-through / inclusive bounds / writes under the extent test (DESIGN §3.4)."""
from collections import deque

from .. import astq, norm
from ..astq import sc
from ..tu import AnalysisBroken


def reach(F, start_blocks):
    succ = F.succs()
    seen = set()
    dq = deque(start_blocks)
    while dq:
        b = dq.popleft()
        if b in seen:
            continue
        seen.add(b)
        dq.extend(succ.get(b, []))
    return seen


def dominates(F, a_block, b_block):
    return a_block in F.dominators().get(b_block, set())


def throw_guards(F, macros=("WBAssertThrow", "WBAssertThrowExc")):
    """[(if node, condition C, macro)] for release-active `if (!(C)) throw`"""
    out = []
    for n in F.walk():
        if n.get("k") == "IfStmt" and n.get("m") in macros and not n.get("ma"):
            c = sc(n["c"][0])
            inner = sc(c["c"][0]) if c.get("k") == "UnaryOperator" and c.get("op") == "!" else None
            out.append((n, inner, n.get("m")))
    return out


def then_cannot_return(F, ifnode):
    """no path from the then-branch of ifnode to the function's normal exit"""
    then = ifnode["c"][1]
    b = F.block_of(then)
    # the first block of the then-branch: successor 0 of the block that ends in this if
    for blk in F.cfg["blocks"]:
        if blk.get("t") == ifnode["i"]:
            s = blk["succ"][0]
            if s is None:
                return True
            return F.cfg["exit"] not in reach(F, [s]) or all_paths_throw(F, s)
    return b is not None and F.cfg["exit"] not in reach(F, [b])


def all_paths_throw(F, start):
    """clang links throw blocks to EXIT; treat a path as throwing if it passes a CXXThrowExpr block
    before any other way to the exit"""
    blocks = F.blocks()
    throw_ids = {n["i"] for n in F.walk() if n.get("k") == "CXXThrowExpr"}
    seen = set()
    dq = deque([start])
    while dq:
        b = dq.popleft()
        if b in seen:
            continue
        seen.add(b)
        blk = blocks[b]
        if any(s in throw_ids for s in blk["s"]):
            continue     # this path ends in a throw
        if b == F.cfg["exit"]:
            return False
        dq.extend(s for s in blk["succ"] if s is not None)
    return True


def normal_exit_preds(F):
    """blocks that reach EXIT without throwing = blocks holding a ReturnStmt or falling off the end"""
    blocks = F.blocks()
    throw_ids = {n["i"] for n in F.walk() if n.get("k") == "CXXThrowExpr"}
    out = []
    live = reach(F, [F.cfg["entry"]])
    for b, blk in blocks.items():
        if b not in live:
            continue     # e.g. the `while (false)` tail of a WBAssertThrow(false, ...) whose edge was pruned
        if F.cfg["exit"] in [s for s in blk["succ"] if s is not None] and not any(s in throw_ids for s in blk["s"]):
            out.append(b)
    return out


def gate_dominates_normal_exit(F, node):
    b = F.block_of(node)
    if b is None:
        return False
    return all(dominates(F, b, e) for e in normal_exit_preds(F)) and bool(normal_exit_preds(F))


# ------------------------------------------------------------------------------------------------
def input_gates(P, rep, rule="G3.input"):
    rep.rule(rule, "Parameters::initialize returns normally only after (1) the JSON parse-error test, (2) the is-object test and "
                   "(3) schema validation, each a release-active throw on failure; World's constructor calls initialize before "
                   "parse_entries; World::parse_entries evaluates the version check before any other access to the parameters")
    F = P.func("WorldBuilder::Parameters::initialize")
    guards = throw_guards(F)
    found = {"parse": None, "object": None}
    for node, c, macro in guards:
        txt = norm.render(P, c) if c is not None else ""
        if "HasParseError" in txt:
            found["parse"] = (node, c)
        elif "IsObject" in txt:
            found["object"] = (node, c)
    for what, label in (("parse", "JSON parse error"), ("object", "root is an object")):
        if found[what] is None:
            rep.violation(rule, "initialize: %s check" % label, F.loc, F.qn, "", "no release-active check of %s" % label,
                          key="%s|%s|missing" % (rule, what), witness="a file that is not JSON / not an object")
            continue
        node, c = found[what]
        if what == "parse":
            neg = sc(c)
            okform = neg.get("k") == "UnaryOperator" and neg.get("op") == "!"
        else:
            okform = True
        if gate_dominates_normal_exit(F, node) and okform:
            rep.ok(rule, "initialize: %s check gates every normal return" % label, F.nloc(node), F.qn, norm.render(P, c))
        else:
            rep.violation(rule, "initialize: %s check" % label, F.nloc(node), F.qn, norm.render(P, c),
                          "a path returns from initialize without passing this check (or the test is inverted)",
                          key="%s|%s|bypass" % (rule, what), witness="malformed file accepted")
    # schema validation
    acc = None
    for n in F.walk():
        if n.get("k") == "IfStmt" and not n.get("m"):
            c = sc(n["c"][0])
            if c.get("k") == "UnaryOperator" and c.get("op") == "!" and "Accept(validator)" in norm.render(P, c).replace(" ", ""):
                acc = n
            elif "Accept(" in norm.render(P, c) and "validator" in norm.render(P, c):
                acc = acc or n
    if acc is None:
        rep.violation(rule, "initialize: schema validation", F.loc, F.qn, "", "no `if (!parameters.Accept(validator))` gate",
                      key=rule + "|schema|missing", witness="schema-invalid file accepted")
    else:
        c = sc(acc["c"][0])
        neg = c.get("k") == "UnaryOperator" and c.get("op") == "!"
        if neg and gate_dominates_normal_exit(F, acc["c"][0]) and then_cannot_return(F, acc):
            rep.ok(rule, "initialize: schema validation failure always throws; gate dominates every normal return", F.nloc(acc), F.qn)
        else:
            rep.violation(rule, "initialize: schema validation", F.nloc(acc), F.qn, norm.render(P, c),
                          "schema failure does not always end in a release-active throw", key=rule + "|schema|bypass",
                          witness="schema-invalid file accepted")
        # the validator validates `parameters` against a schema built from `declarations`
        sd = [n for n in F.walk() if n.get("k") == "VarDecl" and n.get("t", "").replace("const ", "").startswith("rapidjson::GenericSchemaDocument")]
        if len(sd) == 1 and sd[0].get("c") and "declarations" in norm.render(P, sd[0]["c"][0]):
            rep.ok(rule, "initialize: schema is built from the declarations document", F.nloc(sd[0]), F.qn)
        else:
            rep.violation(rule, "initialize: schema source", F.loc, F.qn, "", "schema is not built from `declarations`", key=rule + "|schema|source")
    # constructor order
    C = [f for f in P.funcs_named("WorldBuilder::World::World") if len(f.params) >= 4]
    if len(C) != 1:
        raise AnalysisBroken("World constructor not found")
    C = C[0]
    ini = pe = None
    for n in C.walk():
        if n.get("k") == "CXXMemberCallExpr":
            q = P.d(n.get("callee")).get("qn")
            if q == "WorldBuilder::Parameters::initialize":
                ini = n
            elif q == "WorldBuilder::World::parse_entries":
                pe = n
    if ini is None or pe is None:
        rep.violation(rule, "World::World order", C.loc, C.qn, "", "constructor does not call initialize and parse_entries", key=rule + "|ctor|missing")
    elif dominates(C, C.block_of(ini), C.block_of(pe)) and (C.block_of(ini) != C.block_of(pe) or ini["i"] < pe["i"]):
        rep.ok(rule, "World::World: initialize(...) precedes parse_entries(...)", C.nloc(ini), C.qn)
    else:
        rep.violation(rule, "World::World order", C.nloc(pe), C.qn, "", "parse_entries can run before the file is validated", key=rule + "|ctor|order")
    # version check first
    W = P.func("WorldBuilder::World::parse_entries")
    vg = None
    for node, c, macro in throw_guards(W, ("WBAssertThrow",)):
        if c is not None and '"version"' in norm.render(P, c):
            vg = (node, c)
            break
    if vg is None:
        rep.violation(rule, "parse_entries: version check", W.loc, W.qn, "", "no release-active version check", key=rule + "|version|missing",
                      witness="file written for another version")
        return
    node, c = vg
    txt = norm.render(P, c)
    refs = {P.d(x["r"]).get("qn") for x in W.walk(c) if x.get("k") == "DeclRefExpr"}
    form_ok = (c.get("k") == "CXXOperatorCallExpr" and c.get("op") == "==" and "WorldBuilder::Version::MAJOR" in refs
               and "WorldBuilder::Version::MINOR" in refs)
    vb = W.block_of(node["c"][0])
    late = []
    inside = {x["i"] for x in W.walk(node)}
    prm = W.params[0]
    for n in W.walk():
        if n["i"] in inside:
            continue
        if n.get("k") == "DeclRefExpr" and n.get("r") == prm:
            b = W.block_of(n)
            if b is None:
                continue
            if not dominates(W, vb, b) or (b == vb):
                # same block: must come later in source order
                if b == vb and n["i"] > max(inside):
                    continue
                late.append(n)
    if form_ok and not late:
        rep.ok(rule, "parse_entries: version check `%s` dominates every other use of the parameters" % txt[:80], W.nloc(node), W.qn)
    else:
        rep.violation(rule, "parse_entries: version check", W.nloc(late[0]) if late else W.nloc(node), W.qn, txt[:120],
                      "parameters are used before the version check" if late else "version check does not compare with MAJOR.MINOR",
                      key=rule + "|version|order", witness="file written for another version builds a world")


# ------------------------------------------------------------------------------------------------
def controlling(F):
    """block -> frozenset of (branch block, successor index) it is transitively control dependent on"""
    cd = F.control_deps()
    ids = [b["id"] for b in F.cfg["blocks"]]
    clo = {b: set(cd.get(b, ())) for b in ids}
    changed = True
    while changed:
        changed = False
        for b in ids:
            add = set()
            for (a, idx) in clo[b]:
                add |= clo.get(a, set())
            if not add <= clo[b]:
                clo[b] |= add
                changed = True
    return {b: frozenset(v) for b, v in clo.items()}


_SYN = [-1000000]


def expand_cond(P, F, node, depth=0):
    """the condition with named bools (const bool locals with a side-effect-free initialiser) replaced by what they
    stand for; only the boolean spine (!, &&, ||, casts) is copied, leaves are the original nodes"""
    if node is None or depth > 12:
        return node
    nl = norm.naming_locals(P, F)
    n0 = sc(node)
    if n0 is None:
        return node
    k = n0.get("k")
    if k == "DeclRefExpr" and n0.get("r") in nl.vals and "bool" in (P.d(n0["r"]).get("t") or n0.get("t") or ""):
        return expand_cond(P, F, nl.vals[n0["r"]], depth + 1)
    if (k == "UnaryOperator" and n0.get("op") == "!") or (k == "BinaryOperator" and n0.get("op") in ("&&", "||")) or k == "ParenExpr":
        kids = [expand_cond(P, F, c, depth + 1) for c in n0.get("c", [])]
        if any(a is not b for a, b in zip(kids, n0.get("c", []))):
            _SYN[0] -= 1
            m = dict(n0)
            m["c"] = kids
            m["i"] = _SYN[0]
            return m
    return node


def branch_info(P, F):
    """branch block -> (kind, condition node) where kind in {'switch','loop','cond'}"""
    out = _branch_info(P, F)
    for b, (kind, c) in list(out.items()):
        if kind in ("cond", "assert") and c is not None:
            try:
                out[b] = (kind, expand_cond(P, F, c))
            except Exception:
                pass
    return out


def _branch_info(P, F):
    out = {}
    for b in F.cfg["blocks"]:
        tk = b.get("tk")
        if tk is None:
            continue
        tnode = F.nodes.get(b.get("t"))
        cnode = F.nodes.get(b.get("tc")) if b.get("tc") is not None else None
        if tk == "SwitchStmt":
            out[b["id"]] = ("switch", cnode)
        elif tk in ("ForStmt", "CXXForRangeStmt", "WhileStmt", "DoStmt"):
            out[b["id"]] = ("loop", cnode)
        elif tk in ("IfStmt", "BinaryOperator", "ConditionalOperator"):
            kind = "cond"
            if tnode is not None and tnode.get("m") in ("WBAssert", "WBAssertThrow") and not tnode.get("ma"):
                kind = "assert"
            out[b["id"]] = (kind, cnode)
        else:
            out[b["id"]] = ("other", cnode)
    return out


def output_writes(P, F, out_key):
    """nodes that write the output parameter: output[...] = v, compound assignments, unroll_into(output, ...)"""
    ws = []
    for n in F.walk():
        k = n.get("k")
        if k in ("BinaryOperator", "CompoundAssignOperator") and n.get("op") in norm.ASSIGN_OPS:
            s = astq.subscript(n["c"][0])
            if s and astq.is_ref_to(s[0], out_key):
                ws.append(n)
        elif k == "CXXMemberCallExpr" and not P.d(n.get("callee")).get("const", False) or (k == "CXXMemberCallExpr" and n["c"][0].get("n") == "unroll_into"):
            for a in n["c"][1:]:
                if astq.is_ref_to(a, out_key):
                    pt = P.d(n.get("callee")).get("pt", [])
                    idx = n["c"][1:].index(a)
                    if idx < len(pt) and pt[idx]["mode"] in ("ref", "ptr"):
                        ws.append(n)
            me = n["c"][0]
            if me.get("c") and astq.is_ref_to(me["c"][0], out_key) and me.get("n") not in ("operator[]", "at", "size", "begin", "end"):
                ws.append(n)
        elif k == "CallExpr":
            pt = P.d(n.get("callee")).get("pt", [])
            for idx, a in enumerate(n["c"][1:]):
                if astq.is_ref_to(a, out_key) and idx < len(pt) and pt[idx]["mode"] in ("ref", "ptr"):
                    ws.append(n)
    return ws


def writes_under_extent(P, rep, rule="G1"):
    rep.rule(rule, "in every feature all writes to the result vector are control-dependent on one and the same set of conditions "
                   "(the feature's extent test: a depth interval and a footprint/distance test), whatever the property kind; no "
                   "write is reachable when the extent test fails")
    from .layout import feature_properties
    n_w = 0
    for F in feature_properties(P):
        out_key = F.params[6]
        depth_key = F.params[2]
        ws = output_writes(P, F, out_key)
        n_w += len(ws)
        if not ws:
            rep.violation(rule, "%s never writes the result" % F.qn, F.loc, F.qn, "", "feature has no effect", key="%s|%s|nowrite" % (rule, F.qn))
            continue
        ctl = controlling(F)
        info = branch_info(P, F)
        sets = []
        for w in ws:
            b = F.block_of(w)
            cs = {(a, i) for (a, i) in ctl.get(b, ()) if info.get(a, ("other", None))[0] == "cond"}
            sets.append((w, cs))
        common = set.intersection(*(cs for _, cs in sets))
        desc = sorted(norm.render(P, info[a][1])[:70] + ("" if i == 0 else " [false branch]") for a, i in common if info[a][1] is not None)
        # the common guard must involve the depth and the horizontal position
        txt = " ".join(desc)
        has_depth = any(any(x.get("k") == "DeclRefExpr" and x.get("r") == depth_key for x in F.walk(info[a][1])) for a, i in common if info[a][1] is not None)
        GEOM = ("polygon_contains_point", "relative_distance_from_center", "distance_from_plane", "point_inside", "distance_from_planes",
                "distance_along_plane", "fraction_from_ellipse_center")
        has_geom = False
        for a, i in common:
            c = info[a][1]
            if c is None:
                continue
            for x in F.walk(c):
                nm = x.get("n", "") or ""
                if x.get("callee"):
                    nm = nm + " " + P.d(x["callee"]).get("qn", "")
                if any(g in nm for g in GEOM):
                    has_geom = True
        if not common or not has_depth or not has_geom:
            rep.violation(rule, "%s: writes share no extent test (common guard: %s)" % (F.qn, desc or "none"), F.nloc(ws[0]), F.qn, "",
                          "a point outside the feature can be modified", key="%s|%s|noguard" % (rule, F.qn),
                          witness="a point outside the feature's footprint or depth range")
            continue
        # the extent test is a statement about geometry: it must not consult the model lists
        model_dep = []
        for a, i in common:
            c = info[a][1]
            if c is None:
                continue
            for x in F.walk(c):
                if x.get("k") == "MemberExpr" and ("Models::" in x.get("t", "") or x.get("n", "").endswith("_models")):
                    model_dep.append((c, x))
        for c, x in model_dep[:1]:
            rep.violation(rule, "%s: every write is conditional on `%s`, which consults %s" % (F.qn, norm.render(P, c)[:70], x.get("n")), F.nloc(c), F.qn,
                          norm.render(P, c)[:120], "whether the feature covers a point (and paints its tag) must not depend on which models it has",
                          key="%s|%s|model-dependent" % (rule, F.qn), witness="a feature without models: its tag is not reported inside it")
        bad = [(w, cs - common) for w, cs in sets if cs - common]
        missing = [(w, common - cs) for w, cs in sets if common - cs]
        if missing:
            for w, m in missing:
                rep.violation(rule, "%s: write `%s` is not under the feature's extent test" % (F.qn, norm.render(P, w)[:60]), F.nloc(w), F.qn,
                              norm.render(P, w)[:100], "not controlled by: %s" % sorted(norm.render(P, info[a][1])[:50] for a, i in m),
                              key="%s|%s|outside|%s" % (rule, F.qn, norm.render(P, w["c"][0])[:30] if w.get("c") else ""),
                              witness="a point outside the feature's extent")
        extra_desc = {}
        for w, ex in bad:
            for a, i in ex:
                extra_desc.setdefault(norm.render(P, info[a][1])[:80] if info[a][1] is not None else "?", []).append(w)
        if extra_desc:
            # writes that are under additional conditions: all kinds must share the guard, so extra conditions around
            # some writes only (e.g. the tag written under fewer/more conditions than the temperature) are reported
            for c, wl in extra_desc.items():
                rep.violation(rule, "%s: %d write(s) are additionally conditional on `%s`" % (F.qn, len(wl), c), F.nloc(wl[0]), F.qn,
                              norm.render(P, wl[0])[:100], "property kinds do not share one extent test: inside the feature some values are painted and others not",
                              key="%s|%s|extra|%s" % (rule, F.qn, c[:40]), witness="a point inside the feature where this condition is false")
        if not missing and not extra_desc and not model_dep:
            rep.ok(rule, "%s: %d writes, all under {%s}" % (F.qn.split("::")[-2], len(ws), "; ".join(desc)), F.loc, F.qn)
    rep.floor(rule, n_w, 36, "writes to the result vector in the 6 features")
