"""GUARD — dominance / must-pass-through / inclusive bounds / writes under the extent test (DESIGN §3.4)."""
from collections import deque

from .. import astq, norm
from ..astq import sc
from ..tu import AnalysisBroken


def reach(F, start_blocks):
    succ = F.succs()
    seen = set()
    dq = deque(start_blocks)
    while dq:
        b = dq.popleft()
        if b in seen:
            continue
        seen.add(b)
        dq.extend(succ.get(b, []))
    return seen


def dominates(F, a_block, b_block):
    return a_block in F.dominators().get(b_block, set())


def throw_guards(F, macros=("WBAssertThrow", "WBAssertThrowExc")):
    """[(if node, condition C, macro)] for release-active `if (!(C)) throw`"""
    out = []
    for n in F.walk():
        if n.get("k") == "IfStmt" and n.get("m") in macros and not n.get("ma"):
            c = sc(n["c"][0])
            inner = sc(c["c"][0]) if c.get("k") == "UnaryOperator" and c.get("op") == "!" else None
            out.append((n, inner, n.get("m")))
    return out


def then_cannot_return(F, ifnode):
    """no path from the then-branch of ifnode to the function's normal exit"""
    then = ifnode["c"][1]
    b = F.block_of(then)
    # the first block of the then-branch: successor 0 of the block that ends in this if
    for blk in F.cfg["blocks"]:
        if blk.get("t") == ifnode["i"]:
            s = blk["succ"][0]
            if s is None:
                return True
            return F.cfg["exit"] not in reach(F, [s]) or all_paths_throw(F, s)
    return b is not None and F.cfg["exit"] not in reach(F, [b])


def all_paths_throw(F, start):
    """clang links throw blocks to EXIT; treat a path as throwing if it passes a CXXThrowExpr block
    before any other way to the exit"""
    blocks = F.blocks()
    throw_ids = {n["i"] for n in F.walk() if n.get("k") == "CXXThrowExpr"}
    seen = set()
    dq = deque([start])
    while dq:
        b = dq.popleft()
        if b in seen:
            continue
        seen.add(b)
        blk = blocks[b]
        if any(s in throw_ids for s in blk["s"]):
            continue     # this path ends in a throw
        if b == F.cfg["exit"]:
            return False
        dq.extend(s for s in blk["succ"] if s is not None)
    return True


def normal_exit_preds(F):
    """blocks that reach EXIT without throwing = blocks holding a ReturnStmt or falling off the end"""
    blocks = F.blocks()
    throw_ids = {n["i"] for n in F.walk() if n.get("k") == "CXXThrowExpr"}
    out = []
    live = reach(F, [F.cfg["entry"]])
    for b, blk in blocks.items():
        if b not in live:
            continue     # e.g. the `while (false)` tail of a WBAssertThrow(false, ...) whose edge was pruned
        if F.cfg["exit"] in [s for s in blk["succ"] if s is not None] and not any(s in throw_ids for s in blk["s"]):
            out.append(b)
    return out


def gate_dominates_normal_exit(F, node):
    b = F.block_of(node)
    if b is None:
        return False
    return all(dominates(F, b, e) for e in normal_exit_preds(F)) and bool(normal_exit_preds(F))


# ------------------------------------------------------------------------------------------------
def input_gates(P, rep, rule="G3.input"):
    rep.rule(rule, "Parameters::initialize returns normally only after (1) the JSON parse-error test, (2) the is-object test and "
                   "(3) schema validation, each a release-active throw on failure; World's constructor calls initialize before "
                   "parse_entries; World::parse_entries evaluates the version check before any other access to the parameters")
    F = P.func("WorldBuilder::Parameters::initialize")
    guards = throw_guards(F)
    found = {"parse": None, "object": None}
    for node, c, macro in guards:
        txt = norm.render(P, c) if c is not None else ""
        if "HasParseError" in txt:
            found["parse"] = (node, c)
        elif "IsObject" in txt:
            found["object"] = (node, c)
    for what, label in (("parse", "JSON parse error"), ("object", "root is an object")):
        if found[what] is None:
            rep.violation(rule, "initialize: %s check" % label, F.loc, F.qn, "", "no release-active check of %s" % label,
                          key="%s|%s|missing" % (rule, what), witness="a file that is not JSON / not an object")
            continue
        node, c = found[what]
        if what == "parse":
            neg = sc(c)
            okform = neg.get("k") == "UnaryOperator" and neg.get("op") == "!"
        else:
            okform = True
        if gate_dominates_normal_exit(F, node) and okform:
            rep.ok(rule, "initialize: %s check gates every normal return" % label, F.nloc(node), F.qn, norm.render(P, c))
        else:
            rep.violation(rule, "initialize: %s check" % label, F.nloc(node), F.qn, norm.render(P, c),
                          "a path returns from initialize without passing this check (or the test is inverted)",
                          key="%s|%s|bypass" % (rule, what), witness="malformed file accepted")
    # schema validation
    acc = None
    for n in F.walk():
        if n.get("k") == "IfStmt" and not n.get("m"):
            c = sc(n["c"][0])
            if c.get("k") == "UnaryOperator" and c.get("op") == "!" and "Accept(validator)" in norm.render(P, c).replace(" ", ""):
                acc = n
            elif "Accept(" in norm.render(P, c) and "validator" in norm.render(P, c):
                acc = acc or n
    if acc is None:
        rep.violation(rule, "initialize: schema validation", F.loc, F.qn, "", "no `if (!parameters.Accept(validator))` gate",
                      key=rule + "|schema|missing", witness="schema-invalid file accepted")
    else:
        c = sc(acc["c"][0])
        neg = c.get("k") == "UnaryOperator" and c.get("op") == "!"
        if neg and gate_dominates_normal_exit(F, acc["c"][0]) and then_cannot_return(F, acc):
            rep.ok(rule, "initialize: schema validation failure always throws; gate dominates every normal return", F.nloc(acc), F.qn)
        else:
            rep.violation(rule, "initialize: schema validation", F.nloc(acc), F.qn, norm.render(P, c),
                          "schema failure does not always end in a release-active throw", key=rule + "|schema|bypass",
                          witness="schema-invalid file accepted")
        # the validator validates `parameters` against a schema built from `declarations`
        sd = [n for n in F.walk() if n.get("k") == "VarDecl" and n.get("t", "").replace("const ", "").startswith("rapidjson::GenericSchemaDocument")]
        if len(sd) == 1 and sd[0].get("c") and "declarations" in norm.render(P, sd[0]["c"][0]):
            rep.ok(rule, "initialize: schema is built from the declarations document", F.nloc(sd[0]), F.qn)
        else:
            rep.violation(rule, "initialize: schema source", F.loc, F.qn, "", "schema is not built from `declarations`", key=rule + "|schema|source")
    # constructor order
    C = [f for f in P.funcs_named("WorldBuilder::World::World") if len(f.params) >= 4]
    if len(C) != 1:
        raise AnalysisBroken("World constructor not found")
    C = C[0]
    ini = pe = None
    for n in C.walk():
        if n.get("k") == "CXXMemberCallExpr":
            q = P.d(n.get("callee")).get("qn")
            if q == "WorldBuilder::Parameters::initialize":
                ini = n
            elif q == "WorldBuilder::World::parse_entries":
                pe = n
    if ini is None or pe is None:
        rep.violation(rule, "World::World order", C.loc, C.qn, "", "constructor does not call initialize and parse_entries", key=rule + "|ctor|missing")
    elif dominates(C, C.block_of(ini), C.block_of(pe)) and (C.block_of(ini) != C.block_of(pe) or ini["i"] < pe["i"]):
        rep.ok(rule, "World::World: initialize(...) precedes parse_entries(...)", C.nloc(ini), C.qn)
    else:
        rep.violation(rule, "World::World order", C.nloc(pe), C.qn, "", "parse_entries can run before the file is validated", key=rule + "|ctor|order")
    # version check first
    W = P.func("WorldBuilder::World::parse_entries")
    vg = None
    for node, c, macro in throw_guards(W, ("WBAssertThrow",)):
        if c is not None and '"version"' in norm.render(P, c):
            vg = (node, c)
            break
    if vg is None:
        rep.violation(rule, "parse_entries: version check", W.loc, W.qn, "", "no release-active version check", key=rule + "|version|missing",
                      witness="file written for another version")
        return
    node, c = vg
    txt = norm.render(P, c)
    refs = {P.d(x["r"]).get("qn") for x in W.walk(c) if x.get("k") == "DeclRefExpr"}
    form_ok = (c.get("k") == "CXXOperatorCallExpr" and c.get("op") == "==" and "WorldBuilder::Version::MAJOR" in refs
               and "WorldBuilder::Version::MINOR" in refs)
    vb = W.block_of(node["c"][0])
    late = []
    inside = {x["i"] for x in W.walk(node)}
    prm = W.params[0]
    for n in W.walk():
        if n["i"] in inside:
            continue
        if n.get("k") == "DeclRefExpr" and n.get("r") == prm:
            b = W.block_of(n)
            if b is None:
                continue
            if not dominates(W, vb, b) or (b == vb):
                # same block: must come later in source order
                if b == vb and n["i"] > max(inside):
                    continue
                late.append(n)
    if form_ok and not late:
        rep.ok(rule, "parse_entries: version check `%s` dominates every other use of the parameters" % txt[:80], W.nloc(node), W.qn)
    else:
        rep.violation(rule, "parse_entries: version check", W.nloc(late[0]) if late else W.nloc(node), W.qn, txt[:120],
                      "parameters are used before the version check" if late else "version check does not compare with MAJOR.MINOR",
                      key=rule + "|version|order", witness="file written for another version builds a world")
