"""FWD — transparent forwarding (DESIGN §3.9): wrappers hand their parameters to the named World
member unchanged and in order, and hand the result back unchanged."""
from .. import astq, norm
from ..astq import sc
from ..tu import AnalysisBroken


class Bad(Exception):
    """an argument is not an identity form of the wrapper's parameters (a violation)"""

    def __init__(self, reason, node=None):
        Exception.__init__(self, reason)
        self.reason = reason
        self.node = node


class Unknown(Exception):
    pass


class Leaf:
    def __init__(self, key, form, node):
        self.key, self.form, self.node = key, form, node

    def __repr__(self):
        return "%s:%s" % (self.key, self.form)


class Forward:
    def __init__(self, P, F):
        self.P, self.F = P, F
        self.params = list(F.params)
        self.inits = {}
        self.assigns = {}
        self.elem_stores = {}
        for n in F.walk():
            k = n.get("k")
            if k == "VarDecl":
                self.inits[n["r"]] = n["c"][0] if n.get("c") else None
            elif k in ("BinaryOperator", "CompoundAssignOperator") and n.get("op") in norm.ASSIGN_OPS:
                t = sc(n["c"][0])
                if t.get("k") == "DeclRefExpr":
                    self.assigns.setdefault(t["r"], []).append(n)
                else:
                    b, idx = chain(t)
                    if b.get("k") == "DeclRefExpr" and idx:
                        self.elem_stores.setdefault(b["r"], []).append((n, idx))
            elif k == "CXXOperatorCallExpr" and n.get("op") in norm.ASSIGN_OPS and n.get("memop"):
                t = sc(n["c"][0])
                if t.get("k") == "DeclRefExpr":
                    self.assigns.setdefault(t["r"], []).append(n)

    def name(self, key):
        return self.P.d(key).get("n", "?")

    def leaves(self, e, depth=0):
        """flatten an argument expression to the sequence of wrapper parameters it is made of"""
        P, F = self.P, self.F
        if depth > 30:
            raise Unknown("too deep")
        e = sc(e)
        if e is None:
            return []
        k = e.get("k")
        if k == "DeclRefExpr":
            key = e["r"]
            d = P.d(key)
            if d.get("storage") == "param" and key in self.params:
                return [Leaf(key, "id", e)]
            if d.get("storage") == "local":
                return self.local_leaves(key, e, depth)
            raise Bad("argument uses %s which is neither a parameter nor a local" % d.get("qn", e.get("n")), e)
        if k in ("IntegerLiteral", "FloatingLiteral", "CXXBoolLiteralExpr", "StringLiteral", "CXXNullPtrLiteralExpr"):
            return [Leaf(None, "lit:%s" % e.get("v"), e)]
        if k == "InitListExpr":
            out = []
            for c in e["c"]:
                out += self.leaves(c, depth + 1)
            return out
        if k in ("CXXConstructExpr", "CXXTemporaryObjectExpr"):
            t = e.get("t", "")
            args = [a for a in e.get("c", []) if a is not None and a.get("k") != "CXXDefaultArgExpr"]
            if "basic_string" in t and len(args) >= 1:
                a0 = sc(args[0])
                if a0.get("t", "").replace("const ", "").strip() in ("char *", "char *const"):
                    if len(args) > 1:
                        raise Bad("std::string built from part of the C string: %s" % norm.render(P, e)[:80], e)
                    ls = self.leaves(a0, depth + 1)
                    return [Leaf(l.key, "string(" + l.form + ")", l.node) for l in ls]
                if "basic_string" in a0.get("t", ""):
                    return self.leaves(a0, depth + 1)
                if a0.get("t", "").replace("const ", "").strip() == "char":
                    raise Bad("std::string built from a single character %s" % norm.render(P, a0), e)
            if "array<" in t or "vector<" in t or "Point<" in t:
                out = []
                for a in args:
                    out += self.leaves(a, depth + 1)
                return out
            if len(args) == 1:
                return self.leaves(args[0], depth + 1)
            raise Unknown("constructor %s" % norm.render(P, e))
        if k == "CallExpr":
            qn = P.d(e.get("callee")).get("qn", "")
            if qn == "std::move":
                return self.leaves(e["c"][1], depth + 1)
            # a file-local helper of the wrapper (same source file) that itself only forwards: substitute its result
            G = P.funcs.get(e.get("callee"))
            if G is not None and G.body is not None and G.file == F.file and depth < 20:
                rets = [r for r in G.walk() if r.get("k") == "ReturnStmt" and r.get("c")]
                if len(rets) == 1:
                    sub = Forward(P, G)
                    inner = sub.leaves(rets[0]["c"][0], depth + 1)      # Bad/Unknown propagate
                    out = []
                    for l in inner:
                        if l.key is None:
                            out.append(l)
                            continue
                        i = G.params.index(l.key)
                        for al in self.leaves(e["c"][1 + i], depth + 1):
                            form = l.form if al.form == "id" else (al.form if l.form == "id" else "%s.%s" % (al.form, l.form))
                            out.append(Leaf(al.key, form, al.node))
                    return out
            raise Bad("argument is computed by %s" % qn, e)
        if k == "UnaryOperator":
            if e["op"] == "*":
                inner = sc(e["c"][0])
                ls = self.leaves(inner, depth + 1)
                pt = inner.get("t", "").replace("const ", "").strip()
                if pt in ("char *", "char *const"):
                    raise Bad("a C string parameter is dereferenced (one character) instead of being passed on: %s" % norm.render(P, e), e)
                return [Leaf(l.key, "deref", l.node) for l in ls]
            raise Bad("argument is transformed by unary %s" % e["op"], e)
        if k == "ConditionalOperator":
            # `p != nullptr ? <form of p> : <default>`: the conditional spelling of "forward p unless it is null"
            c0 = sc(e["c"][0])
            if c0 is not None and c0.get("k") == "BinaryOperator" and c0.get("op") in ("!=", "=="):
                sides = [sc(z) for z in c0["c"]]
                nul = [z for z in sides if z.get("k") in ("CXXNullPtrLiteralExpr", "GNUNullExpr") or (z.get("k") == "IntegerLiteral" and z.get("v") == 0)]
                par = [z for z in sides if z.get("k") == "DeclRefExpr" and z.get("r") in self.params]
                if len(nul) == 1 and len(par) == 1:
                    nonnull, other = (e["c"][1], e["c"][2]) if c0["op"] == "!=" else (e["c"][2], e["c"][1])
                    ls = self.leaves(nonnull, depth + 1)
                    try:
                        dl = self.leaves(other, depth + 1)
                    except Unknown:
                        dl = []
                    if {l.key for l in ls if l.key is not None} == {par[0]["r"]} and all(l.key is None for l in dl):
                        return ls
            raise Bad("argument is computed (%s), not forwarded" % norm.render(P, e), e)
        if k in ("BinaryOperator", "CompoundAssignOperator"):
            raise Bad("argument is computed (%s), not forwarded" % norm.render(P, e), e)
        if k in norm.CASTS:
            return self.leaves(e["c"][0], depth + 1)
        s = astq.subscript(e)
        if s:
            raise Bad("argument is an element (%s), not the forwarded object" % norm.render(P, e), e)
        raise Unknown("argument form %s: %s" % (k, norm.render(P, e)))

    def local_leaves(self, key, at, depth):
        """value of a local at its use: initialiser + whole-object assignments + element-wise copy loops"""
        P, F = self.P, self.F
        srcs = []
        init = self.inits.get(key)
        if init is not None:
            srcs.append(("init", init))
        for a in self.assigns.get(key, []):
            if a.get("op") != "=":
                raise Bad("local %s is modified by %s before it is forwarded" % (self.name(key), a.get("op")), a)
            srcs.append(("assign", a["c"][1]))
            self.check_guards(key, a)
        stores = self.elem_stores.get(key, [])
        # filled through a standard algorithm (std::copy into local[i].begin(), ...): a form this analysis does not model
        for x in F.walk():
            if x.get("k") == "CallExpr" and P.d(x.get("callee")).get("qn", "") in ("std::copy", "std::copy_n", "std::transform", "std::fill", "std::fill_n", "memcpy", "std::memcpy", "std::move"):
                outs = x["c"][-1:] if P.d(x["callee"])["qn"] not in ("memcpy", "std::memcpy") else x["c"][1:2]
                if any(y.get("k") == "DeclRefExpr" and y.get("r") == key for o in outs for y in F.walk(o)) and len(x["c"]) > 2:
                    raise Unknown("local %s is filled by %s" % (self.name(key), P.d(x["callee"])["qn"]))
        if stores:
            return self.copy_loop_leaves(key, stores, init)
        leaves = []
        for how, s in srcs:
            s0 = sc(s)
            if s0 is None:
                continue
            if s0.get("k") in ("CXXConstructExpr", "CXXTemporaryObjectExpr") and not [a for a in s0.get("c", []) if a is not None and a.get("k") != "CXXDefaultArgExpr"]:
                continue   # default construction
            ls = self.leaves(s, depth + 1)
            leaves.append((how, ls, s))
        params = [(how, ls, s) for how, ls, s in leaves if any(l.key is not None for l in ls)]
        if not params:
            if leaves:
                return leaves[-1][1]
            raise Unknown("local %s has no source" % self.name(key))
        if len(params) > 1:
            keys = {tuple((l.key, l.form) for l in ls) for _, ls, _ in params}
            if len(keys) > 1:
                raise Bad("local %s may hold different parameters: %s" % (self.name(key), sorted(keys, key=str)), at)
        how, ls, s = params[-1]
        # an assignment (rather than the initialiser) must be guarded only by a null test of the same parameter
        return ls

    def check_guards(self, key, asg):
        """an assignment `local = <form of parameter p>` may be conditional only on null tests of p itself:
        forwarding of one argument must not depend on another argument"""
        P, F = self.P, self.F
        try:
            ls = self.leaves(asg["c"][1], 1)
        except (Bad, Unknown):
            return
        own = {l.key for l in ls if l.key is not None}
        for a in F.ancestors(asg):
            if a.get("k") != "IfStmt":
                continue
            in_then = any(y is asg for y in F.walk(a["c"][1]))
            conj = []

            def split(x):
                x = sc(x)
                if x is not None and x.get("k") == "BinaryOperator" and x.get("op") == "&&":
                    split(x["c"][0])
                    split(x["c"][1])
                else:
                    conj.append(x)
            split(a["c"][0])
            for c in conj:
                refs = {x["r"] for x in F.walk(c) if x.get("k") == "DeclRefExpr" and x.get("r") in self.params}
                is_null_test = c is not None and c.get("k") == "BinaryOperator" and c.get("op") in ("!=", "==") and any(
                    sc(z).get("k") in ("CXXNullPtrLiteralExpr", "GNUNullExpr", "IntegerLiteral") for z in c["c"])
                if not refs:
                    continue
                if not (refs <= own and is_null_test and in_then):
                    raise Bad("forwarding of %s into %s is conditional on %s" % (
                        "/".join(self.name(k) for k in own), self.name(key), norm.render(P, c)), asg)

    def copy_loop_leaves(self, key, stores, init):
        """local L filled by L[i][k] = P[i][k] (k literal) in a forward loop i < N, L sized N"""
        P, F = self.P, self.F
        src_param = None
        ks = set()
        size_param = None
        init0 = sc(init) if init is not None else None
        if init0 is not None and init0.get("k") in ("CXXConstructExpr", "CXXTemporaryObjectExpr"):
            a = [x for x in init0.get("c", []) if x is not None and x.get("k") != "CXXDefaultArgExpr"]
            if len(a) == 1 and sc(a[0]).get("k") == "DeclRefExpr":
                size_param = sc(a[0])["r"]
        for n, idx in stores:
            if n.get("op") != "=":
                raise Bad("element of %s modified by %s" % (self.name(key), n.get("op")), n)
            rb, ridx = chain(sc(n["c"][1]))
            if rb.get("k") != "DeclRefExpr" or rb["r"] not in self.params:
                raise Bad("element of %s is set from %s" % (self.name(key), norm.render(P, n["c"][1])), n)
            if src_param not in (None, rb["r"]):
                raise Bad("elements of %s come from different parameters" % self.name(key), n)
            src_param = rb["r"]
            if [norm.render(P, x) for x in idx] != [norm.render(P, x) for x in ridx]:
                raise Bad("element copy permutes indices: %s" % norm.render(P, n), n)
            loop = astq.enclosing(F, n, ("ForStmt",))
            from .layout import forward_loop
            okl, iv, bound = forward_loop(P, F, loop) if loop else (False, None, None)
            if not okl or not astq.is_ref_to(idx[0], iv):
                raise Bad("element copy is not inside a forward loop over the first index: %s" % norm.render(P, n), n)
            if size_param is not None and not astq.is_ref_to(bound, size_param):
                raise Bad("copy loop bound %s differs from the vector size %s" % (norm.render(P, bound), self.name(size_param)), loop)
            if len(idx) > 1:
                ks.add(norm.render(P, idx[1]))
        if ks and ks != {"0", "1", "2"}:
            raise Bad("element copy covers components %s, not {0,1,2}" % sorted(ks), stores[0][0])
        out = [Leaf(src_param, "elementwise", stores[0][0])]
        if size_param is not None:
            out.append(Leaf(size_param, "size", init))
        return out


def chain(n):
    idx = []
    while True:
        n = sc(n)
        s = astq.subscript(n)
        if not s:
            break
        idx.append(s[1])
        n = s[0]
    return n, idx[::-1]


def world_calls(P, F, names=None):
    out = []
    for n in F.walk():
        if n.get("k") == "CXXMemberCallExpr":
            d = P.d(n.get("callee"))
            if d.get("cls") == "WorldBuilder::World" and (names is None or d.get("n") in names):
                out.append(n)
    return out


def check_wrapper(P, rep, F, rule, expect_callee, handle_idx=None, out_idx=None, ignore=(), own_callee=None):
    """F forwards params (minus handle/out/ignored) in declared order to World::<expect_callee>"""
    fw = Forward(P, F)
    calls = world_calls(P, F)
    inst = "%s -> World::%s" % (F.qn, expect_callee)
    if own_callee is not None:
        # C++ wrapper overload that forwards to its sibling (deprecated gravity argument)
        calls = [n for n in F.walk() if n.get("k") == "CXXMemberCallExpr" and P.d(n.get("callee")).get("qn") == own_callee]
    if len(calls) != 1:
        rep.violation(rule, inst, F.loc, F.qn, "%d calls" % len(calls), "wrapper does not make exactly one forwarding call",
                      key="%s|%s|ncalls" % (rule, F.qn))
        return None
    call = calls[0]
    d = P.d(call["callee"])
    if own_callee is None and d.get("n") != expect_callee:
        rep.violation(rule, inst, F.nloc(call), F.qn, d.get("qn"), "wrapper calls World::%s instead of World::%s" % (d.get("n"), expect_callee),
                      key="%s|%s|callee" % (rule, F.qn), witness="any query")
        return None
    args = call["c"][1:]
    data_params = [p for i, p in enumerate(F.params) if i != handle_idx and i != out_idx and i not in ignore]
    try:
        seq = []
        for a in args:
            if a is not None and a.get("k") == "CXXDefaultArgExpr":
                continue
            seq += fw.leaves(a)
    except Bad as b:
        rep.violation(rule, inst, F.nloc(b.node) if b.node else F.nloc(call), F.qn, norm.render(P, call), b.reason,
                      key="%s|%s|arg" % (rule, F.qn), witness="a query whose arguments are not all equal")
        return call
    except Unknown as u:
        rep.unknown(rule, "%s: %s" % (F.qn, u))
        return call
    got = [l.key for l in seq if l.key is not None]
    lits = [l for l in seq if l.key is None]
    if lits:
        rep.violation(rule, inst, F.nloc(call), F.qn, norm.render(P, call), "a literal (%s) is passed where a parameter is expected" % lits[0].form,
                      key="%s|%s|literal" % (rule, F.qn))
        return call
    if got != data_params:
        rep.violation(rule, inst, F.nloc(call), F.qn, norm.render(P, call),
                      "arguments forward (%s); the parameters in declared order are (%s)" % (
                          ", ".join(fw.name(k) for k in got), ", ".join(fw.name(k) for k in data_params)),
                      key="%s|%s|order" % (rule, F.qn), witness="a query with pairwise different coordinates")
        return call
    rep.ok(rule, inst, F.nloc(call), F.qn, "(%s)" % ", ".join("%s:%s" % (fw.name(l.key), l.form) for l in seq))
    return call


def result_reaches(P, rep, F, call, rule, out_idx=None, elementwise=False):
    """the call's value is returned / stored through the out-parameter unchanged"""
    inst = "%s result" % F.qn
    par = F.parent.get(call["i"])
    while par is not None and par.get("k") in norm.CASTS + ("CXXConstructExpr",) and len(par.get("c", [])) == 1:
        par = F.parent.get(par["i"])
    if out_idx is None:
        if par is not None and par.get("k") == "ReturnStmt":
            rep.ok(rule, inst, F.nloc(call), F.qn, "returned directly")
        else:
            rep.violation(rule, inst, F.nloc(call), F.qn, norm.render(P, par), "the result is not returned unchanged",
                          key="%s|%s|result" % (rule, F.qn))
        return
    outk = F.params[out_idx]
    if not elementwise:
        if par is not None and par.get("k") == "BinaryOperator" and par.get("op") == "=":
            lhs = sc(par["c"][0])
            if lhs.get("k") == "UnaryOperator" and lhs.get("op") == "*" and astq.is_ref_to(lhs["c"][0], outk) and sc(par["c"][1]) is call:
                rep.ok(rule, inst, F.nloc(call), F.qn, "*%s = call" % P.d(outk).get("n"))
                return
        rep.violation(rule, inst, F.nloc(call), F.qn, norm.render(P, par), "the result is not stored unchanged through the out-parameter",
                      key="%s|%s|result" % (rule, F.qn))
        return
    # std::vector<double> r = call; for (i < r.size()) values[i] = r[i];
    if not (par is not None and par.get("k") == "VarDecl"):
        rep.unknown(rule, "%s: result of the forwarding call is not bound to a local" % F.qn)
        return
    rk = par["r"]
    copies = []
    for n in F.walk():
        if n.get("k") == "BinaryOperator" and n.get("op") in norm.ASSIGN_OPS:
            s = astq.subscript(n["c"][0])
            if s and astq.is_ref_to(s[0], outk):
                copies.append(n)
    if len(copies) != 1:
        rep.violation(rule, inst, F.loc, F.qn, "%d stores into the out array" % len(copies), "result copy is not a single element-wise loop",
                      key="%s|%s|result" % (rule, F.qn))
        return
    n = copies[0]
    ls = astq.subscript(n["c"][0])
    rs = astq.subscript(n["c"][1])
    loop = astq.enclosing(F, n, ("ForStmt",))
    from .layout import forward_loop
    okl, iv, bound = forward_loop(P, F, loop) if loop else (False, None, None)
    bm = astq.member_call(P, bound, "size") if bound is not None else None
    good = (n.get("op") == "=" and rs and astq.is_ref_to(rs[0], rk) and okl and astq.is_ref_to(ls[1], iv) and astq.is_ref_to(rs[1], iv)
            and bm and astq.is_ref_to(bm[0], rk))
    if good:
        rep.ok(rule, inst, F.nloc(n), F.qn, "values[i] = result[i] for all i < result.size()")
    else:
        rep.violation(rule, inst, F.nloc(n), F.qn, norm.render(P, n), "result values are permuted, transformed or truncated on the way out",
                      key="%s|%s|result" % (rule, F.qn), witness="request with two or more values")


def world_field_name(P):
    """the name of the one `void *` data member of wrapper_cpp::WorldBuilderWrapper (the stored world)"""
    names = set()
    for F in P.funcs.values():
        if F.body is None or not F.qn.startswith("wrapper_cpp::WorldBuilderWrapper::"):
            continue
        for ini in (F.inits or []):
            if ini.get("n"):
                names.add(ini["n"])
        for x in F.walk():
            if x.get("k") == "MemberExpr" and astq.is_this_field(P, x) and (x.get("t") or "").replace(" ", "") == "void*":
                names.add(x.get("n"))
    if len(names) != 1:
        raise AnalysisBroken("WorldBuilderWrapper: %d candidate members for the stored world (%s)" % (len(names), sorted(names)))
    return names.pop()


def see_through_accessor(P, F, src):
    """`accessor(x)` with a file-local `T *accessor(void *p) { return cast<T *>(p); }` stands for x"""
    src = sc(src)
    if src is not None and src.get("k") == "CallExpr" and P.d(src.get("callee")).get("k") == "Function":
        hc = norm.helper_call(P, F, src)
        if hc is not None:
            params, body, args, G = hc
            b0 = sc(body)
            if b0 is not None and b0.get("k") == "UnaryOperator" and b0.get("op") == "*":
                b0 = sc(b0["c"][0])
            if len(params) == 1 and b0 is not None and b0.get("k") == "DeclRefExpr" and b0.get("r") == params[0]:
                return sc(args[0])
    return src


def handle_cast(P, rep, F, call, rule, handle_idx):
    """receiver of the forwarding call is reinterpret_cast<World*>(handle parameter)"""
    me = call["c"][0]
    base = me["c"][0] if me.get("c") else None
    b = base
    fw = Forward(P, F)
    hk = F.params[handle_idx] if handle_idx is not None else None
    src = sc(b)
    if src is not None and src.get("k") == "DeclRefExpr" and P.d(src["r"]).get("storage") == "local":
        init = fw.inits.get(src["r"])
        if fw.assigns.get(src["r"]):
            rep.violation(rule, "%s handle" % F.qn, F.nloc(call), F.qn, norm.render(P, base), "world pointer reassigned", key="%s|%s|handle" % (rule, F.qn))
            return
        src = sc(init)
    # a file-local accessor `World *get_world(void *p) { return static_cast<World *>(p); }`
    if src is not None and src.get("k") == "CallExpr" and P.d(src.get("callee")).get("k") == "Function":
        hc = norm.helper_call(P, F, src)
        if hc is not None:
            params, body, args, G = hc
            b0 = sc(body)
            if b0 is not None and b0.get("k") == "UnaryOperator" and b0.get("op") == "*":      # returned by reference
                b0 = sc(b0["c"][0])
            if len(params) == 1 and b0 is not None and b0.get("k") == "DeclRefExpr" and b0.get("r") == params[0]:
                src = sc(args[0])
    if hk is None:
        # C++ wrapper: its one void* member
        ok = src is not None and astq.is_this_field(P, src, world_field_name(P))
    else:
        ok = src is not None and astq.is_ref_to(src, hk)
    if ok:
        rep.ok(rule, "%s handle" % F.qn, F.nloc(call), F.qn, "receiver is the handle cast back to World*")
    else:
        rep.violation(rule, "%s handle" % F.qn, F.nloc(call), F.qn, norm.render(P, base), "receiver is not the caller's handle",
                      key="%s|%s|handle" % (rule, F.qn))


# ------------------------------------------------------------------------------------------------
def convenience_members(P, rep, rule="FWD.single"):
    """World::temperature/composition/grains = properties(point, depth, {{kind, n, k}})[0] of the same dimension"""
    rep.rule(rule, "the single-property members call World::properties of the same dimension with (point, depth) unchanged "
                   "and the one-element request {kind, composition_number, n_grains}, and return element 0 (grains: the "
                   "view at offset 0 with the same grain count)")
    spec = {"temperature": (1, None, None), "composition": (2, 2, None), "grains": (3, 2, 3)}
    n_inst = 0
    for name, (kind, comp_idx, ng_idx) in spec.items():
        for F in P.funcs_named("WorldBuilder::World::" + name):
            n_inst += 1
            inst = "%s/%d%s" % (F.qn, len(F.params), "[%s]" % P.d(F.params[0]).get("t", "")[-12:])
            calls = world_calls(P, F, {"properties"})
            if len(calls) != 1:
                rep.violation(rule, inst, F.loc, F.qn, "%d calls to properties" % len(calls), "not a single forwarding call",
                              key="%s|%s|%d|ncalls" % (rule, F.qn, len(F.params)))
                continue
            call = calls[0]
            cd = P.d(call["callee"])
            args = call["c"][1:]
            dim_ok = cd.get("pt", [{}])[0].get("t") == P.d(F.params[0]).get("t")
            problems = []
            if not dim_ok:
                problems.append("forwards to the %s overload" % cd.get("pt", [{}])[0].get("t"))
            if not astq.is_ref_to(args[0], F.params[0]):
                problems.append("point argument is %s" % norm.render(P, args[0]))
            if not astq.is_ref_to(args[1], F.params[1]):
                problems.append("depth argument is %s" % norm.render(P, args[1]))
            # request literal
            req = sc(args[2])
            elems = flatten_init(req)
            if len(elems) != 3:
                problems.append("request is %s, not one {kind, n, k} triple" % norm.render(P, args[2]))
            else:
                e0, e1, e2 = [sc(x) for x in elems]
                if not (e0.get("k") == "IntegerLiteral" and e0["v"] == kind):
                    problems.append("request kind is %s, expected %d" % (norm.render(P, e0), kind))
                if comp_idx is None:
                    if not (e1.get("k") == "IntegerLiteral" and e1["v"] == 0):
                        problems.append("request[1] is %s, expected 0" % norm.render(P, e1))
                elif not astq.is_ref_to(e1, F.params[comp_idx]):
                    problems.append("request[1] is %s, expected the composition number" % norm.render(P, e1))
                if ng_idx is None:
                    if not (e2.get("k") == "IntegerLiteral" and e2["v"] == 0):
                        problems.append("request[2] is %s, expected 0" % norm.render(P, e2))
                elif not astq.is_ref_to(e2, F.params[ng_idx]):
                    problems.append("request[2] is %s, expected the number of grains" % norm.render(P, e2))
            # result
            par = F.parent.get(call["i"])
            while par is not None and par.get("k") in norm.CASTS:
                par = F.parent.get(par["i"])
            if name != "grains":
                s = astq.subscript(par)
                gp = F.parent.get(par["i"]) if par is not None else None
                while gp is not None and gp.get("k") in norm.CASTS:
                    gp = F.parent.get(gp["i"])
                if not (s and sc(s[0]) is call and sc(s[1]).get("k") == "IntegerLiteral" and sc(s[1])["v"] == 0 and gp is not None and gp.get("k") == "ReturnStmt"):
                    problems.append("result is %s, expected properties(...)[0] returned" % norm.render(P, par))
            else:
                if not (par is not None and par.get("k") in ("CXXConstructExpr", "CXXTemporaryObjectExpr") and "grains" in par.get("t", "") and len(par["c"]) == 3
                        and astq.is_ref_to(par["c"][1], F.params[ng_idx]) and sc(par["c"][2]).get("k") == "IntegerLiteral" and sc(par["c"][2])["v"] == 0):
                    problems.append("result is %s, expected grains(properties(...), number_of_grains, 0)" % norm.render(P, par))
            if problems:
                rep.violation(rule, inst, F.nloc(call), F.qn, norm.render(P, call), "; ".join(problems),
                              key="%s|%s|%d|%s" % (rule, F.qn, len(F.params), P.d(F.params[0]).get("t", "")[-4:]),
                              witness="compare the single-property member with the batched request")
            else:
                rep.ok(rule, inst, F.nloc(call), F.qn, norm.render(P, call))
    rep.floor(rule, n_inst, 8, "single-property members")


def flatten_init(n):
    n = sc(n)
    if n is None:
        return []
    if n.get("k") in ("InitListExpr", "CXXConstructExpr", "CXXTemporaryObjectExpr"):
        out = []
        for c in n.get("c", []):
            if c is not None and c.get("k") != "CXXDefaultArgExpr":
                out += flatten_init(c)
        return out
    return [n]
