"""SIB — cross-checking siblings (DESIGN §3.5).

Model classes are copy-paste siblings: the same documented model offered by several feature types.
Each member function is put into a normal form (family namespaces abstracted, locals and parameters
alpha-renamed in order of first occurrence, casts dropped, debug assertions and diagnostic strings
removed) and compared with its siblings.  A difference is a violation unless it is listed, with a
reason, in spec/sibling_exceptions.json."""
import difflib
import json
import os
import re

from .. import astq, norm
from ..astq import sc
from ..tu import AnalysisBroken, VERIF

FEATURE_TYPES = ("ContinentalPlate", "OceanicPlate", "MantleLayer", "SubductingPlate", "Fault", "Plume")
AREA = ("ContinentalPlate", "OceanicPlate", "MantleLayer")
LINE = ("SubductingPlate", "Fault")
MODEL_RE = re.compile(r"^WorldBuilder::Features::(\w+)Models::(Temperature|Composition|Grains|Velocity)::(\w+)$")
NS_RE = re.compile(r"\b(ContinentalPlate|OceanicPlate|MantleLayer|SubductingPlate|Fault|Plume)(Models)?\b")
WORDS_RE = re.compile(r"\b(continental plate|oceanic plate|mantle layer|subducting plate|fault|plume|slab)\b", re.I)


def is_model(P, qn, m):
    """a real model class (the WB_REGISTER_* macros add factory classes to the same namespaces)"""
    return P.derived_from(qn, "WorldBuilder::Features::%sModels::%s::Interface" % (m.group(1), m.group(2)))


def abstract(s):
    return NS_RE.sub(lambda m: "X" + (m.group(2) or ""), s)


INLINE_CONST_LOCALS = True


class Canon:
    """canonical rendering of one function body"""

    def __init__(self, P, F, alias_params=True, alias_locals=True):
        self.P, self.F = P, F
        self.alias_locals = alias_locals
        self.alias = {}
        for i, p in enumerate(F.params):
            self.alias[p] = ("p%d" % i) if alias_params else P.d(p).get("n", "p%d" % i)
        self.nloc = 0
        # where the caller compares by local names (alias_locals=False) the names are anchors and stay
        sub = norm.naming_locals(P, F) if (INLINE_CONST_LOCALS and alias_locals) else norm.Subst()
        self.inl = sub.vals
        self.lams = sub.lams
        self.absorbed = set()
        if INLINE_CONST_LOCALS and alias_locals:
            self._if_convert()

    def _if_convert(self):
        """`double x = L; if (c) { x = E; }` (optionally `else { x = E2; }`) where these are the only writes of the scalar local x,
        nothing between the two statements mentions x, and c, L, E, E2 read only parameters, members and const locals, is the
        statement form of `const double x = c ? E : L`: x then stands for that conditional expression and the if is not emitted.
        A one-armed or two-armed conditional assignment and the conditional operator are one computation."""
        P, F = self.P, self.F
        writes = {}
        for n in F.walk(F.body):
            k = n.get("k")
            if k in ("BinaryOperator", "CompoundAssignOperator") and n.get("op") in norm.ASSIGN_OPS and n.get("c"):
                t = sc(n["c"][0])
                if t is not None and t.get("k") == "DeclRefExpr":
                    writes.setdefault(t["r"], []).append(n)
            elif k == "UnaryOperator" and n.get("op") in ("++", "--", "&") and n.get("c"):
                t = sc(n["c"][0])
                if t is not None and t.get("k") == "DeclRefExpr":
                    writes.setdefault(t["r"], []).append(None)

        def const_leaves(e, later):
            for y in F.walk(e):
                ky = y.get("k")
                if ky == "DeclRefExpr":
                    d = P.d(y["r"])
                    if d.get("storage") in ("local", "param", "static_local"):
                        if y["r"] in self.inl:
                            continue
                        ty = (y.get("t") or d.get("t") or "")
                        if not (ty.startswith("const ") or d.get("const")):
                            # a variable leaf keeps its value from the declaration of x to the end of x's scope when none of
                            # its writes lies in that stretch of the block
                            if y["r"] in later or not norm.is_arith(ty):
                                return False
                elif ky in ("BinaryOperator", "CompoundAssignOperator") and y.get("op") in norm.ASSIGN_OPS:
                    return False
                elif ky == "UnaryOperator" and y.get("op") in ("++", "--"):
                    return False
                elif ky in ("CallExpr", "CXXMemberCallExpr", "CXXOperatorCallExpr", "LambdaExpr", "CXXNewExpr", "CXXThrowExpr", "CXXConstructExpr"):
                    if ky in ("CallExpr",) and y.get("callee") and (P.d(y["callee"]).get("qn") or "").startswith("std::"):
                        continue
                    return False
            return True

        def single_assign(st, key):
            if st is None:
                return None
            if st.get("k") == "CompoundStmt":
                kids = [x for x in (st.get("c") or []) if x is not None]
                if len(kids) != 1:
                    return None
                st = kids[0]
            st0 = sc(st)
            if st0 is None or st0.get("k") != "BinaryOperator" or st0.get("op") != "=":
                return None
            t = sc(st0["c"][0])
            if t is None or t.get("k") != "DeclRefExpr" or t.get("r") != key:
                return None
            return st0

        for blk in F.walk(F.body):
            if blk.get("k") != "CompoundStmt":
                continue
            kids = [x for x in (blk.get("c") or []) if x is not None]
            for i, x in enumerate(kids):
                if not (x.get("k") == "DeclStmt" and len(x.get("c") or []) == 1 and x["c"][0].get("k") == "VarDecl" and x["c"][0].get("c")):
                    continue
                v = x["c"][0]
                key = v["r"]
                t = v.get("t", "")
                if t.startswith("const ") or not norm.is_arith(t) or key in self.inl:
                    continue
                d = P.d(key)
                if d.get("storage") != "local":
                    continue
                # the next statement that mentions x must be the conditional assignment
                j = None
                for jj in range(i + 1, len(kids)):
                    if any(y.get("k") == "DeclRefExpr" and y.get("r") == key for y in F.walk(kids[jj])):
                        j = jj
                        break
                if j is None or kids[j].get("k") != "IfStmt":
                    continue
                ifs = kids[j]
                c = ifs.get("c") or []
                if len(c) < 3 or c[0] is None:
                    continue
                a1 = single_assign(c[1], key)
                a2 = single_assign(c[2], key) if c[2] is not None else None
                if a1 is None or (c[2] is not None and a2 is None):
                    continue
                ws = writes.get(key, [])
                if len(ws) != (1 if a2 is None else 2) or any(w is None for w in ws) or any(w is not a1 and w is not a2 for w in ws):
                    continue
                L = v["c"][0]
                parts = [c[0], a1["c"][1], L] + ([a2["c"][1]] if a2 is not None else [])
                if any(y.get("k") == "DeclRefExpr" and y.get("r") == key for e in parts for y in F.walk(e)):
                    continue
                later = set()
                for st in kids[i:]:
                    for y in F.walk(st):
                        if y.get("k") in ("BinaryOperator", "CompoundAssignOperator") and y.get("op") in norm.ASSIGN_OPS and y.get("c"):
                            for z in F.walk(y["c"][0]):
                                if z.get("k") == "DeclRefExpr":
                                    later.add(z["r"])
                        elif y.get("k") == "UnaryOperator" and y.get("op") in ("++", "--", "&") and y.get("c"):
                            for z in F.walk(y["c"][0]):
                                if z.get("k") == "DeclRefExpr":
                                    later.add(z["r"])
                later.discard(key)
                if not all(const_leaves(e, later) for e in parts):
                    continue
                other = a2["c"][1] if a2 is not None else L
                self.inl = dict(self.inl)
                self.inl[key] = {"k": "ConditionalOperator", "t": t, "c": [c[0], a1["c"][1], other]}
                self.absorbed.add(id(ifs))

    def name(self, key, d):
        if key in self.alias:
            return self.alias[key]
        st = d.get("storage")
        if st in ("local", "param", "static_local") and not self.alias_locals:
            return d.get("n", "?")
        if st in ("local", "param", "static_local"):
            self.nloc += 1
            self.alias[key] = "v%d" % self.nloc
            return self.alias[key]
        return abstract(d.get("qn") or d.get("n") or "?")

    def e(self, n, depth=0):
        P = self.P
        if n is None:
            return ""
        if depth > 60:
            return "…"
        n = sc(n)
        if n is None:
            return ""
        k = n.get("k")
        c = n.get("c") or []
        r = lambda x: self.e(x, depth + 1)
        if k == "DeclRefExpr":
            if n["r"] in self.inl:
                return r(self.inl[n["r"]])      # a named constant / alias stands for its initialiser
            return self.name(n["r"], P.d(n["r"]))
        if k == "MemberExpr":
            base = c[0] if c else None
            b0 = sc(base) if base is not None else None
            if b0 is None or b0.get("k") == "CXXThisExpr":
                return "this." + n.get("n", "?")
            return r(base) + ("->" if n.get("arrow") else ".") + n.get("n", "?")
        if k == "CXXThisExpr":
            return "this"
        if k == "IntegerLiteral":
            return str(n.get("v"))
        if k == "FloatingLiteral":
            return repr(float(n.get("v")))
        if k == "CXXBoolLiteralExpr":
            return "true" if n.get("v") else "false"
        if k == "StringLiteral":
            return '"%s"' % WORDS_RE.sub("<feature>", n.get("v", ""))
        if k == "CharacterLiteral":
            return "'%s'" % chr(n.get("v", 63))
        if k == "UnaryOperator":
            return (r(c[0]) + n["op"]) if n.get("post") else (n["op"] + r(c[0]))
        if k in ("BinaryOperator", "CompoundAssignOperator"):
            if n["op"] in ("==", "!=") and sc(c[1]).get("k") == "CXXBoolLiteralExpr":
                neg = (sc(c[1]).get("v") is False) == (n["op"] == "==")
                return ("!" if neg else "") + r(c[0])
            a, b = r(c[0]), r(c[1])
            op = n["op"]
            if k == "BinaryOperator" and op in ("+", "-", "*", "/") and (n.get("t") or "").replace("const ", "") == "double":
                # an integer literal operand of a double operation is converted to that double: 180 and 180.0 are one value
                if sc(c[0]).get("k") == "IntegerLiteral" and "double" in (sc(c[1]).get("t") or ""):
                    a = repr(float(sc(c[0]).get("v")))
                if sc(c[1]).get("k") == "IntegerLiteral" and "double" in (sc(c[0]).get("t") or ""):
                    b = repr(float(sc(c[1]).get("v")))
            if op in ("+", "*") and b < a:
                a, b = b, a      # builtin + and * are commutative bit for bit (no re-association is done)
            if op == ">":
                a, b, op = b, a, "<"
            elif op == ">=":
                a, b, op = b, a, "<="
            return "(%s %s %s)" % (a, op, b)
        if k == "ConditionalOperator":
            c0 = sc(c[0])
            if c0 is not None and c0.get("k") == "UnaryOperator" and c0.get("op") == "!" and not c0.get("post"):
                return "(%s ? %s : %s)" % (r(c0["c"][0]), r(c[2]), r(c[1]))      # !c ? a : b is c ? b : a
            return "(%s ? %s : %s)" % (r(c[0]), r(c[1]), r(c[2]))
        if k == "ArraySubscriptExpr":
            return "%s[%s]" % (r(c[0]), r(c[1]))
        if k == "CXXOperatorCallExpr":
            op = n.get("op")
            if op == "[]":
                return "%s[%s]" % (r(c[0]), r(c[1]))
            lc = norm.lambda_call(n, norm.Subst(lams=self.lams)) if self.lams else None
            if lc is not None:
                # a call of a single-return local lambda stands for its body with the arguments substituted
                params, body, args = lc
                saved = {pk: self.alias.get(pk) for pk in params}
                vals = [r(a) for a in args]
                for pk, v in zip(params, vals):
                    self.alias[pk] = v
                try:
                    return r(body)
                finally:
                    for pk, v in saved.items():
                        if v is None:
                            self.alias.pop(pk, None)
                        else:
                            self.alias[pk] = v
            if op == "()":
                return "%s(%s)" % (r(c[0]), ", ".join(r(x) for x in c[1:]))
            if len(c) == 1:
                return "%s%s" % (op, r(c[0]))
            if len(c) == 2:
                # comparing a string with "" is asking whether it is empty
                if op in ("==", "!="):
                    for me, other in ((c[0], c[1]), (c[1], c[0])):
                        lit = None
                        for z in self.F.walk(other):
                            if z.get("k") == "StringLiteral":
                                lit = z
                        if lit is not None and lit.get("v", None) == "" and sc(other).get("k") in ("StringLiteral", "CXXConstructExpr", "MaterializeTemporaryExpr", "ImplicitCastExpr", "CXXBindTemporaryExpr"):
                            return ("%s.empty()" if op == "==" else "!%s.empty()") % r(me)
                a, b = r(c[0]), r(c[1])
                if op == ">":
                    a, b, op = b, a, "<"
                elif op == ">=":
                    a, b, op = b, a, "<="
                return "(%s %s %s)" % (a, op, b)
            return "operator%s(%s)" % (op, ", ".join(r(x) for x in c))
        if k == "CXXMemberCallExpr":
            args = [x for x in c[1:] if x is None or x.get("k") != "CXXDefaultArgExpr"]
            if c[0].get("n") == "declare_entry" and len(args) == 3:
                args = args[:2]          # the third argument is documentation text
            callee = r(c[0])
            # spellings of one operation
            if callee.endswith(".resize") and len(args) == 1 and sc(args[0]).get("k") == "IntegerLiteral" and sc(args[0]).get("v") == 0:
                return "%s.clear()" % callee[:-len(".resize")]
            if callee.endswith(".push_back"):
                callee = callee[:-len(".push_back")] + ".emplace_back"
            return "%s(%s)" % (callee, ", ".join(r(x) for x in args))
        if k == "CallExpr":
            d = P.d(n.get("callee")) if n.get("callee") else {}
            hc = norm.helper_call(P, self.F, n) if self.inl is not None and INLINE_CONST_LOCALS and depth < 50 else None
            if hc is not None:
                # a single-return helper of the same source file: compare what it computes, not how it is named
                params, body, hargs, G = hc
                sub = Canon(P, G, alias_params=False)
                sub.alias = dict(self.alias)
                sub.nloc = self.nloc
                for pk, a in zip(params, hargs):
                    sub.alias[pk] = r(a)
                return sub.e(body, depth + 1)
            nm = abstract(d.get("qn") or (r(c[0]) if c else "?"))
            nm = re.sub(r"^(std::)?(fabs|abs)$", "fabs", nm)
            nm = re.sub(r"^std::(exp|sqrt|sin|cos|tan|pow|erfc|floor|log)$", r"\1", nm)
            return "%s(%s)" % (nm, ", ".join(r(x) for x in c[1:] if x is None or x.get("k") != "CXXDefaultArgExpr"))
        if k in ("CXXConstructExpr", "CXXTemporaryObjectExpr"):
            args = [x for x in c if x is not None and x.get("k") != "CXXDefaultArgExpr"]
            if len(args) == 1 and (n.get("copy") or n.get("elidable")):
                return r(args[0])
            t = abstract(norm.short_type(n.get("t", "")))
            return "%s(%s)" % (t, ", ".join(r(x) for x in args))
        if k == "InitListExpr":
            return "{%s}" % ", ".join(r(x) for x in c)
        if k in ("CXXDefaultArgExpr", "CXXDefaultInitExpr"):
            return r(c[0]) if c else ""
        if k == "LambdaExpr":
            op = P.funcs.get(n.get("lam"))
            if op is not None:
                return "[lambda %s]" % " ; ".join(Canon(P, op).lines())
            return "[lambda]"
        if k == "CXXNewExpr":
            return "new %s(%s)" % (abstract(norm.short_type(n.get("alloc", ""))), ", ".join(r(x) for x in c))
        if k == "CXXThrowExpr":
            return "throw"
        return "%s(%s)" % (k, ", ".join(r(x) for x in c if x is not None))

    def lines(self):
        out = []
        F = self.F
        for ini in F.inits or []:
            if ini.get("written"):
                out.append("init %s(%s)" % (ini.get("n") or abstract(ini.get("base", "")), ", ".join(self.e(x) for x in ini.get("c", []))))
        self.s(F.body, 0, out)
        return out

    def s_decl(self, n, ind, out):
        pad = "  " * ind
        for v in n.get("c") or []:
            if v.get("k") == "VarDecl":
                if v["r"] in self.inl or v["r"] in self.lams:
                    continue
                d = self.P.d(v["r"])
                nm = self.name(v["r"], d)
                init = self.e(v["c"][0]) if v.get("c") else ""
                out.append("%s%s %s = %s" % (pad, abstract(norm.short_type(v.get("t", ""))).replace("const ", ""), nm, init))

    def s(self, n, ind, out):
        if n is None:
            return
        k = n.get("k")
        pad = "  " * ind
        c = n.get("c") or []
        if k == "CompoundStmt":
            # a scalar declared with a literal initialiser has no effect until it is used: its place among independent
            # statements is not behaviour, so it is emitted right in front of the first statement that mentions it
            pending = []
            for x in c:
                if x is None:
                    continue
                if x.get("k") == "DeclStmt" and len(x.get("c") or []) == 1 and x["c"][0].get("k") == "VarDecl" and x["c"][0].get("c") \
                        and norm.is_arith(x["c"][0].get("t", "")) and sc(x["c"][0]["c"][0]) is not None \
                        and sc(x["c"][0]["c"][0]).get("k") in ("IntegerLiteral", "FloatingLiteral", "CXXBoolLiteralExpr"):
                    pending.append(x)
                    continue
                if pending:
                    used = {y.get("r") for y in self.F.walk(x) if y.get("k") == "DeclRefExpr"}
                    for pd in [p_ for p_ in pending if p_["c"][0]["r"] in used]:
                        self.s_decl(pd, ind, out)
                        pending.remove(pd)
                self.s(x, ind, out)
            for pd in pending:
                self.s_decl(pd, ind, out)
        elif k == "DeclStmt":
            for v in c:
                if v.get("k") == "VarDecl":
                    if v["r"] in self.inl or v["r"] in self.lams:
                        continue
                    d = self.P.d(v["r"])
                    nm = self.name(v["r"], d)
                    init = self.e(v["c"][0]) if v.get("c") else ""
                    out.append("%s%s %s = %s" % (pad, abstract(norm.short_type(v.get("t", ""))).replace("const ", ""), nm, init))
        elif k == "DoStmt" and n.get("m") in ("WBAssert", "WBAssertThrow", "WBAssertThrowExc"):
            if n.get("m") == "WBAssert":
                return
            cond = None
            for x in self.F.walk(n):
                if x.get("k") == "IfStmt" and x.get("m") == n.get("m") and not x.get("ma"):
                    cc = sc(x["c"][0])
                    cond = sc(cc["c"][0]) if cc.get("k") == "UnaryOperator" and cc.get("op") == "!" else cc
                    break
            out.append("%sASSERT_THROW %s" % (pad, self.e(cond)))
        elif k == "IfStmt" and id(n) in self.absorbed:
            return
        elif k == "IfStmt":
            out.append("%sif %s" % (pad, self.e(c[0])))
            self.s(c[1], ind + 1, out)
            if c[2] is not None:
                out.append("%selse" % pad)
                self.s(c[2], ind + 1, out)
        elif k == "ForStmt":
            hdr = []
            self.s(c[0], 0, hdr)
            # the counter of a counting loop: its unsigned type (unsigned int / size_t) does not change what the loop does
            hdr = [re.sub(r"^(unsigned int|unsigned long|size_t|std::size_t|unsigned) ", "index ", h) for h in hdr]
            out.append("%sfor %s ; %s ; %s" % (pad, " ".join(hdr), self.e(c[1]), self.e(c[2])))
            self.s(c[3], ind + 1, out)
        elif k == "CXXForRangeStmt":
            v = c[0]
            nm = self.name(v["r"], self.P.d(v["r"]))
            out.append("%sfor %s : %s" % (pad, nm, self.e(c[1])))
            self.s(c[2], ind + 1, out)
        elif k == "WhileStmt":
            out.append("%swhile %s" % (pad, self.e(c[0])))
            self.s(c[1], ind + 1, out)
        elif k == "DoStmt":
            out.append("%sdo" % pad)
            self.s(c[0], ind + 1, out)
            out.append("%swhile %s" % (pad, self.e(c[1])))
        elif k == "SwitchStmt":
            out.append("%sswitch %s" % (pad, self.e(c[0])))
            self.s(c[1], ind + 1, out)
        elif k == "CaseStmt":
            out.append("%scase %s:" % (pad, self.e(c[0])))
            self.s(c[1], ind + 1, out)
        elif k == "DefaultStmt":
            out.append("%sdefault:" % pad)
            self.s(c[0], ind + 1, out)
        elif k == "ReturnStmt":
            out.append("%sreturn %s" % (pad, self.e(c[0]) if c else ""))
        elif k in ("BreakStmt", "ContinueStmt", "NullStmt"):
            if k != "NullStmt":
                out.append(pad + k[:-4].lower())
        else:
            out.append(pad + self.e(n))


REWRITES = []


def model_classes(P):
    fam = {}
    for qn in P.records:
        m = MODEL_RE.match(qn)
        if m and (m.group(3) != "Interface" and is_model(P, qn, m)):
            fam.setdefault((m.group(2), m.group(3)), {})[m.group(1)] = qn
    return fam


def load_spec():
    p = os.path.join(VERIF, "spec", "sibling_exceptions.json")
    if not os.path.exists(p):
        return {"exceptions": [], "rewrites": []}
    return json.load(open(p))


def load_exceptions():
    return load_spec()["exceptions"]


def apply_rewrites(lines, member, rewrites):
    out = []
    for l in lines:
        for rw in rewrites:
            if rw["member"] == member:
                l = re.sub(rw["pattern"], rw["replace"], l)
        out.append(l)
    return out


def methods_of(P, cls):
    out = {}
    for F in P.funcs.values():
        if F.qn.rsplit("::", 1)[0] == cls and F.body is not None:
            nm = F.name
            if nm.startswith("~"):
                continue
            if nm == cls.rsplit("::", 1)[1]:
                nm = "<ctor>/%d" % len(F.params)
            out.setdefault(nm, F)
    return out


def diff_lines(a, b):
    """(removed from a, added in b) line lists"""
    sm = difflib.SequenceMatcher(a=a, b=b, autojunk=False)
    rem, add = [], []
    for tag, i1, i2, j1, j2 in sm.get_opcodes():
        if tag != "equal":
            rem += a[i1:i2]
            add += b[j1:j2]
    return rem, add


def compare_family(P, rep, rule, kind, name, members, group, exceptions, method_filter=None, stats=None):
    """members: {feature type: class qn} restricted to `group` (siblings with the same interface)"""
    present = [f for f in group if f in members]
    if len(present) < 2:
        return
    canon = {}
    meths = {}
    for f in present:
        meths[f] = methods_of(P, members[f])
    names = set()
    for f in present:
        names |= set(meths[f])
    for mname in sorted(names):
        if method_filter and not method_filter(mname):
            continue
        have = [f for f in present if mname in meths[f]]
        if len(have) != len(present):
            rep.violation(rule, "%s::%s::%s is missing in %s" % (kind, name, mname, [f for f in present if f not in have]), meths[have[0]][mname].loc,
                          meths[have[0]][mname].qn, "", "sibling implementations do not offer the same members",
                          key="%s|%s|%s|%s|missing" % (rule, kind, name, mname))
            continue
        forms = {}
        for f in have:
            lines = Canon(P, meths[f][mname]).lines()
            forms[f] = apply_rewrites(lines, f, REWRITES)
        if stats is not None:
            stats["functions"] += len(have)
        # group identical forms
        groups = {}
        for f in have:
            groups.setdefault("\n".join(forms[f]), []).append(f)
        if len(groups) == 1:
            rep.ok(rule, "%s::%s::%s identical in %s" % (kind, name, mname, "/".join(have)), meths[have[0]][mname].loc, meths[have[0]][mname].qn)
            continue
        # reference = the largest group (ties: first in declared order)
        ref_members = max(groups.values(), key=lambda g: (len(g), -have.index(g[0])))
        ref = ref_members[0]
        for txt, g in groups.items():
            if g is ref_members:
                continue
            for f in g:
                rem, add = diff_lines(forms[ref], forms[f])
                F = meths[f][mname]
                # known, explained difference?
                exc = match_exception(exceptions, kind, name, mname, ref, f, rem, add)
                if exc is not None:
                    rep.ok(rule, "%s::%s::%s: %s differs from %s as documented: %s" % (kind, name, mname, f, ref, exc["reason"][:100]), F.loc, F.qn)
                    continue
                two = len(have) == 2
                um = unmodelled(rem + add)
                if um:
                    # the difference involves an idiom the canonical form does not model (a standard algorithm instead of a loop,
                    # continue-style guards, a multi-statement helper): it cannot tell a restatement from a change
                    rep.unknown(rule, "%s::%s::%s: %s and %s differ in lines using %s, which the sibling comparison does not model" % (kind, name, mname, f, ref, um))
                    continue
                rep.violation(rule, "%s::%s::%s: %s deviates from %s" % (kind, name, mname, f, "/".join(ref_members)), F.loc, F.qn,
                              "- " + " | ".join(x.strip() for x in rem[:4]) + "  + " + " | ".join(x.strip() for x in add[:4]),
                              "siblings implement one documented model; %s" % (
                                  "the two differ and the difference is not in the table of explained differences" if two else
                                  "this one differs from the majority"),
                              key="%s|%s|%s|%s|%s" % (rule, kind, name, mname, f),
                              witness="the same model parameters in a %s and in a %s" % (f, ref))


UNMODELLED_RE = re.compile(r"\b(std::find(_if)?|std::transform|std::copy(_n)?|std::distance|std::accumulate|std::any_of|std::all_of|std::none_of|std::for_each|std::fill(_n)?|std::max_element|std::min_element|std::rotate_copy)\b|\[lambda|\(anonymous namespace\)::\w+\(")


def unmodelled(lines):
    """names of idioms in the differing lines that the canonical form has no normal form for"""
    found = []
    for l in lines:
        m = UNMODELLED_RE.search(l)
        if m:
            t = m.group(0).strip()
            if t not in found:
                found.append(t)
    return ", ".join(found)


def match_exception(exceptions, kind, name, mname, ref, f, rem, add):
    for e in exceptions:
        if e["kind"] != kind or e["model"] not in (name, "*") or e["method"] not in (mname, "*"):
            continue
        if e.get("member") not in (None, f, "*"):
            continue
        # every differing line must match one of the listed patterns
        pats = [re.compile(p) for p in e["lines"]]
        lines = [x.strip() for x in rem + add]
        if lines and all(any(p.search(l) for p in pats) for l in lines):
            return e
    return None


def model_families(P, rep, rule="SIB.models", kinds=None, method_filter=None, floor=14):
    rep.rule(rule, "the member functions of sibling model classes (same kind and name under the area-feature namespaces "
                   "ContinentalPlate/OceanicPlate/MantleLayer, resp. under SubductingPlate/Fault) are identical in normal form "
                   "(namespaces abstracted, locals alpha-renamed, casts and debug assertions dropped); every difference must be in "
                   "spec/sibling_exceptions.json with a reason")
    fam = model_classes(P)
    exceptions = load_exceptions()
    global REWRITES
    REWRITES = load_spec().get("rewrites", [])
    stats = {"functions": 0}
    nfam = 0
    for (kind, name), members in sorted(fam.items()):
        if kinds and kind not in kinds:
            continue
        for group in (AREA, LINE):
            if sum(1 for f in group if f in members) >= 2:
                nfam += 1
                compare_family(P, rep, rule, kind, name, members, group, exceptions, method_filter, stats)
    rep.floor(rule, nfam, floor, "sibling groups compared")
    rep.analysed["sibling_functions_compared"] = stats["functions"]
    return fam
