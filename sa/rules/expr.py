"""EXPR — algebraic form of single expressions / straight-line blocks (DESIGN §3.6)."""
import sympy as sp

from .. import astq, norm
from ..astq import sc
from ..tu import AnalysisBroken


class Block:
    """fold a statement list in order, tracking element stores X[k] = e and whole assignments to the
    named variables/fields; if-statements are resolved by `choose(cond_node) -> True/False/None`"""

    def __init__(self, P, F, choose=None, hook=None):
        self.P, self.F = P, F
        self.choose = choose or (lambda c: None)
        self.state = {}      # ("elem", key, k) / ("var", key) -> sympy
        self.loops = None    # set to [] to evaluate for-loops as one symbolic iteration
        self.decide_ternaries = False   # opt-in: resolve `c ? a : b` through `choose` like an if-statement
        self.user_hook = hook
        self.sym = norm.Sym(P, F, inline_locals=False, hook=self.hook)

    def target_key(self, n):
        n = sc(n)
        if n is None:
            return None
        if n.get("k") == "DeclRefExpr":
            return ("v", n["r"])
        if n.get("k") == "MemberExpr" and astq.is_this_field(self.P, n):
            return ("f", n["r"])
        return None

    def decide(self, c):
        """truth of a condition under `choose`: conjunctions, disjunctions and negations of decided conditions are decided"""
        c = sc(c)
        if c is None:
            return None
        if c.get("k") == "ParenExpr":
            return self.decide(c["c"][0])
        v = self.choose(c)
        if v is not None:
            return v
        if c.get("k") == "UnaryOperator" and c.get("op") == "!":
            v = self.decide(c["c"][0])
            return None if v is None else (not v)
        if c.get("k") == "BinaryOperator" and c.get("op") in ("&&", "||"):
            a, b = self.decide(c["c"][0]), self.decide(c["c"][1])
            if c["op"] == "&&":
                if a is False or b is False:
                    return False
                return True if (a is True and b is True) else None
            if a is True or b is True:
                return True
            return False if (a is False and b is False) else None
        if c.get("k") == "DeclRefExpr":      # a named bool
            nl = norm.naming_locals(self.P, self.F)
            if c.get("r") in nl.vals:
                return self.decide(nl.vals[c["r"]])
        return None

    def hook(self, n):
        if self.user_hook is not None:
            h = self.user_hook(n)
            if h is not None:
                return h
        if n.get("k") == "ConditionalOperator" and self.decide_ternaries:
            v = self.decide(n["c"][0])
            if v is not None:
                return self.sym(n["c"][1] if v else n["c"][2])
        s = astq.subscript(n)
        if s:
            tk = self.target_key(s[0])
            i = sc(s[1])
            if tk is not None and i.get("k") == "IntegerLiteral":
                v = self.state.get(("elem", tk, i["v"]))
                if v is not None:
                    return v
        tk = self.target_key(n)
        if tk is not None and ("var", tk) in self.state:
            return self.state[("var", tk)]
        if n.get("k") == "CXXMemberCallExpr" and n["c"][0].get("n") == "norm":
            b = n["c"][0]["c"][0]
            v = self.sym(b)
            return sp.sqrt(v ** 2)
        return None

    def run(self, stmts):
        for s in stmts:
            self.stmt(s)

    def stmt(self, s):
        if s is None:
            return
        k = s.get("k")
        if k == "CompoundStmt":
            self.run(s["c"])
        elif k == "IfStmt":
            c = self.decide(s["c"][0])
            if c is True:
                self.stmt(s["c"][1])
            elif c is False:
                self.stmt(s["c"][2])
            else:
                raise AnalysisBroken("undecided branch `%s` at %s" % (norm.render(self.P, s["c"][0])[:60], self.F.nloc(s)))
        elif k == "ForStmt" and self.loops is not None:
            # one symbolic iteration: record what the body adds to each tracked variable
            init = s["c"][0]
            iv = init["c"][0] if init is not None and init.get("k") == "DeclStmt" and init["c"] else None
            if iv is None or iv.get("k") != "VarDecl":
                return
            n = sp.Symbol("n_%s" % iv.get("n"), integer=True, positive=True)
            pre = dict(self.state)
            self.sym.env[iv["r"]] = n
            marks = {}
            written = set()
            for x in self.F.walk(s["c"][3]):
                if x.get("k") in ("BinaryOperator", "CompoundAssignOperator", "CXXOperatorCallExpr") and x.get("op") in norm.ASSIGN_OPS:
                    t = x["c"][0]
                    sub = astq.subscript(t)
                    tk = self.target_key(sub[0] if sub else t)
                    if tk is not None:
                        written.add(tk)
            for key in list(self.state):
                if key[1] in written:
                    marks[key] = sp.Symbol("PRE_%d" % len(marks))
                    self.state[key] = marks[key]
            self.stmt(s["c"][3])
            delta = {}
            for key, mark in marks.items():
                after = self.state.get(key)
                if after is not None and after != mark:
                    delta[key] = sp.simplify(after - mark)
            del self.sym.env[iv["r"]]
            self.loops.append(dict(node=s, var=n, init=self.sym(iv["c"][0]) if iv.get("c") else None, cond=s["c"][1], delta=delta, pre={k: pre[k] for k in delta}))
            self.state = pre
            for key in delta:
                self.state[key] = pre[key] + sp.Symbol("LOOPSUM_%d" % (len(self.loops) - 1))
        elif k == "DeclStmt":
            for v in s["c"]:
                if v.get("k") == "VarDecl":
                    self.decl(v)
        elif k in ("BinaryOperator", "CompoundAssignOperator", "CXXOperatorCallExpr") and s.get("op") in norm.ASSIGN_OPS:
            self.assign(s)
        # everything else has no effect on the tracked state

    def decl(self, v):
        if not v.get("c"):
            return
        init = sc(v["c"][0])
        tk = ("v", v["r"])
        if init.get("k") in ("CXXConstructExpr", "CXXTemporaryObjectExpr") and "Point<" in init.get("t", ""):
            args = [a for a in init.get("c", []) if a is not None and a.get("k") != "CXXDefaultArgExpr"]
            # Point<dim>(x, y[, z], cs) or Point<dim>(array, cs) or Point<dim>(cs)
            vals = [a for a in args if "CoordinateSystem" not in sc(a).get("t", "")]
            if len(vals) >= 2:
                for i, a in enumerate(vals):
                    self.state[("elem", tk, i)] = self.sym(a)
            return
        self.state[("var", tk)] = self.sym(init)

    def assign(self, s):
        lhs, rhs = s["c"][0], s["c"][1]
        op = s.get("op")
        sub = astq.subscript(lhs)
        if sub:
            tk = self.target_key(sub[0])
            i = sc(sub[1])
            if tk is None or i.get("k") != "IntegerLiteral":
                return
            key = ("elem", tk, i["v"])
        else:
            tk = self.target_key(lhs)
            if tk is None:
                return
            key = ("var", tk)
        val = self.sym(rhs)
        if op != "=":
            old = self.state.get(key)
            if old is None:
                old = self.sym(lhs)
            val = {"+=": old + val, "-=": old - val, "*=": old * val, "/=": old / val}.get(op, None)
            if val is None:
                return
        self.state[key] = val


def eq(a, b):
    try:
        return sp.simplify(sp.expand(a - b)) == 0
    except Exception:
        return False


# ------------------------------------------------------------------------------------------------
def cross_section(P, rep, rule="EXPR.crosssection"):
    """C09 clause 1: direction vector, 2D -> 3D map in both coordinate systems, degree conversion"""
    rep.rule(rule, "surface_coord_conversions = (cs1 - cs0)/|cs1 - cs0|; Cartesian: 3D point (cs0x + x*ux, cs0y + x*uy, z); spherical: "
                   "(sqrt(x^2+z^2), cs0 + atan2(z,x)*u); the cross section is converted from degrees only in spherical worlds; the "
                   "mapped point reaches the 3D evaluator through natural_to_cartesian_coordinates")
    W = P.func("WorldBuilder::World::parse_entries")
    cs0, cs1 = sp.Symbol("cs0"), sp.Symbol("cs1")

    def hook_pe(n):
        s = astq.subscript(n)
        if s and astq.is_this_field(P, s[0], "cross_section"):
            i = sc(s[1])
            if i.get("k") == "IntegerLiteral":
                return {0: cs0, 1: cs1}.get(i["v"])
        return None
    # the block that sets dim = 2
    blk = None
    for n in W.walk():
        if n.get("k") == "IfStmt":
            for x in W.walk(n["c"][1]):
                if x.get("k") == "BinaryOperator" and x.get("op") == "=" and astq.is_this_field(P, x["c"][0], "dim") and sc(x["c"][1]).get("v") == 2:
                    blk = n
    dim_ternary = None
    if blk is None:
        # `dim = <cross section declared> ? 2 : 3;` next to the block that reads the cross section
        for n in W.walk():
            if n.get("k") == "BinaryOperator" and n.get("op") == "=" and astq.is_this_field(P, n["c"][0], "dim") and sc(n["c"][1]).get("k") == "ConditionalOperator":
                co = sc(n["c"][1])
                if sc(co["c"][1]).get("v") == 2 and sc(co["c"][2]).get("v") == 3:
                    dim_ternary = co
        if dim_ternary is not None:
            for n in W.walk():
                if n.get("k") == "IfStmt" and any(x.get("k") == "MemberExpr" and astq.is_this_field(P, x, "surface_coord_conversions") for x in W.walk(n["c"][1])) \
                        and norm.render(P, astq.resolve_alias(P, W, n["c"][0])) == norm.render(P, astq.resolve_alias(P, W, dim_ternary["c"][0])):
                    blk = n
                    break
    if blk is None:
        raise AnalysisBroken("World::parse_entries: block setting dim = 2 not found")
    B = Block(P, W, hook=hook_pe)
    scc_key = None
    for n in W.walk(blk["c"][1]):
        if n.get("k") == "MemberExpr" and n.get("n") == "surface_coord_conversions":
            scc_key = ("var", ("f", n["r"]))
    stmts = [s for s in astq.stmts_of(blk["c"][1]) if s.get("k") not in ("CXXForRangeStmt", "DoStmt")]
    undecided = None
    try:
        B.run(stmts)
        got = B.state.get(scc_key)
    except AnalysisBroken as e_:
        got, undecided = None, str(e_)
    want = (cs1 - cs0) / sp.sqrt((cs1 - cs0) ** 2)
    if undecided is not None:
        # the block branches on something this evaluation cannot decide: the check for conditional writes below still applies
        rep.unknown(rule, "cross-section direction: %s" % undecided[:120])
    elif got is not None and eq(got, want):
        rep.ok(rule, "surface_coord_conversions = (cs1-cs0)/|cs1-cs0|", W.nloc(blk), W.qn, str(got))
    else:
        rep.violation(rule, "cross-section direction", W.nloc(blk), W.qn, str(got), "expected (cs1 - cs0)/|cs1 - cs0|", key=rule + "|direction",
                      witness="cross section not through the origin; compare 2D and 3D answers at x > 0")
    # the direction is written by straight-line statements of that block only (what the evaluation above followed)
    cond_writes = []
    for n in W.walk(blk["c"][1]):
        tgt = None
        if n.get("k") in ("BinaryOperator", "CompoundAssignOperator", "CXXOperatorCallExpr") and n.get("op") in norm.ASSIGN_OPS:
            tgt = n["c"][0]
        if tgt is None:
            continue
        if not any(y.get("k") == "MemberExpr" and astq.is_this_field(P, y, "surface_coord_conversions") for y in W.walk(tgt)):
            continue
        for a in W.ancestors(n):
            if a is blk:
                break
            if a.get("k") in ("IfStmt", "ForStmt", "WhileStmt", "CXXForRangeStmt", "SwitchStmt", "ConditionalOperator"):
                cond_writes.append(n)
                break
    if cond_writes:
        rep.violation(rule, "the cross-section direction is adjusted conditionally: %s" % norm.render(P, cond_writes[0])[:70], W.nloc(cond_writes[0]), W.qn,
                      norm.render(P, cond_writes[0])[:140], "for the sections that meet the condition the direction is no longer (cs1 - cs0)/|cs1 - cs0|",
                      key=rule + "|direction-conditional", witness="a cross section for which the condition holds (for instance one pointing along -x)")
    # dim = 2 iff the cross section entry exists
    c = astq.resolve_alias(P, W, blk["c"][0])
    okc = False
    from .asserts import string_lit
    if c.get("k") == "DeclRefExpr":
        for n in W.walk():
            if n.get("k") == "VarDecl" and n.get("r") == c["r"] and n.get("c"):
                mc = astq.member_call(P, n["c"][0], "check_entry")
                if mc and string_lit(W, mc[2][0]) == "cross section":
                    okc = True
    else:
        mc = astq.member_call(P, c, "check_entry")       # the test written directly in the condition
        if mc and string_lit(W, mc[2][0]) == "cross section":
            okc = True
    els = blk["c"][2] if len(blk["c"]) > 2 else None
    dim3 = dim_ternary is not None or els is not None and any(x.get("k") == "BinaryOperator" and x.get("op") == "=" and astq.is_this_field(P, x["c"][0], "dim") and sc(x["c"][1]).get("v") == 3
                                  for x in W.walk(els))
    if okc and dim3:
        rep.ok(rule, "dim = 2 iff check_entry(\"cross section\"), else 3", W.nloc(blk), W.qn)
    else:
        rep.violation(rule, "dim selection", W.nloc(blk), W.qn, norm.render(P, c), "dim is not 2 exactly when a cross section is declared",
                      key=rule + "|dim", witness="world without cross section queried in 2D")
    # degrees -> radians only in spherical worlds
    conv = None
    for n in W.walk(blk["c"][1]):
        mc = astq.member_call(P, n, "push_back")
        if mc and astq.is_this_field(P, mc[0], "cross_section"):
            conv = mc[2][0]
    okconv = False
    if conv is not None:
        loop = astq.enclosing(W, conv, ("CXXForRangeStmt",))
        lv = loop["c"][0]["r"] if loop else None
        okconv = True
        for spherical in (True, False):
            IT = sp.Symbol("it")

            def hk(n, spherical=spherical):
                if n.get("k") == "ConditionalOperator":
                    t = norm.render(P, n["c"][0]).replace(" ", "")
                    if t == "(coordinate_system==spherical)":
                        return norm.Sym(P, W, inline_locals=False, hook=hk, inline_consts=True)(n["c"][1] if spherical else n["c"][2])
                if n.get("k") == "DeclRefExpr" and P.d(n["r"]).get("qn") == "WorldBuilder::Consts::PI":
                    return sp.pi
                if n.get("k") == "DeclRefExpr" and n["r"] == lv:
                    return IT
                return None
            val = norm.Sym(P, W, inline_locals=False, hook=hk, inline_consts=True)(conv)
            want_v = IT * sp.pi / 180 if spherical else IT
            if not eq(val, want_v):
                okconv = False
        src = norm.render(P, loop["c"][1]) if loop else ""
        init_ok = False
        for n in W.walk():
            if n.get("k") == "VarDecl" and n.get("n") == src and n.get("c"):
                from .asserts import string_lit
                mc = astq.member_call(P, n["c"][0], "get_vector")
                init_ok = bool(mc) and string_lit(W, mc[2][0]) == "cross section"
        okconv = okconv and init_ok
    if okconv:
        rep.ok(rule, "cross section points scaled by (spherical ? PI/180 : 1) from the \"cross section\" entry", W.nloc(conv), W.qn)
    else:
        rep.violation(rule, "cross section unit conversion", W.nloc(conv) if conv else W.loc, W.qn, norm.render(P, conv) if conv else "",
                      "cross section is not converted from degrees exactly in spherical worlds", key=rule + "|degrees",
                      witness="spherical world with a cross section away from longitude 0")
    # nothing else writes the stored cross section
    others = []
    for F in P.funcs.values():
        if F.body is None or not F.qn.startswith("WorldBuilder::World::"):
            continue
        for n in F.walk():
            k = n.get("k")
            tgt = None
            if k in ("BinaryOperator", "CompoundAssignOperator", "CXXOperatorCallExpr") and n.get("op") in norm.ASSIGN_OPS:
                tgt = n["c"][0]
            elif k == "UnaryOperator" and n.get("op") in ("++", "--"):
                tgt = n["c"][0]
            elif k == "CXXMemberCallExpr" and n["c"][0].get("k") == "MemberExpr" and n["c"][0].get("c") and not P.d(n.get("callee")).get("const"):
                if astq.is_this_field(P, n["c"][0]["c"][0], "cross_section") and n["c"][0].get("n") not in ("push_back", "emplace_back", "back", "front", "operator[]", "at", "begin", "end"):
                    others.append((F, n))
                continue
            if tgt is None:
                continue
            b = tgt
            hit = False
            for y in F.walk(b):
                if y.get("k") == "MemberExpr" and astq.is_this_field(P, y, "cross_section"):
                    hit = True
            if hit:
                others.append((F, n))
    if others:
        F, n = others[0]
        rep.violation(rule, "the stored cross section is modified after it was read: %s" % norm.render(P, n)[:80], F.nloc(n), F.qn, norm.render(P, n)[:140],
                      "the section the 2D interface follows is no longer the one in the file", key=rule + "|rewritten",
                      witness="a cross section for which the rewriting condition holds at one end point only")
    else:
        rep.ok(rule, "cross_section is written only by the push_back of the converted entry", W.loc, W.qn)
    # the 2D -> 3D map
    F2 = P.func("WorldBuilder::World::properties", ptypes=["array<double, 2>"])
    F3 = P.func("WorldBuilder::World::properties", ptypes=["array<double, 3>"])
    x, z = sp.Symbol("x", real=True), sp.Symbol("z", real=True)
    ux, uy, c0x, c0y = sp.symbols("ux uy cs0x cs0y")
    pk = F2.params[0]

    def hook2(n):
        s = astq.subscript(n)
        if s:
            # a reference local naming a member (`const Point<2> &origin = cross_section[0]`) stands for that member
            b0 = astq.resolve_alias(P, F2, s[0])
            if b0 is not None and b0 is not sc(s[0]):
                s = (b0, s[1])
            if astq.is_ref_to(s[0], pk):
                i = sc(s[1])
                if i.get("k") == "IntegerLiteral":
                    return {0: x, 1: z}.get(i["v"])
            if astq.is_this_field(P, s[0], "surface_coord_conversions"):
                i = sc(s[1])
                if i.get("k") == "IntegerLiteral":
                    return {0: ux, 1: uy}.get(i["v"])
            s2 = astq.subscript(s[0])
            if s2 and astq.is_this_field(P, s2[0], "cross_section") and sc(s2[1]).get("v") == 0:
                i = sc(s[1])
                if i.get("k") == "IntegerLiteral":
                    return {0: c0x, 1: c0y}.get(i["v"])
        return None
    call = [n for n in F2.walk() if n.get("k") == "CXXMemberCallExpr" and n.get("callee") == F3.key]
    if len(call) != 1:
        rep.unknown(rule, "2D wrapper does not call the 3D evaluator exactly once")
        return
    call = call[0]
    # the statements before the call, top level
    body = astq.stmts_of(F2.body)
    pre = []
    for s in body:
        if any(y is call for y in F2.walk(s)):
            break
        pre.append(s)
    # the refusal dominates everything
    first = pre[0] if pre else None
    guard_ok = False
    if first is not None and first.get("k") == "DoStmt" and first.get("m") == "WBAssertThrow":
        for g in F2.walk(first):
            if g.get("k") == "IfStmt" and g.get("m") == "WBAssertThrow":
                cnd = sc(g["c"][0])
                if cnd.get("k") == "UnaryOperator" and cnd.get("op") == "!":
                    inner = sc(cnd["c"][0])
                    if inner.get("k") == "BinaryOperator" and inner.get("op") == "==" and astq.is_this_field(P, inner["c"][0], "dim") and sc(inner["c"][1]).get("v") == 2:
                        guard_ok = True
    if guard_ok:
        rep.ok(rule, "2D properties: WBAssertThrow(dim == 2) is the first statement (release-active refusal)", F2.nloc(first), F2.qn)
    else:
        rep.violation(rule, "2D refusal", F2.loc, F2.qn, norm.render(P, first)[:80] if first else "", "a 2D query on a world without cross section is not "
                      "refused by a release-active exception before anything else happens", key=rule + "|refusal",
                      witness="world without \"cross section\", 2D query")
    for spherical in (False, True):
        def choose(c, spherical=spherical):
            t = norm.render(P, c).replace(" ", "")
            if t == "(coordinate_system==spherical)":
                return spherical
            return None
        B2 = Block(P, F2, choose=choose, hook=hook2)
        try:
            B2.run([s for s in pre if s.get("k") in ("DeclStmt", "IfStmt")])
        except AnalysisBroken as e:
            if "undecided branch" not in str(e):
                rep.unknown(rule, str(e))
                continue
            # a condition the documented map does not know: the map is piecewise. Evaluate the piece where every unknown
            # condition holds; it must still be the documented map (the piece where none holds is the evaluation without them)
            forced = Block(P, F2, choose=lambda c, ch=choose: (ch(c) if ch(c) is not None else True), hook=hook2)
            try:
                forced.run([s for s in pre if s.get("k") in ("DeclStmt", "IfStmt")])
            except AnalysisBroken as e2:
                rep.unknown(rule, str(e2))
                continue
            B2 = forced
            piecewise = str(e)
        # which variable is passed on?
        a0 = sc(call["c"][1])
        src = None
        if a0.get("k") == "DeclRefExpr":
            for n in F2.walk():
                if n.get("k") == "VarDecl" and n.get("r") == a0["r"] and n.get("c"):
                    src = sc(n["c"][0])
        conv_ok = src is not None and src.get("k") == "CXXMemberCallExpr" and src["c"][0].get("n") == "natural_to_cartesian_coordinates"
        vec = None
        if conv_ok:
            g = astq.member_call(P, src["c"][1], "get_array")
            if g and sc(g[0]).get("k") == "DeclRefExpr":
                vec = ("v", sc(g[0])["r"])
        if vec is None:
            rep.violation(rule, "2D -> 3D point hand-over", F2.nloc(call), F2.qn, norm.render(P, call)[:100],
                          "the 3D evaluator does not receive natural_to_cartesian_coordinates(mapped point)", key=rule + "|handover")
            continue
        got3 = [B2.state.get(("elem", vec, i)) for i in range(3)]
        if all(g_ is None for g_ in got3):
            rep.unknown(rule, "2D properties: the mapped 3D point is not built by element stores in the wrapper itself (moved into a helper?)")
            continue
        if spherical:
            ang = sp.atan2(z, x)
            want3 = [sp.sqrt(x * x + z * z), c0x + ang * ux, c0y + ang * uy]
        else:
            want3 = [c0x + x * ux, c0y + x * uy, z]
        bad = [i for i in range(3) if got3[i] is None or not eq(got3[i], want3[i])]
        label = "spherical" if spherical else "Cartesian"
        if bad:
            rep.violation(rule, "%s 2D -> 3D map" % label, F2.loc, F2.qn, str(got3), "expected %s" % want3, key="%s|map|%s" % (rule, label),
                          witness="2D query at x != 0 compared with the 3D query at the mapped point")
        else:
            rep.ok(rule, "%s map: %s" % (label, want3), F2.loc, F2.qn)


# ------------------------------------------------------------------------------------------------
WORLD_KEYS = {
    "potential_mantle_temperature": "potential mantle temperature",
    "surface_temperature": "surface temperature",
    "force_surface_temperature": "force surface temperature",
    "thermal_expansion_coefficient": "thermal expansion coefficient",
    "specific_heat": "specific heat",
    "thermal_diffusivity": "thermal diffusivity",
}


def key_provenance(P, rep, cls, table, parse_fn, rule="EXPR.keys", lib_only=True):
    """each listed field of `cls` is assigned only in parse_fn, from prm.get<T>(<its own key>)"""
    rep.rule(rule, "every global constant used by the background state is assigned only while the file is parsed, from the "
                   "entry of its own name (field <- prm.get<T>(key)), and nowhere else in the library")
    from .asserts import string_lit
    W = P.func(parse_fn)
    for fld, key in table.items():
        qn = "%s::%s" % (cls, fld)
        writes = []
        for F in P.funcs.values():
            if not F.tu.startswith("lib"):
                continue
            for n in F.walk():
                if n.get("k") in ("BinaryOperator", "CompoundAssignOperator", "CXXOperatorCallExpr") and n.get("op") in norm.ASSIGN_OPS:
                    t = sc(n["c"][0])
                    if t.get("k") == "MemberExpr" and P.d(t.get("r")).get("qn") == qn:
                        writes.append((F, n))
                if n.get("k") == "UnaryOperator" and n.get("op") in ("++", "--"):
                    t = sc(n["c"][0])
                    if t.get("k") == "MemberExpr" and P.d(t.get("r")).get("qn") == qn:
                        writes.append((F, n))
        if not writes:
            rep.violation(rule, "%s is never assigned" % qn, W.loc, W.qn, "", "the constant is not read from the file", key="%s|%s|none" % (rule, fld),
                          witness="file that sets \"%s\"" % key)
            continue
        bad = False
        for F, n in writes:
            rhs = sc(n["c"][1])
            mc = astq.member_call(P, rhs, "get")
            got = string_lit(F, mc[2][0]) if mc and mc[2] else None
            if F.key != W.key or n.get("op") != "=" or got != key:
                bad = True
                rep.violation(rule, "%s assigned from %s in %s" % (qn, ("entry \"%s\"" % got) if got else norm.render(P, rhs)[:60], F.qn), F.nloc(n), F.qn,
                              norm.render(P, n)[:100], "expected %s = prm.get(\"%s\") in %s only" % (fld, key, parse_fn),
                              key="%s|%s|%s" % (rule, fld, got or "expr"), witness="file that sets \"%s\" and the other constants differently" % key)
        if not bad:
            rep.ok(rule, "%s <- \"%s\" (%d assignment%s, all in %s)" % (fld, key, len(writes), "s" if len(writes) > 1 else "", W.name), W.nloc(writes[0][1]), W.qn)


def background_fill(P, rep, rule="EXPR.background"):
    """C03 clause 1: values appended by the 3D evaluator before any feature runs"""
    rep.rule(rule, "the 3D evaluator initialises a temperature block with Tp*exp(alpha*g*depth/cp) (g = gravity model norm at the "
                   "point), a composition block with 0, a grains block with 10*n zeros, a tag block with -1 and a velocity block "
                   "with (0,0,0); at |depth| < 2 eps with 'force surface temperature' the temperature block is surface_temperature")
    from . import layout
    F = P.func("WorldBuilder::World::properties", ptypes=["array<double, 3>"])
    sw = layout.find_switch_on_kind(P, F)[0]
    lam = astq.local_lambda_calls(P, F, sw)
    if lam:
        rep.unknown(rule, "the fill switch does part of its work through the local lambda `%s`; this rule reads the statements of the cases only" % lam[0][1])
        return
    cases = astq.switch_cases(sw)
    depth_k = F.params[1]
    Tp, al, cp, g, d = sp.symbols("Tp alpha cp g depth")

    def hook(n):
        if n.get("k") == "MemberExpr" and astq.is_this_field(P, n):
            return {"potential_mantle_temperature": Tp, "thermal_expansion_coefficient": al, "specific_heat": cp}.get(n.get("n"))
        if n.get("k") == "DeclRefExpr" and n["r"] == depth_k:
            return d
        if n.get("k") == "DeclRefExpr" and n.get("n") == "gravity_norm":
            return g
        return None
    sym = norm.Sym(P, F, inline_locals=False, hook=hook)
    # gravity_norm local = parameters.gravity_model->gravity_norm(point)
    gdecl = [n for n in F.walk() if n.get("k") == "VarDecl" and n.get("n") == "gravity_norm"]
    gok = False
    if len(gdecl) == 1 and gdecl[0].get("c"):
        c0 = sc(gdecl[0]["c"][0])
        gok = c0.get("k") == "CXXMemberCallExpr" and P.d(c0.get("callee")).get("qn") == "WorldBuilder::GravityModel::Interface::gravity_norm" \
            and "gravity_model" in norm.render(P, c0["c"][0])
    if gok:
        rep.ok(rule, "g = parameters.gravity_model->gravity_norm(point)", F.nloc(gdecl[0]), F.qn)
    else:
        rep.violation(rule, "gravity used by the background adiabat", F.loc, F.qn, "", "g is not the gravity model's norm at the query point", key=rule + "|g",
                      witness="world with a non-default gravity magnitude")

    def appended(stmts):
        out = []
        for s in stmts:
            for n in F.walk(s):
                mc = astq.member_call(P, n)
                if mc and mc[1] in ("emplace_back", "push_back", "insert") and sc(mc[0]).get("n") == "output":
                    out.append((n, mc))
        return out
    # temperature
    t_stmts = cases.get(1, [])
    ifs = [s for s in t_stmts if s.get("k") == "IfStmt"]
    if len(ifs) != 1:
        rep.unknown(rule, "temperature case: expected one if/else")
    else:
        cond = norm.render(P, ifs[0]["c"][0], nocast=True).replace(" ", "")
        want_cond = ("((fabs(depth)<(2.0*std::numeric_limits<double>::epsilon()))&&force_surface_temperature)",
                     "((std::fabs(depth)<(2.0*std::numeric_limits<double>::epsilon()))&&force_surface_temperature)",
                     "((std::fabs(depth)<(2.0*std::numeric_limits::epsilon()))&&force_surface_temperature)")
        from .guard import expand_cond
        cs = astq.sc(expand_cond(P, F, ifs[0]["c"][0]))
        conj = []

        def split(x):
            x = sc(x)
            if x.get("k") == "BinaryOperator" and x.get("op") == "&&":
                split(x["c"][0]); split(x["c"][1])
            else:
                conj.append(x)
        split(cs)
        has_force = any(astq.is_this_field(P, x, "force_surface_temperature") for x in conj)
        has_depth0 = False
        for x in conj:
            if x.get("k") == "BinaryOperator" and x.get("op") == "<":
                l, r = sc(x["c"][0]), sc(x["c"][1])
                if l.get("k") == "CallExpr" and P.d(l.get("callee")).get("qn") in ("std::fabs", "fabs", "std::abs") and astq.is_ref_to(l["c"][1], depth_k):
                    rr = norm.render(P, r).replace(" ", "")
                    if "epsilon" in rr and rr.startswith("(2"):
                        has_depth0 = True
        forced = appended([ifs[0]["c"][1]])
        normal = appended([ifs[0]["c"][2]]) if ifs[0]["c"][2] is not None else []
        if has_force and has_depth0 and len(conj) == 2 and len(forced) == 1 and astq.is_this_field(P, forced[0][1][2][0], "surface_temperature"):
            rep.ok(rule, "forced surface temperature: surface_temperature under |depth| < 2 eps && force_surface_temperature", F.nloc(ifs[0]), F.qn)
        else:
            rep.violation(rule, "forced surface temperature branch", F.nloc(ifs[0]), F.qn, norm.render(P, ifs[0]["c"][0])[:100],
                          "the surface temperature is not emitted exactly under |depth| < 2 eps && force_surface_temperature",
                          key=rule + "|forced", witness="force surface temperature: true, query at depth 0 and at depth 1 m")
        if len(normal) == 1:
            v = sym(normal[0][1][2][0])
            want = Tp * sp.exp(al * g * d / cp)
            if eq(v, want):
                rep.ok(rule, "background temperature = Tp*exp(alpha*g*depth/cp)", F.nloc(normal[0][0]), F.qn, str(v))
            else:
                rep.violation(rule, "background temperature", F.nloc(normal[0][0]), F.qn, str(v), "expected Tp*exp(alpha*g*depth/cp)", key=rule + "|adiabat",
                              witness="empty feature list, arbitrary thermal constants, depth > 0")
        else:
            rep.violation(rule, "background temperature", F.nloc(ifs[0]), F.qn, "", "%d values appended on the regular path" % len(normal), key=rule + "|adiabat-count")
    # composition, tag, velocity
    def fill_form(mc):
        """(count node, value node) of output.insert(output.end(), count, value), else None"""
        if mc[1] != "insert" or len(mc[2]) != 3:
            return None
        pos = astq.member_call(P, mc[2][0], "end")
        if not pos or astq.member_call(P, mc[2][1], "begin"):
            return None
        return mc[2][1], mc[2][2]
    for kind, want_vals, label in ((2, [0], "composition"), (4, [-1], "tag"), (5, [0, 0, 0], "velocity")):
        app = appended(cases.get(kind, []))
        vals = []
        for n, mc in app:
            try:
                ff = fill_form(mc)
                if ff is not None:
                    cnt = sym(ff[0])
                    if cnt.is_Integer and 0 < int(cnt) <= 16:
                        vals += [sym(ff[1])] * int(cnt)
                    else:
                        vals.append(None)
                else:
                    vals.append(sym(mc[2][0]))
            except Exception:
                vals.append(None)
        if [sp.nsimplify(v) if v is not None else None for v in vals] == [sp.Integer(w) for w in want_vals]:
            rep.ok(rule, "background %s = %s" % (label, want_vals), F.nloc(app[0][0]), F.qn)
        else:
            rep.violation(rule, "background %s" % label, F.nloc(app[0][0]) if app else F.loc, F.qn, str(vals), "expected %s" % want_vals,
                          key="%s|%s" % (rule, label), witness="point outside every feature")
    # grains: vector(n*10, 0.)
    app = appended(cases.get(3, []))
    okg = False
    if len(app) == 1 and app[0][1][1] == "insert":
        b = astq.member_call(P, app[0][1][2][1], "begin")
        if b and sc(b[0]).get("k") == "DeclRefExpr":
            for n in F.walk():
                if n.get("k") == "VarDecl" and n.get("r") == sc(b[0])["r"] and n.get("c"):
                    init = n["c"][0]
                    if init.get("k") in ("CXXConstructExpr", "CXXTemporaryObjectExpr") and len(init["c"]) >= 2:
                        fill = sc(init["c"][1])
                        okg = fill.get("k") in ("FloatingLiteral", "IntegerLiteral") and float(fill.get("v")) == 0.0
    if not okg and len(app) == 1 and fill_form(app[0][1]) is not None:
        cnt_n, val_n = fill_form(app[0][1])
        fill = sc(val_n)
        try:
            cnt = sp.expand(norm.Sym(P, F, inline_locals=True, hook=layout.prop_hook(P))(cnt_n))
        except Exception:
            cnt = None
        if cnt is not None and cnt.free_symbols and not sp.expand(cnt / 10).is_polynomial():
            cnt = None
        zero = fill is not None and fill.get("k") in ("FloatingLiteral", "IntegerLiteral") and float(fill.get("v")) == 0.0
        # the count itself is compared with the width tables by LAYOUT.L1; here: ten values per grain, all zero
        okg = zero and cnt is not None and cnt != 0 and sp.expand(cnt / 10).is_polynomial() and not sp.expand(cnt / 10).has(sp.Rational(1, 10))
    if okg:
        rep.ok(rule, "background grains = 10*n zeros", F.nloc(app[0][0]), F.qn)
    else:
        rep.violation(rule, "background grains", F.nloc(app[0][0]) if app else F.loc, F.qn, "", "grains block is not zero-filled", key=rule + "|grains",
                      witness="grains request outside every feature")
