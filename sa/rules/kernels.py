"""Small algebraic / abstract-interpretation rules on geometric kernels (C11, C19)."""
import re

import sympy as sp

from .. import astq, norm
from ..astq import sc
from ..tu import AnalysisBroken
from .expr import Block, eq


# ------------------------------------------------------------------------------------------------ C11
def approx_reflexive(P, rep, rule="ABS.approx"):
    rep.rule(rule, "Utilities::approx(x, x) is true for every sign of x (negative, zero, positive): evaluation of its return expression over "
                   "the sign domain with the relational fact a == b")
    F = P.func("WorldBuilder::Utilities::approx")
    rets = [x for x in F.walk() if x.get("k") == "ReturnStmt" and x.get("c")]
    if len(rets) != 1:
        rep.unknown(rule, "approx has %d returns" % len(rets))
        return
    a = sp.Symbol("a", real=True)
    eps = sp.Symbol("eps", positive=True)
    fac = sp.Symbol("factor", positive=True)

    def hook(n):
        if n.get("k") in ("CallExpr", "CXXMemberCallExpr") and "epsilon" in norm.render(P, n):
            return eps
        return None
    env = {F.params[0]: a, F.params[1]: a}
    if len(F.params) > 2:
        env[F.params[2]] = fac
    sym = norm.Sym(P, F, inline_locals=True, hook=hook, env=env)
    expr = sym(rets[0]["c"][0])
    bad = []
    for name, val in (("negative", -3), ("zero", 0), ("positive", 3)):
        try:
            v = expr.subs(a, val)
            v = sp.simplify(v)
            truth = bool(v) if v in (sp.true, sp.false) else None
            if truth is None:
                # relational in eps/factor only: decide with the positivity assumptions
                truth = bool(sp.simplify(v.subs({eps: sp.Rational(1, 10 ** 6), fac: 10 ** 4})))
        except Exception as e:
            rep.unknown(rule, "cannot evaluate approx for %s x: %s" % (name, e))
            return
        if not truth:
            bad.append(name)
    if bad:
        rep.violation(rule, "approx(x, x) is false for %s x" % "/".join(bad), F.loc, F.qn, norm.render(P, rets[0]["c"][0])[:140],
                      "the same-point detection that lets a user value replace a polygon corner's default fails for such coordinates",
                      key=rule + "|" + "/".join(bad), witness="a depth value listed at a corner with a zero coordinate")
    else:
        rep.ok(rule, "approx(x, x) holds for negative, zero and positive x", F.loc, F.qn)


def barycentric(P, rep, rule="EXPR.barycentric"):
    rep.rule(rule, "Surface: the value interpolated in a triangle is the affine function through its three (x, y, value) vertices -- it equals "
                   "v_i at vertex i and is of degree 1 in the query coordinates (so affine nodal data are reproduced exactly and the result "
                   "lies between the nodal values inside the triangle); each triangle vertex takes x, y and value of the same input point")
    ctors = [f for f in P.funcs_named("WorldBuilder::Objects::Surface::Surface") if len(f.params) == 1]
    if len(ctors) != 1:
        raise AnalysisBroken("Surface(values_at_points) constructor not found")
    C = ctors[0]
    T = {(a, b): sp.Symbol("T%d%d" % (a, b), real=True) for a in range(3) for b in range(3)}

    def tri_hook(n):
        s = astq.subscript(n)
        if s:
            s2 = astq.subscript(s[0])
            s3 = astq.subscript(s2[0]) if s2 else None
            if s3 and sc(s3[0]).get("n") == "triangles" and sc(s2[1]).get("k") == "IntegerLiteral" and sc(s[1]).get("k") == "IntegerLiteral":
                return T[(sc(s2[1])["v"], sc(s[1])["v"])]
        return None
    pre = {}
    symc = norm.Sym(P, C, inline_locals=False, hook=None)

    def pre_hook(n):
        h = tri_hook(n)
        if h is not None:
            return h
        s = astq.subscript(n)
        if s:
            s2 = astq.subscript(s[0])
            if s2 and sc(s2[0]).get("n") == "in_triangle_precomputed" and sc(s[1]).get("k") == "IntegerLiteral":
                return pre.get(sc(s[1])["v"])
        return None
    symc.hook = pre_hook
    for x in C.walk():
        if x.get("k") == "BinaryOperator" and x.get("op") == "=":
            s = astq.subscript(x["c"][0])
            s2 = astq.subscript(s[0]) if s else None
            if s2 and sc(s2[0]).get("n") == "in_triangle_precomputed" and sc(s[1]).get("k") == "IntegerLiteral":
                pre[sc(s[1])["v"]] = symc(x["c"][1])
    if sorted(pre) != list(range(8)):
        rep.unknown(rule, "precomputed triangle coefficients found: %s" % sorted(pre))
        return
    F = [f for f in P.funcs.values() if f.name == "in_triangle" and "surface.cc" in f.file]
    if len(F) != 1:
        raise AnalysisBroken("in_triangle not found")
    F = F[0]
    x, y = sp.symbols("x y", real=True)
    pts_k, pre_k, cp_k = F.params[0], F.params[1], F.params[2]

    def hook(n):
        s = astq.subscript(n)
        if s:
            if astq.is_ref_to(s[0], pre_k) and sc(s[1]).get("k") == "IntegerLiteral":
                return pre[sc(s[1])["v"]]
            if astq.is_ref_to(s[0], cp_k) and sc(s[1]).get("k") == "IntegerLiteral":
                return (x, y)[sc(s[1])["v"]]
            s2 = astq.subscript(s[0])
            if s2 and astq.is_ref_to(s2[0], pts_k) and sc(s2[1]).get("k") == "IntegerLiteral" and sc(s[1]).get("k") == "IntegerLiteral":
                return T[(sc(s2[1])["v"], sc(s[1])["v"])]
        return None
    B = Block(P, F, choose=lambda c: True, hook=hook)
    B.sym.inline_locals = True
    B.run(astq.stmts_of(F.body))
    val = B.state.get(("var", ("v", F.params[3])))
    if val is None:
        rep.unknown(rule, "interpolated value assignment not found in in_triangle")
        return
    val = sp.simplify(val)
    problems = []
    for i in range(3):
        vi = sp.simplify(val.subs({x: T[(i, 0)], y: T[(i, 1)]}) - T[(i, 2)])
        if vi != 0:
            problems.append("at vertex %d the value is not v%d (difference %s)" % (i, i, str(vi)[:60]))
    num = sp.together(val)
    poly_ok = True
    try:
        pnum, pden = sp.fraction(num)
        if pden.has(x) or pden.has(y) or sp.Poly(sp.expand(pnum), x, y).total_degree() > 1:
            poly_ok = False
    except Exception:
        poly_ok = False
    if not poly_ok:
        problems.append("the interpolant is not affine in the query point")
    if problems:
        rep.violation(rule, "triangle interpolation: %s" % "; ".join(problems), F.loc, F.qn, str(val)[:200], "nodal values are not honoured / affine data not reproduced",
                      key=rule + "|interpolant", witness="three value points spanning a plane; query at a vertex and at the centroid")
    else:
        rep.ok(rule, "interpolant(x_i, y_i) = v_i for i = 0,1,2 and is affine in (x, y)", F.loc, F.qn)
    # the acceptance test: the closed triangle, widened only by slack of the order of machine epsilon
    EPS = sp.Symbol("EPS", positive=True)

    def hook_eps(n):
        if n.get("k") == "CallExpr" and P.d(n.get("callee")).get("qn", "").endswith("numeric_limits<double>::epsilon"):
            return EPS
        return hook(n)
    ifs = [z for z in astq.stmts_of(F.body) if z.get("k") == "IfStmt"]
    if len(ifs) != 1:
        rep.unknown(rule, "in_triangle: %d top-level tests" % len(ifs))
    else:
        symt = norm.Sym(P, F, inline_locals=True, hook=hook_eps)
        conj = []

        nl = norm.naming_locals(P, F)

        def resolve(c):
            c = sc(c)
            while c is not None and c.get("k") == "DeclRefExpr" and c.get("r") in nl.vals:
                c = sc(nl.vals[c["r"]])
            return c

        def split(c):
            c = resolve(c)
            if c.get("k") == "BinaryOperator" and c.get("op") == "&&":
                split(c["c"][0]); split(c["c"][1])
            else:
                conj.append(c)
        # `if (accept) { ...; return true; } return false;`  or  `if (!accept) return false; ...; return true;`
        top = resolve(ifs[0]["c"][0])
        then_rets = [z for z in F.walk(ifs[0]["c"][1]) if z.get("k") == "ReturnStmt" and z.get("c")]
        rejects = bool(then_rets) and all(sc(z["c"][0]).get("k") == "CXXBoolLiteralExpr" and sc(z["c"][0]).get("v") is False for z in then_rets)
        def split_reject(c):
            """the rejecting condition !A || !B ...: the accepting one is A && B ..."""
            c = resolve(c)
            if c.get("k") == "BinaryOperator" and c.get("op") == "||":
                return split_reject(c["c"][0]) and split_reject(c["c"][1])
            if c.get("k") == "UnaryOperator" and c.get("op") == "!":
                split(c["c"][0])
                return True
            return False
        if top.get("k") == "UnaryOperator" and top.get("op") == "!" and rejects:
            split(top["c"][0])
        elif top.get("k") == "BinaryOperator" and top.get("op") == "||" and rejects:
            if not split_reject(top):
                rep.unknown(rule, "in_triangle: rejecting condition `%s` is not a disjunction of negations" % norm.render(P, top)[:80])
                conj = []
        else:
            split(top)
        margins = []       # expressions required to be >= 0
        okc = True
        for c in conj:
            if not (c.get("k") == "BinaryOperator" and c.get("op") in (">=", "<=", ">", "<")):
                okc = False
                continue
            l, r = symt(c["c"][0]), symt(c["c"][1])
            margins.append(sp.expand(l - r) if c["op"] in (">=", ">") else sp.expand(r - l))
        A = pre[6]
        V = [{x: T[(i, 0)], y: T[(i, 1)]} for i in range(3)]
        exact = [sp.expand(m_.subs(EPS, 0)) for m_ in margins]
        slack = [sp.expand(m_ - e_) for m_, e_ in zip(margins, exact)]
        # exact parts: three functions, each zero at two vertices and equal to the doubled area at the third, one per vertex
        hit = set()
        for e_ in exact:
            vals = [sp.simplify(e_.subs(v)) for v in V]
            z = [i for i, v_ in enumerate(vals) if v_ == 0]
            nz = [i for i, v_ in enumerate(vals) if v_ != 0]
            if len(z) == 2 and len(nz) == 1 and sp.simplify(vals[nz[0]] - A) == 0 and sp.Poly(e_, x, y).total_degree() <= 1:
                hit.add(nz[0])
            else:
                okc = False
        def vanishes(sl):
            try:
                return sp.simplify(sl.subs(EPS, 0)) == 0
            except Exception:
                return False
        slack_ok = all(sl == 0 or (sl.has(EPS) and vanishes(sl)) for sl in slack)
        big = []
        for sl in slack:
            if sl != 0 and sl.has(EPS) and vanishes(sl):
                try:
                    co = sp.Poly(sl, EPS).coeff_monomial(EPS)
                    num = [abs(float(c_)) for c_ in sp.Poly(sp.expand(co), *sorted(co.free_symbols, key=str)).coeffs()] if co.free_symbols else [abs(float(co))]
                except Exception:
                    # proportional to eps but with a factor that is not a polynomial in the triangle's coordinates (a division by the
                    # area, say): the slack is not bounded by a constant multiple of eps - it grows without bound for small triangles
                    try:
                        lin = sp.simplify(sl / EPS)
                        if not lin.has(EPS):
                            big.append(lin)
                            continue
                    except Exception:
                        pass
                    rep.unknown(rule, "in_triangle: tolerance `%s` is not a polynomial in machine epsilon" % str(sl)[:60])
                    continue
                if sp.Poly(sl, EPS).degree() != 1 or max(num) > 1e6:
                    big.append(co)
        if okc and hit == {0, 1, 2} and slack_ok and not big and len(margins) == 3:
            rep.ok(rule, "in_triangle accepts exactly the closed triangle (three barycentric weights >= 0) widened by slack proportional to machine epsilon", F.nloc(ifs[0]), F.qn)
        else:
            why = []
            if not (okc and hit == {0, 1, 2} and len(margins) == 3):
                why.append("with the tolerances set to zero the test is not `all three barycentric weights >= 0`")
            if not slack_ok:
                why.append("a tolerance does not vanish with machine epsilon (%s)" % "; ".join(str(sl)[:40] for sl in slack if not (sl == 0 or (sl.has(EPS) and vanishes(sl)))))
            if big:
                why.append("slack coefficient above 1e6 epsilon")
            rep.violation(rule, "in_triangle acceptance test: %s" % "; ".join(why), F.nloc(ifs[0]), F.qn, norm.render(P, ifs[0]["c"][0])[:200],
                          "points outside a triangle are interpolated (extrapolated) by it: the value leaves the range of the nodal values",
                          key=rule + "|accept", witness="value points closer together than the tolerance allows for (spherical coordinates are in radians)")
    # vertex pairing in the constructor
    R = lambda n: norm.render(P, n, nocast=True).replace(" ", "")
    okv = True
    seen = 0
    for xn in C.walk():
        if xn.get("k") == "BinaryOperator" and xn.get("op") == "=":
            l = R(xn["c"][0])
            m = re.match(r"^(?:this->)?triangles\[\(i/3\)\]\[(\d)\]\[(\d)\]$", l)
            if not m:
                continue
            seen += 1
            a, b = int(m.group(1)), int(m.group(2))
            tri = "t.triangles[i]" if a == 0 else "t.triangles[(i+%d)]" % a
            want = {0: ("t.coords[(2*%s)]" % tri,), 1: ("t.coords[((2*%s)+1)]" % tri,), 2: ("values_at_points.first[%s]" % tri,)}[b]
            if R(xn["c"][1]) not in want:
                okv = False
                rep.violation(rule, "triangle vertex %d component %d is %s" % (a, b, R(xn["c"][1])), C.nloc(xn), C.qn, norm.render(P, xn)[:120],
                              "expected %s: x, y and value of one vertex must come from the same input point" % want[0], key="%s|vertex|%d%d" % (rule, a, b),
                              witness="value points with distinct values")
    if okv and seen == 9:
        rep.ok(rule, "each triangle vertex takes coords[2k], coords[2k+1], first[k] of the same point k", C.loc, C.qn)
    elif seen != 9:
        rep.unknown(rule, "%d triangle vertex assignments (9 expected)" % seen)
    # min / max over all values
    loops = [xn for xn in C.walk() if xn.get("k") == "CXXForRangeStmt" and R(xn["c"][1]) == "values_at_points.first"]
    okm = False
    if len(loops) == 1:
        lv = loops[0]["c"][0].get("n", "value")
        body = re.sub(r"\b%s\b" % re.escape(lv), "value", R(loops[0]["c"][2]))
        okm = ("(value<minimum)" in body or "(minimum>value)" in body) and "(minimum=value)" in body and ("(value>maximum)" in body or "(maximum<value)" in body) and "(maximum=value)" in body
        inits = [xn for xn in C.walk() if xn.get("k") == "BinaryOperator" and xn.get("op") == "=" and R(xn["c"][0]) in ("minimum", "maximum", "this->minimum", "this->maximum")
                 and R(xn["c"][1]) == "values_at_points.first[0]"]
        okm = okm and len(inits) == 2
    if not okm and not loops:
        # the standard algorithms over the whole value list: minimum = *std::min_element(V.begin(), V.end()), maximum likewise
        nl_ = norm.naming_locals(P, C)
        Rs = lambda e: norm.render(P, e, nocast=True, subst=nl_).replace(" ", "")
        got = {}
        for xn in C.walk():
            if xn.get("k") == "BinaryOperator" and xn.get("op") == "=" and R(xn["c"][0]) in ("minimum", "maximum", "this->minimum", "this->maximum"):
                t_ = Rs(xn["c"][1])
                m_ = re.match(r"^\*?\(?\*?std::(min|max)_element\((.*)\.begin\(\),(.*)\.end\(\)\)\)?$", t_)
                if m_ and m_.group(2) == m_.group(3) and m_.group(2).endswith("values_at_points.first"):
                    got[R(xn["c"][0]).replace("this->", "")] = m_.group(1)
        if got == {"minimum": "min", "maximum": "max"}:
            rep.ok(rule, "minimum / maximum = *std::min_element / *std::max_element over all nodal values", C.loc, C.qn)
            return
        if got:
            pass
        else:
            rep.unknown(rule, "Surface minimum/maximum: neither the loop over values_at_points.first nor std::min_element / std::max_element over it")
            return
    if okm:
        rep.ok(rule, "minimum / maximum range over all nodal values", C.nloc(loops[0]), C.qn)
    else:
        rep.violation(rule, "Surface minimum/maximum are not the min/max over all nodal values", C.loc, C.qn, "", "pre-test bounds do not enclose the surface", key=rule + "|minmax",
                      witness="value points whose extreme value is listed last")


def point_kernels(P, rep, rule="EXPR.point"):
    """closed forms of the distance kernels of Point<dim>"""
    rep.rule(rule, "Point::distance(q) is sqrt((p0-q0)^2+(p1-q1)^2) in Cartesian and the haversine angle 2 asin(sqrt(h)), h = sin^2(dlat/2) + "
                   "sin^2(dlon/2) cos(lat_p) cos(lat_q), in spherical coordinates; cheap_relative_distance_cartesian/_spherical are the squared "
                   "Cartesian distance and h (FT::sin/FT::cos taken as sin/cos); norm_square is the sum of squares of all dim components. These are "
                   "symmetric, translation/rotation invariant resp. invariant under a common longitude shift")
    p = sp.symbols("p0 p1 p2", real=True)
    q = sp.symbols("q0 q1 q2", real=True)
    hav = sp.sin((q[1] - p[1]) / 2) ** 2 + sp.sin((q[0] - p[0]) / 2) ** 2 * sp.cos(p[1]) * sp.cos(q[1])
    cart2 = (p[0] - q[0]) ** 2 + (p[1] - q[1]) ** 2
    n = 0

    def evaluate(F, spherical):
        qk = F.params[0] if F.params else None

        def hook(nd):
            sub = astq.subscript(nd)
            if sub and sc(sub[1]).get("k") == "IntegerLiteral":
                b = sc(sub[0])
                if qk is not None and astq.is_ref_to(b, qk):
                    return q[sc(sub[1])["v"]]
                if b.get("k") == "MemberExpr" and b.get("n") == "point" and astq.is_this_field(P, b):
                    return p[sc(sub[1])["v"]]
            if nd.get("k") == "CallExpr":
                qn = P.d(nd.get("callee")).get("qn", "")
                if qn in ("WorldBuilder::FT::sin", "WorldBuilder::FT::cos") and len(nd["c"]) == 2:
                    return (sp.sin if qn.endswith("sin") else sp.cos)(B.sym(nd["c"][1]))
            if nd.get("k") == "CXXMemberCallExpr" and nd["c"][0].get("k") == "MemberExpr" and len(nd["c"]) == 2:
                # this->cheap_relative_distance_*(q): that member's own closed form is verified by this rule; use it
                me = nd["c"][0]
                onthis = not me.get("c") or sc(me["c"][0]).get("k") == "CXXThisExpr"
                if onthis and qk is not None and astq.is_ref_to(nd["c"][1], qk):
                    if me.get("n") == "cheap_relative_distance_cartesian":
                        return cart2
                    if me.get("n") == "cheap_relative_distance_spherical":
                        return hav
            return None

        def choose(c):
            t = norm.render(P, c, nocast=True).replace(" ", "")
            if "spherical" in t and "==" in t:
                return spherical
            return None
        B = Block(P, F, choose=choose, hook=hook)
        B.sym.inline_locals = True
        # straight-line: take the first return reached
        def first_return(stmts):
            for st in stmts:
                k = st.get("k")
                if k == "ReturnStmt":
                    return B.sym(st["c"][0])
                if k == "CompoundStmt":
                    r = first_return(st["c"])
                    if r is not None:
                        return r
                elif k == "IfStmt":
                    c = choose(st["c"][0])
                    if c is None:
                        raise AnalysisBroken("%s: undecided branch %s" % (F.qn, norm.render(P, st["c"][0])[:60]))
                    br = st["c"][1] if c else (st["c"][2] if len(st["c"]) > 2 else None)
                    if br is not None:
                        r = first_return([br])
                        if r is not None:
                            return r
                else:
                    B.stmt(st)
            return None
        return first_return(astq.stmts_of(F.body))

    def verdict(F, label, got, want, witness):
        nonlocal n
        n += 1
        if got is not None and eq(got, want):
            rep.ok(rule, "%s = %s" % (label, str(want)[:70]), F.loc, F.qn)
        else:
            rep.violation(rule, "%s returns %s" % (label, str(got)[:120]), F.loc, F.qn, str(got)[:200], "expected %s" % str(want)[:120],
                          key="%s|%s" % (rule, label), witness=witness)
    for F in sorted(P.funcs.values(), key=lambda f: f.key):
        if F.body is None or not re.match(r"^WorldBuilder::Point<\d>::", F.qn):
            continue
        dim = int(F.qn[len("WorldBuilder::Point<")])
        nm = F.name
        if nm == "distance":
            verdict(F, "Point<%d>::distance [cartesian]" % dim, evaluate(F, False), sp.sqrt(cart2), "an east-west trench with the dip point to its north")
            verdict(F, "Point<%d>::distance [spherical]" % dim, evaluate(F, True), 2 * sp.asin(sp.sqrt(hav)), "two points at different latitudes")
        elif nm == "cheap_relative_distance_cartesian":
            verdict(F, "Point<%d>::cheap_relative_distance_cartesian" % dim, evaluate(F, False), cart2, "points differing in y only")
        elif nm == "cheap_relative_distance_spherical":
            verdict(F, "Point<%d>::cheap_relative_distance_spherical" % dim, evaluate(F, True), hav, "points at different latitudes")
        elif nm == "norm_square":
            verdict(F, "Point<%d>::norm_square" % dim, evaluate(F, False), sum(p[i] ** 2 for i in range(dim)), "a vector with a non-zero last component")
    rep.floor(rule, n, 6, "Point kernels")


def merge_structure(P, rep, rule="MERGE"):
    rep.rule(rule, "Parameters::get(name, points): corner points enter with the default value; a user point equal (approx on both coordinates) to an "
                   "existing one overwrites THAT entry's value (index pair_i/2), any other user point appends its value and both coordinates "
                   "together; user coordinates are scaled by PI/180 exactly in spherical worlds")
    fs = [f for f in P.funcs_named("WorldBuilder::Parameters::get") if len(f.params) == 2 and "vector" in P.d(f.params[1]).get("t", "")]
    if len(fs) != 1:
        raise AnalysisBroken("Parameters::get(name, points): %d candidates" % len(fs))
    F = fs[0]
    R = lambda n: norm.render(P, n, nocast=True).replace(" ", "").replace(".push_back(", ".emplace_back(")
    miss = astq.missing_anchors(P, F, ["coordinate_pair_i", "found_same_point", "value", "coordinate_0", "coordinate_1", "result", "default_value",
                                       "addition_points", "addition_point"])
    if miss:
        rep.unknown(rule, "Parameters::get(name, points): the locals %s this rule is written over no longer exist (renamed?)" % miss)
        return
    problems = []
    # match loop
    loops = [x for x in F.walk() if x.get("k") == "ForStmt" and "coordinate_pair_i" in R(x["c"][1])]
    if len(loops) != 1:
        rep.unknown(rule, "Parameters::get(name, points): the search for an existing point is not the `for (coordinate_pair_i ...; += 2)` loop this rule is written over")
        return
    else:
        L = loops[0]
        if R(L["c"][1]) != "(coordinate_pair_i<result.second.size())" or R(L["c"][2]) not in ("(coordinate_pair_i+=2)",):
            problems.append("match loop is `%s ; %s`" % (R(L["c"][1]), R(L["c"][2])))
        conds = [x["c"][0] for x in F.walk(L["c"][3]) if x.get("k") == "IfStmt"]
        okc = False
        if conds:
            calls = [x for x in F.walk(conds[0]) if x.get("k") == "CallExpr" and P.d(x.get("callee")).get("qn", "").endswith("Utilities::approx")]
            pairs = sorted((R(c["c"][1]), R(c["c"][2])) for c in calls)
            top = sc(conds[0])
            okc = (top.get("k") == "BinaryOperator" and top.get("op") == "&&"
                   and pairs == [("result.second[(coordinate_pair_i+1)]", "coordinate_1"), ("result.second[coordinate_pair_i]", "coordinate_0")])
        if not okc:
            problems.append("same-point test is %s" % (R(conds[0])[:120] if conds else "missing"))
    ifs = [x for x in F.walk() if x.get("k") == "IfStmt" and R(x["c"][0]) == "found_same_point"]
    if len(ifs) != 1:
        problems.append("`if (found_same_point)` not found")
    else:
        then = [R(s) for s in astq.stmts_of(ifs[0]["c"][1])]
        els = [R(s) for s in astq.stmts_of(ifs[0]["c"][2])] if ifs[0]["c"][2] is not None else []
        if then != ["(result.first[(coordinate_pair_i/2)]=value)"]:
            problems.append("on a match: %s" % then)
        if els != ["result.first.emplace_back(value)", "result.second.emplace_back(coordinate_0)", "result.second.emplace_back(coordinate_1)"]:
            problems.append("on no match: %s" % els)
    # corner defaults
    corner = [x for x in F.walk() if x.get("k") == "CXXForRangeStmt" and R(x["c"][1]) == "addition_points"]
    okc = False
    for c in corner:
        body = [R(s) for s in astq.stmts_of(c["c"][2])]
        if body == ["result.first.emplace_back(default_value)", "result.second.emplace_back(addition_point[0])", "result.second.emplace_back(addition_point[1])"]:
            okc = True
    if not okc:
        problems.append("corner points are not entered as (default, x, y)")
    # an entry without points replaces the corner defaults only: result.first[0 .. addition_points.size())
    fills = []
    for x in F.walk():
        if x.get("k") == "BinaryOperator" and x.get("op") == "=" and R(x["c"][1]) == "value":
            loop = astq.enclosing(F, x, ("ForStmt", "CXXForRangeStmt", "WhileStmt"))
            if loop is None:
                continue
            sub = astq.subscript(x["c"][0])
            tgt = R(sub[0]) if sub else R(x["c"][0])
            if loop.get("k") == "ForStmt" and sub is not None and tgt == "result.first" and "coordinate_pair_i" not in R(sub[1]):
                fills.append((loop, x, "%s ; %s" % (R(loop["c"][0]) if loop["c"][0] else "", R(loop["c"][1])), R(sub[1])))
            elif loop.get("k") == "CXXForRangeStmt" and "result.first" in R(loop["c"][1]):
                fills.append((loop, x, "range-for over %s" % R(loop["c"][1]), None))
    if len(fills) != 1:
        problems.append("%d loops fill in the value of an entry without points (1 expected)" % len(fills))
    else:
        loop, x, shape, idx = fills[0]
        from .layout import forward_loop
        okf = False
        if loop.get("k") == "ForStmt":
            okl, iv, bound = forward_loop(P, F, loop)
            okf = bool(okl) and bound is not None and R(bound) == "addition_points.size()" and idx == P.d(iv).get("n")
        if not okf:
            problems.append("an entry without points overwrites `%s` (expected exactly the corner defaults, indices 0 .. addition_points.size())" % shape[:70])
    # unit conversion
    conv = [x for x in F.walk() if x.get("k") == "CompoundAssignOperator" and x.get("op") == "*=" and R(x["c"][0]) in ("coordinate_0", "coordinate_1")]
    okconv = len(conv) == 2
    for x in conv:
        for spherical in (True, False):
            def hk(n, spherical=spherical):
                if n.get("k") == "ConditionalOperator" and "natural_coordinate_system()" in norm.render(P, n["c"][0]) and "spherical" in norm.render(P, n["c"][0]):
                    return norm.Sym(P, F, inline_locals=False, hook=hk)(n["c"][1] if spherical else n["c"][2])
                if n.get("k") == "DeclRefExpr" and P.d(n["r"]).get("qn") == "WorldBuilder::Consts::PI":
                    return sp.pi
                return None
            v = norm.Sym(P, F, inline_locals=False, hook=hk, inline_consts=True)(x["c"][1])
            if not eq(v, sp.pi / 180 if spherical else sp.Integer(1)):
                okconv = False
    if not okconv:
        problems.append("user coordinates are converted by %s" % [R(x["c"][1])[:60] for x in conv])
    if problems:
        for pr in problems:
            rep.violation(rule, "Parameters::get(name, points): %s" % pr, F.loc, F.qn, "", "listed values are not honoured at their points", key="%s|%s" % (rule, pr[:30]),
                          witness="a value listed at a polygon corner and one at an interior point")
    else:
        rep.ok(rule, "corner defaults, same-point overwrite at pair_i/2, append of (value, x, y), degree conversion in spherical worlds", F.loc, F.qn)


# ------------------------------------------------------------------------------------------------ C19
def acos_clamp(P, rep, rule="ABS.acos"):
    rep.rule(rule, "great-circle distance = radius * acos(clamp(p1.p2 / radius^2)) where the clamp is the identity on [-1, 1] and absorbs "
                   "NaN: in the innermost std::min/std::max of the clamp the constant is the first argument (std::max(c, NaN) = c, std::max(NaN, c) = NaN), "
                   "so the degenerate 0/0 at radius 0 gives a finite distance")
    F = P.func("WorldBuilder::CoordinateSystems::Spherical::distance_between_points_at_same_depth")
    DOT, r, AC = sp.Symbol("DOT"), sp.Symbol("radius", positive=True), sp.Symbol("ACOS")

    def is_const(u):
        u = sc(u)
        return u.get("k") in ("FloatingLiteral", "IntegerLiteral") or (u.get("k") == "UnaryOperator" and u.get("op") == "-" and sc(u["c"][0]).get("k") in ("FloatingLiteral", "IntegerLiteral"))

    def const_val(u):
        u = sc(u)
        return float(u["v"]) if "v" in u else -float(sc(u["c"][0])["v"])

    def hook(nd):
        if nd.get("k") == "CXXOperatorCallExpr" and nd.get("op") == "*" and "Point<3>" in sc(nd["c"][0]).get("t", "") and "Point<3>" in sc(nd["c"][1]).get("t", ""):
            names = {norm.render(P, nd["c"][0], nocast=True), norm.render(P, nd["c"][1], nocast=True)}
            inits = set()
            for nm in names:
                for v in F.walk():
                    if v.get("k") == "VarDecl" and v.get("n") == nm and v.get("c"):
                        inits.add(norm.render(P, v["c"][0], nocast=True).replace(" ", ""))
            if len(names) == 2 and len(inits) == 2 and all("spherical_to_cartesian_coordinates" in i for i in inits) and any("point_1" in i for i in inits) and any("point_2" in i for i in inits):
                return DOT
        if nd.get("k") == "DeclRefExpr" and nd.get("n") == "radius":
            return r
        return None
    n = 0
    acos_nodes = [x for x in F.walk() if x.get("k") == "CallExpr" and P.d(x.get("callee")).get("qn") in ("std::acos", "acos")]
    for x in acos_nodes:
        n += 1
        e = x["c"][1]
        lo, hi = -sp.oo, sp.oo
        absorbing = True
        # follow locals
        def deref(e):
            e = sc(e)
            if e.get("k") == "DeclRefExpr" and P.d(e["r"]).get("storage") == "local":
                for v in F.walk():
                    if v.get("k") == "VarDecl" and v.get("r") == e["r"] and v.get("c"):
                        return deref(v["c"][0])
            return e
        e = deref(e)
        while e.get("k") == "CallExpr" and P.d(e.get("callee")).get("qn") in ("std::min", "std::max"):
            a, b = e["c"][1], e["c"][2]
            is_min = P.d(e["callee"])["qn"] == "std::min"
            if is_const(a):
                cst, rest = const_val(a), b
                absorbing = True      # the innermost call decides: std::min/max return their first argument when the second is NaN
            elif is_const(b):
                cst, rest = const_val(b), a
                absorbing = False
            else:
                break
            if is_min:
                hi = min(hi, cst)
            else:
                lo = max(lo, cst)
            e = deref(rest)
        inner = norm.Sym(P, F, inline_locals=True, hook=hook)(e)
        if sp.simplify(inner - DOT / r ** 2) != 0:
            rep.violation(rule, "acos is applied to %s" % str(inner)[:80], F.nloc(x), F.qn, norm.render(P, x)[:140], "expected the normalised dot product p1.p2/radius^2",
                          key=rule + "|formula", witness="two points 60 degrees apart")
            continue
        if lo == -sp.oo or hi == sp.oo:
            side = "not clamped" if (lo == -sp.oo and hi == sp.oo) else ("not clamped from below" if lo == -sp.oo else "not clamped from above")
            rep.violation(rule, "acos argument is the normalised dot product, %s" % side, F.nloc(x), F.qn, norm.render(P, x)[:140],
                          "round-off pushes p1.p2/radius^2 of (anti)parallel position vectors past +-1: acos returns NaN, and so does every distance, "
                          "age and temperature computed from it", key=rule + "|unclamped",
                          witness="two coinciding points, or a point and its antipode (a ridge on the far side of the globe)")
        elif float(lo) <= -1.0 and float(hi) >= 1.0:
            if lo != -sp.oo and hi != sp.oo and not absorbing:
                rep.violation(rule, "the clamp passes NaN through (in the innermost std::min/std::max the constant is the second argument)", F.nloc(x), F.qn, norm.render(P, x)[:140],
                              "std::max(NaN, c) and std::min(NaN, c) return NaN: at radius 0 the distance (and every temperature computed from it) is NaN",
                              key=rule + "|nan", witness="query at the centre of the sphere with depth 0 (p1.p2/radius^2 = 0/0)")
            else:
                rep.ok(rule, "acos argument clamped to [%s, %s] (identity on [-1,1]), NaN-absorbing argument order" % (lo, hi), F.nloc(x), F.qn)
        else:
            rep.violation(rule, "acos argument clamped to [%s, %s]" % (lo, hi), F.nloc(x), F.qn, norm.render(P, x)[:120],
                          "dot products outside that interval are legitimate: points more than 90 degrees apart get the wrong distance",
                          key=rule + "|clamp", witness="two points 135 degrees apart: R*pi/2 instead of R*3pi/4")
    if n == 0:
        rep.unknown(rule, "no acos in distance_between_points_at_same_depth")
        return
    # the result is radius * acos(...)
    rets = [x for x in F.walk() if x.get("k") == "ReturnStmt" and x.get("c")]

    def hook2(nd):
        if nd in acos_nodes or any(nd is a for a in acos_nodes):
            return AC
        return hook(nd)
    val = norm.Sym(P, F, inline_locals=True, hook=hook2)(rets[0]["c"][0]) if len(rets) == 1 else None
    if val is not None and sp.simplify(val - r * AC) == 0:
        rep.ok(rule, "distance = radius * acos(...)", F.loc, F.qn)
    else:
        rep.violation(rule, "great-circle distance is %s" % str(val)[:100], F.loc, F.qn, str(val)[:160], "expected radius*acos(p1.p2/radius^2)", key=rule + "|result")


def bezier_algebra(P, rep, rule="EXPR.bezier"):
    rep.rule(rule, "the cubic coefficients a, b, c, d used by the closest-point search expand to the Bernstein form of BezierCurve::operator(): "
                   "a t^3 + b t^2 + c t + d == (1-t)^3 P0 + 3(1-t)^2 t C0 + 3(1-t) t^2 C1 + t^3 P1; operator()(i,0) = points[i], (i,1) = points[i+1]")
    OP = P.func("WorldBuilder::Objects::BezierCurve::operator()")
    t = sp.Symbol("t")
    P0, P1, C0, C1 = sp.symbols("P0 P1 C0 C1")

    def hook_for(F, ivar_names):
        nl = norm.naming_locals(P, F)

        def hook(n):
            if n.get("k") == "DeclRefExpr" and n.get("r") in nl.vals:      # an alias of a curve point / control point
                h = hook(sc(nl.vals[n["r"]]))
                if h is not None:
                    return h
            s = astq.subscript(n)
            if s and sc(s[1]).get("k") == "IntegerLiteral":
                # a component of a point: the identity is checked component-agnostically
                inner = hook(sc(s[0]))
                if inner is not None and inner in (P0, P1, C0, C1):
                    return inner
            if s:
                b = sc(s[0])
                it = norm.render(P, s[1], nocast=True).replace(" ", "")
                if b.get("k") == "MemberExpr" and b.get("n") == "points":
                    if it in ivar_names:
                        return P0
                    if it in ["(%s+1)" % v for v in ivar_names]:
                        return P1
                s2 = astq.subscript(b)
                if s2 and sc(s2[0]).get("n") == "control_points" and norm.render(P, s2[1], nocast=True).replace(" ", "") in ivar_names and sc(s[1]).get("k") == "IntegerLiteral":
                    return (C0, C1)[sc(s[1])["v"]]
            return None
        return hook
    rets = [x for x in OP.walk() if x.get("k") == "ReturnStmt" and x.get("c")]
    iname = P.d(OP.params[0]).get("n")
    bern = norm.Sym(P, OP, inline_locals=False, hook=hook_for(OP, [iname]), env={OP.params[1]: t})(rets[0]["c"][0])
    want = (1 - t) ** 3 * P0 + 3 * (1 - t) ** 2 * t * C0 + 3 * (1 - t) * t ** 2 * C1 + t ** 3 * P1
    if eq(bern, want):
        rep.ok(rule, "operator()(i,t) is the cubic Bernstein form; (i,0) = P_i, (i,1) = P_(i+1)", OP.loc, OP.qn)
    else:
        rep.violation(rule, "BezierCurve::operator() returns %s" % sp.expand(bern), OP.loc, OP.qn, str(bern)[:160], "expected the cubic Bernstein polynomial",
                      key=rule + "|operator", witness="evaluate at t = 0 and t = 1")
    F = P.func("WorldBuilder::Objects::BezierCurve::closest_point_on_curve_segment")
    groups = {}
    for x in F.walk():
        if x.get("k") == "VarDecl" and x.get("n") in ("a", "b", "c", "d") and x.get("c") and "Point<2>" in x.get("t", ""):
            blk = astq.enclosing(F, x, ("CompoundStmt",))
            groups.setdefault(blk["i"], {})[x["n"]] = x
    n = 0
    for bid, g in groups.items():
        if set(g) != {"a", "b", "c", "d"}:
            continue
        n += 1
        if all(sc(v["c"][0]).get("k") == "MemberExpr" and sc(v["c"][0]).get("c") and sc(sc(v["c"][0])["c"][0]).get("k") == "DeclRefExpr" for v in g.values()):
            # the four coefficients are read out of a record computed elsewhere (a helper returning a struct): not followed
            rep.unknown(rule, "coefficients at line %s are members of a record returned by a helper; this rule reads their definitions in the "
                              "search function only" % g["a"].get("l"))
            continue
        sym = norm.Sym(P, F, inline_locals=False, hook=hook_for(F, ["cp_i"]))
        co = {k: sym(v["c"][0]) for k, v in g.items()}
        poly = co["a"] * t ** 3 + co["b"] * t ** 2 + co["c"] * t + co["d"]
        if eq(poly, want):
            rep.ok(rule, "coefficients at line %s expand to the Bernstein form" % g["a"].get("l"), F.nloc(g["a"]), F.qn)
        else:
            rep.violation(rule, "coefficients at line %s: a t^3+b t^2+c t+d - Bernstein = %s" % (g["a"].get("l"), sp.expand(poly - want)), F.nloc(g["a"]), F.qn, "",
                          "the closest-point search minimises the distance to another curve than the one operator() evaluates", key="%s|coeff|%s" % (rule, n),
                          witness="a curved trench; compare the reported point with the curve at the reported parameter")
    # scalar coefficients of the Cartesian branch: a_k, b_k, c_k, d_k for the components k = 0, 1
    sc_decl = {x["n"]: x for x in F.walk() if x.get("k") == "VarDecl" and re.match(r"^[abcd]_[01]$", x.get("n", "")) and x.get("c")}
    for kcomp in (0, 1):
        names = ["%s_%d" % (ch, kcomp) for ch in "abcd"]
        if not all(nm in sc_decl for nm in names):
            continue
        n += 1
        sym = norm.Sym(P, F, inline_locals=False, hook=hook_for(F, ["cp_i"]))
        co = [sym(sc_decl[nm]["c"][0]) for nm in names]
        poly = co[0] * t ** 3 + co[1] * t ** 2 + co[2] * t + co[3]
        if eq(poly, want):
            rep.ok(rule, "scalar coefficients a_%d..d_%d expand to the Bernstein form" % (kcomp, kcomp), F.nloc(sc_decl[names[0]]), F.qn)
        else:
            rep.violation(rule, "scalar coefficients of component %d: difference to Bernstein = %s" % (kcomp, sp.expand(poly - want)), F.nloc(sc_decl[names[0]]), F.qn, "",
                          "the Cartesian closest-point search minimises the distance to another curve", key="%s|scalar|%d" % (rule, kcomp),
                          witness="a curved Cartesian trench")
    rep.floor(rule, n, 2, "coefficient blocks")
    # the reported point is the polynomial at the reported parameter
    ests = [x for x in F.walk() if x.get("k") in ("BinaryOperator", "CXXOperatorCallExpr") and x.get("op") == "=" and norm.render(P, x["c"][0]) == "estimate_point"]
    A, Bc, Cc, Dc = sp.symbols("A B C D")
    bad = []
    for x in ests:
        env = {}
        for y in F.walk():
            if y.get("k") == "VarDecl" and y.get("n") in ("a", "b", "c", "d") and "Point<2>" in y.get("t", ""):
                env[y["r"]] = {"a": A, "b": Bc, "c": Cc, "d": Dc}[y["n"]]
        v = norm.Sym(P, F, inline_locals=False, env=env)(x["c"][1])
        free = [s_ for s_ in v.free_symbols if s_ not in (A, Bc, Cc, Dc)]
        if len(free) != 1 or not eq(v, A * free[0] ** 3 + Bc * free[0] ** 2 + Cc * free[0] + Dc):
            bad.append(x)
    if ests and not bad:
        rep.ok(rule, "%d evaluations estimate_point = a e^3 + b e^2 + c e + d" % len(ests), F.loc, F.qn)
    elif bad:
        rep.violation(rule, "estimate_point = %s" % norm.render(P, bad[0]["c"][1])[:80], F.nloc(bad[0]), F.qn, "", "the point is not evaluated from the cubic at the current parameter",
                      key=rule + "|estimate")


def bezier_record(P, rep, rule="BEZIER.record"):
    """the closest-point record is updated as a whole"""
    rep.rule(rule, "closest_point_on_curve_segment: every store to a field of the result record (distance, parametric_fraction, index, point, "
                   "normal, interpolation_fraction) sits under one accept test together with stores to all the other fields -- the reported "
                   "segment index, parameter, point and distance always describe the same candidate")
    F = P.func("WorldBuilder::Objects::BezierCurve::closest_point_on_curve_segment")
    rets = [sc(r["c"][0]) for r in F.walk() if r.get("k") == "ReturnStmt" and r.get("c")]
    rk = {r.get("r") for r in rets if r.get("k") == "DeclRefExpr"}
    if len(rk) != 1:
        rep.unknown(rule, "result variable of closest_point_on_curve_segment not identified")
        return
    rk = rk.pop()
    rec = P.d(rk).get("t", "")
    groups = {}
    for x in F.walk():
        if x.get("k") in ("BinaryOperator", "CXXOperatorCallExpr") and x.get("op") == "=":
            t = sc(x["c"][0])
            if t.get("k") == "MemberExpr" and t.get("c") and astq.is_ref_to(t["c"][0], rk):
                g = astq.enclosing(F, x, ("IfStmt",))
                groups.setdefault(g["i"] if g else None, (g, {}))[1].setdefault(t.get("n"), x)
    allf = set()
    for g, fs in groups.values():
        allf |= set(fs)
    n = 0
    for gid, (g, fs) in sorted(groups.items(), key=lambda kv: (kv[0] is None, kv[0] or 0)):
        n += 1
        missing = allf - set(fs)
        if missing:
            any_node = list(fs.values())[0]
            rep.violation(rule, "fields %s are stored under `%s` without %s" % (sorted(fs), norm.render(P, g["c"][0])[:70] if g else "no test", sorted(missing)),
                          F.nloc(any_node), F.qn, norm.render(P, any_node)[:120],
                          "part of the record is overwritten by a candidate that is not accepted: index, parameter and point disagree",
                          key="%s|%s" % (rule, "+".join(sorted(fs))), witness="a trench with three or more coordinates, query near a joint")
        else:
            rep.ok(rule, "accept block at %s stores all of %s" % (F.nloc(g) if g else "?", sorted(fs)), F.nloc(g) if g else F.loc, F.qn)
    rep.floor(rule, n, 2, "accept blocks (Cartesian and spherical)")
    # every section of the curve is examined: the loops over the sections are never left early
    nl_ = 0
    for lp in F.walk():
        if lp.get("k") == "ForStmt" and "control_points.size()" in norm.render(P, lp["c"][1], nocast=True).replace(" ", ""):
            nl_ += 1
            early = None
            for y in F.walk(lp["c"][3]):
                if y.get("k") in ("BreakStmt", "GotoStmt", "ReturnStmt"):
                    tgt = None
                    for a in F.ancestors(y):
                        if a.get("k") in ("SwitchStmt", "ForStmt", "CXXForRangeStmt", "WhileStmt", "DoStmt"):
                            if a.get("k") == "DoStmt" and a.get("m"):
                                continue
                            tgt = a
                            break
                    if y.get("k") == "ReturnStmt":
                        # the one-shot retry `return closest_point_on_curve_segment(check_point, true)` restarts the whole search
                        rv_ = sc(y["c"][0]) if y.get("c") else None
                        if rv_ is not None and rv_.get("k") == "CXXMemberCallExpr" and rv_.get("callee") == F.key:
                            continue
                    if y.get("k") != "BreakStmt" or tgt is lp:
                        early = y
            if early is not None:
                rep.violation(rule, "the loop over the curve sections is left by `%s`" % early["k"][:-4].lower(), F.nloc(early), F.qn, "",
                              "sections after that point are never examined although one of them may hold the closest point",
                              key="%s|sections-early" % rule, witness="a horseshoe-shaped trench: the far arm passes closer to the query than the near one")
            else:
                rep.ok(rule, "section loop at %s examines every section" % F.nloc(lp), F.nloc(lp), F.qn)
    if nl_ < 2:
        rep.unknown(rule, "%d loops over the curve sections (2 expected)" % nl_)
    if len(allf) < 5:
        rep.unknown(rule, "only fields %s of the record are ever stored" % sorted(allf))


def kd_structure(P, rep, rule="KD"):
    rep.rule(rule, "kd-tree search: the child on the query's side of the split is searched unconditionally, the other child is skipped only "
                   "when the split-axis difference node[axis] - query[axis] is not below the best distance; the branch test and the pruning "
                   "test use the same axis; build and search compute the same mid = (left+right)>>1; every visited node updates the minimum")
    for fname, best in (("find_closest_points_recursive", "index_distances.min_distance"), ("find_closest_point_recursive", "index_distance.distance")):
        F = P.func("WorldBuilder::KDTree::KDTree::" + fname)
        miss = astq.missing_anchors(P, F, ["check_point", "node", "y_axis", "mid", "left", "right", "distance", best.split(".")[0]])
        if miss:
            rep.unknown(rule, "%s: the names %s this rule is written over no longer exist (renamed?)" % (fname, miss))
            continue
        R = lambda n: norm.render(P, n, nocast=True).replace(" ", "")
        top = [x for x in astq.stmts_of(F.body) if x.get("k") == "IfStmt"]
        if len(top) != 1:
            rep.unknown(rule, "%s: search body shape" % F.name)
            continue
        T = top[0]
        cond = R(T["c"][0])
        if cond != "(check_point[y_axis]<node[y_axis])":
            rep.violation(rule, "branch test is %s" % cond, F.nloc(T), F.qn, cond, "expected query[axis] < node[axis]", key="%s|%s|branch" % (rule, F.name))
        problems = []
        for side, blk, near, far in (("below", T["c"][1], ("left", "(mid-1)"), ("(mid+1)", "right")), ("above", T["c"][2], ("(mid+1)", "right"), ("left", "(mid-1)"))):
            calls = [x for x in F.walk(blk) if x.get("k") == "CXXMemberCallExpr" and x.get("callee") == F.key]
            if len(calls) != 2:
                problems.append("%s branch has %d recursive calls" % (side, len(calls)))
                continue
            for c in calls:
                a = [R(z) for z in c["c"][1:]]
                rng = (a[1], a[2])
                guards = []
                for g in F.ancestors(c):
                    if g.get("k") == "IfStmt" and g is not T:
                        stack = [g["c"][0]]
                        while stack:      # `if (a) if (b)` and `if (a && b)` are the same guard
                            e = sc(stack.pop())
                            if e.get("k") == "BinaryOperator" and e.get("op") == "&&":
                                stack.extend(e["c"])
                            else:
                                guards.append(R(e))
                prune = [g for g in guards if best.split(".")[-1] in g]
                if rng == near:
                    if prune:
                        problems.append("%s branch: the near child %s is pruned by %s" % (side, rng, prune[0]))
                elif rng == far:
                    if len(prune) != 1 or prune[0] != "((node[y_axis]-check_point[y_axis])<%s)" % best:
                        problems.append("%s branch: the far child %s is guarded by %s" % (side, rng, prune or "nothing"))
                else:
                    problems.append("%s branch: recursion on %s" % (side, rng))
                if a[3] not in ("!y_axis",):
                    problems.append("%s branch: child searched on axis %s" % (side, a[3]))
            # the candidate distance is the Euclidean distance sqrt(dx^2 + dy^2): the pruning test compares it with an offset
            # along one axis, so both must be lengths (not squared lengths)
            for dv in [x for x in F.walk(blk) if x.get("k") == "VarDecl" and x.get("n") == "distance" and x.get("c")]:
                symd = norm.Sym(P, F, inline_locals=True)
                dval = symd(dv["c"][0])
                nx_, ny_, cx_, cy_ = sp.symbols("NX NY CX CY", real=True)
                def dh(nd):
                    su = astq.subscript(nd)
                    if su is not None:
                        b_ = sc(su[0]); ix = sc(su[1])
                        if b_.get("k") == "DeclRefExpr" and b_.get("n") == "node":
                            return nx_ if (ix.get("v") in (False, 0)) else ny_
                        if b_.get("k") == "DeclRefExpr" and b_.get("n") == "check_point":
                            return cx_ if (ix.get("v") in (False, 0)) else cy_
                    return None
                symd.hook = dh
                dval = symd(dv["c"][0])
                try:
                    okd = sp.simplify(dval - sp.sqrt((nx_ - cx_) ** 2 + (ny_ - cy_) ** 2)) == 0
                except Exception:
                    okd = False
                if not okd:
                    problems.append("%s branch: the candidate distance is %s, not sqrt(dx^2+dy^2) (the pruning test compares it with an axis offset)" % (side, str(dval)[:60]))
            upd = [x for x in F.walk(blk) if x.get("k") == "IfStmt" and R(x["c"][0]) in ("(%s>distance)" % best, "(distance<%s)" % best)]
            if len(upd) != 1:
                problems.append("%s branch: minimum update missing" % side)
        mids = [x for x in F.walk() if x.get("k") == "VarDecl" and x.get("n") == "mid" and x.get("c")]
        B = P.func("WorldBuilder::KDTree::KDTree::create_tree")
        midb = [x for x in B.walk() if x.get("k") == "VarDecl" and x.get("n") == "mid" and x.get("c")]

        def range_roles(G):
            # the two size_t range parameters, in declaration order: lower and upper end of the node range
            ks = [pk for pk in G.params if (P.d(pk).get("t") or "").replace("const ", "").strip() in ("size_t", "std::size_t", "unsigned long")]
            return norm.Subst(bind={ks[0]: "LO", ks[1]: "HI"}) if len(ks) >= 2 else None
        RR = lambda G, n_: norm.render(P, n_, nocast=True, subst=range_roles(G)).replace(" ", "")
        if not (len(mids) == 1 and len(midb) == 1 and RR(F, mids[0]["c"][0]) == RR(B, midb[0]["c"][0])):
            problems.append("build and search compute different mid: %s vs %s" % (R(midb[0]["c"][0]) if midb else "?", R(mids[0]["c"][0]) if mids else "?"))
        if problems:
            for pr in problems:
                rep.violation(rule, "kd-tree search %s: %s" % (F.name, pr), F.loc, F.qn, "", "the search may miss the nearest centroid", key="%s|%s|%s" % (rule, F.name, pr[:40]),
                              witness="point set in which the nearest point lies across the split plane")
        else:
            rep.ok(rule, "%s: near child unconditional, far child pruned on the split-axis difference, same mid in build and search" % F.name, F.loc, F.qn)


def conversion_roundtrip(P, rep, rule="EXPR.conversion"):
    rep.rule(rule, "spherical_to_cartesian(cartesian_to_spherical(p)) == p as an algebraic identity for every p off the polar axis (r > 0): "
                   "radius = |p|, longitude = atan2(y, x), latitude = pi/2 - acos(z/r), and back x = r cos(lat) cos(lon), y = r cos(lat) sin(lon), "
                   "z = r sin(lat)")
    C2S = P.func("WorldBuilder::Utilities::cartesian_to_spherical_coordinates")
    S2C = P.func("WorldBuilder::Utilities::spherical_to_cartesian_coordinates")
    x, y, z = sp.symbols("x y z", positive=True)
    pk = C2S.params[0]

    def hook1(n):
        s = astq.subscript(n)
        if s and astq.is_ref_to(s[0], pk) and sc(s[1]).get("k") == "IntegerLiteral":
            return (x, y, z)[sc(s[1])["v"]]
        if n.get("k") == "CXXMemberCallExpr" and n["c"][0].get("n") == "norm" and astq.is_ref_to(n["c"][0]["c"][0], pk):
            return sp.sqrt(x * x + y * y + z * z)
        if n.get("k") == "DeclRefExpr" and P.d(n["r"]).get("qn") == "WorldBuilder::Consts::PI":
            return sp.pi
        return None
    B = Block(P, C2S, choose=lambda c: True, hook=hook1)
    B.run(astq.stmts_of(C2S.body))
    ret = [r for r in C2S.walk() if r.get("k") == "ReturnStmt" and r.get("c")]
    rk = sc(ret[0]["c"][0]).get("r") if ret else None
    sph = [B.state.get(("elem", ("v", rk), i)) for i in range(3)]
    if any(v is None for v in sph):
        rep.unknown(rule, "cartesian_to_spherical_coordinates: components not recognised")
        return
    want_s = [sp.sqrt(x * x + y * y + z * z), sp.atan2(y, x), sp.pi / 2 - sp.acos(z / sp.sqrt(x * x + y * y + z * z))]
    bad = [i for i in range(3) if not eq(sph[i], want_s[i])]
    if bad:
        rep.violation(rule, "cartesian_to_spherical_coordinates: component(s) %s are %s" % (bad, [str(sph[i]) for i in bad]), C2S.loc, C2S.qn, "",
                      "expected (|p|, atan2(y,x), pi/2 - acos(z/|p|))", key=rule + "|c2s", witness="any point off the axes")
    else:
        rep.ok(rule, "cartesian_to_spherical = (|p|, atan2(y,x), pi/2 - acos(z/|p|))", C2S.loc, C2S.qn)
    sk = S2C.params[0]

    def hook2(n):
        s = astq.subscript(n)
        if s and astq.is_ref_to(s[0], sk) and sc(s[1]).get("k") == "IntegerLiteral":
            return sph[sc(s[1])["v"]]
        if n.get("k") == "DeclRefExpr" and P.d(n["r"]).get("qn") == "WorldBuilder::Consts::PI":
            return sp.pi
        return None
    sym = norm.Sym(P, S2C, inline_locals=True, hook=hook2)
    ret = [r for r in S2C.walk() if r.get("k") == "ReturnStmt" and r.get("c")]
    ctor = sc(ret[0]["c"][0]) if ret else None
    while ctor is not None and ctor.get("k") in ("CXXConstructExpr", "CXXTemporaryObjectExpr") and len(ctor.get("c", [])) == 1:
        ctor = sc(ctor["c"][0])
    if ctor is None or ctor.get("k") not in ("CXXConstructExpr", "CXXTemporaryObjectExpr") or len(ctor["c"]) < 3:
        rep.unknown(rule, "spherical_to_cartesian_coordinates: returned Point not recognised")
        return
    back = [sp.simplify(sym(ctor["c"][i])) for i in range(3)]
    bad = [i for i in range(3) if sp.simplify(back[i] - (x, y, z)[i]) != 0]
    if bad:
        rep.violation(rule, "round trip: component(s) %s come back as %s" % (bad, [str(back[i])[:80] for i in bad]), S2C.loc, S2C.qn, "",
                      "spherical_to_cartesian(cartesian_to_spherical(p)) != p", key=rule + "|roundtrip", witness="any point off the axes")
    else:
        rep.ok(rule, "spherical_to_cartesian(cartesian_to_spherical(x,y,z)) == (x,y,z) identically (first octant representative, r > 0)", S2C.loc, S2C.qn)


# ------------------------------------------------------------------------------------------------ C19
def _numeric_zero(expr, digits=30, trials=5):
    """expr == 0 at `trials` random points (every free symbol and every uninterpreted application gets a random value)"""
    import random
    import mpmath
    rnd = random.Random(20260930)
    apps = sorted({a for a in expr.atoms(sp.Function) if a.func.__name__ in ("at",) or isinstance(a.func, sp.core.function.UndefinedFunction)}, key=str)
    expr = expr.xreplace({a: sp.Symbol("app%d" % i, real=True) for i, a in enumerate(apps)})
    syms = sorted(expr.free_symbols, key=str)
    worst = 0
    for _ in range(trials):
        vals = {s: sp.Float(rnd.uniform(0.2, 1.3), digits) for s in syms}
        v = sp.N(expr.xreplace(vals), digits)
        try:
            m = abs(complex(v))
        except Exception:
            return False, "not numeric: %s" % str(v)[:60]
        worst = max(worst, m)
        if m > 10.0 ** (-(digits - 8)):
            return False, "residual %.3g at %s" % (m, {str(k): round(float(x), 3) for k, x in list(vals.items())[:6]})
    return True, "residual <= %.1g at %d random points" % (worst, trials)


def newton_objective(P, rep, rule="NEWTON.objective"):
    """what BezierCurve::closest_point_on_curve_segment minimises is the distance to the point it reports"""
    from .veceval import env_before
    rep.rule(rule, "BezierCurve::closest_point_on_curve_segment: with p(t) the point stored in the result, the quantity H compared with the best "
                   "value so far is the squared distance |p(t) - q|^2 (Cartesian) or the haversine of the great-circle distance "
                   "sin^2(dlat/2) + cos(lat_q) cos(lat_p(t)) sin^2(dlon/2) (spherical) between p(t) and the check point q; the Newton step is "
                   "H'(t)/|H''(t)| for that same H; every value the line search compares is H at the trial parameter")
    F = P.func("WorldBuilder::Objects::BezierCurve::closest_point_on_curve_segment")
    t = sp.Symbol("t", real=True)
    # the parameter of the curve: the local stored to .parametric_fraction; trial parameters (assigned est - update*line_search) share the symbol
    est_keys = set()
    for x in F.walk():
        if x.get("k") in ("BinaryOperator", "CXXOperatorCallExpr") and x.get("op") == "=" and sc(x["c"][-2]).get("k") == "MemberExpr" \
                and sc(x["c"][-2]).get("n") == "parametric_fraction" and sc(x["c"][-1]).get("k") == "DeclRefExpr":
            est_keys.add(sc(x["c"][-1])["r"])
    if not est_keys:
        raise AnalysisBroken("%s: parameter local not identified" % F.qn)
    trial = set()
    for x in F.walk():
        if x.get("k") == "VarDecl" and x.get("c") and x.get("t", "").replace("const ", "") == "double":
            ini = sc(x["c"][0])
            if ini.get("k") == "BinaryOperator" and ini.get("op") == "-" and any(astq.is_ref_to(sc(ini["c"][0]), e_) for e_ in est_keys):
                trial.add(x["r"])
    seed = {e_: t for e_ in est_keys}
    for k_ in trial:
        seed[k_] = t
    # accept sites: if (H < best) with best the local initialised to infinity
    best = [x["r"] for x in F.walk() if x.get("k") == "VarDecl" and x.get("c") and "infinity" in norm.render(P, x["c"][0])]
    if len(best) != 1:
        raise AnalysisBroken("%s: best-so-far local not identified (%d)" % (F.qn, len(best)))
    best = best[0]
    sites = []
    for c in F.walk():
        if not (c.get("k") == "BinaryOperator" and c.get("op") in ("<", "<=") and astq.is_ref_to(sc(c["c"][1]), best)):
            continue
        # the if statement it decides: directly in the condition, or through a named bool used in one
        g = None
        for a in F.ancestors(c):
            if a.get("k") == "IfStmt" and any(y is c for y in F.walk(a["c"][0])):
                g = a
                break
            if a.get("k") == "VarDecl" and "bool" in (a.get("t") or ""):
                for y in F.walk():
                    if y.get("k") == "IfStmt" and any(z.get("k") == "DeclRefExpr" and z.get("r") == a["r"] for z in F.walk(y["c"][0])) \
                            and any(z.get("k") == "MemberExpr" and z.get("n") == "point" for z in F.walk(y["c"][1])):
                        g = y
                        break
                break
        if g is not None:
            sites.append((g, c))
    rep.floor(rule, len(sites), 2, "accept tests (Cartesian and spherical)")

    def system_of(node):
        for a in F.ancestors(node):
            if a.get("k") == "IfStmt" and "cartesian" in norm.render(P, a["c"][0]) and "==" in norm.render(P, a["c"][0]):
                if any(y is node for y in F.walk(a["c"][1])):
                    return "cartesian"
                return "spherical"
        return None

    def definition(system, pt, q):
        if system == "cartesian":
            return (pt[0] - q[0]) ** 2 + (pt[1] - q[1]) ** 2
        return sp.sin((pt[1] - q[1]) / 2) ** 2 + sp.cos(q[1]) * sp.cos(pt[1]) * sp.sin((pt[0] - q[0]) / 2) ** 2
    # the check point: the Point<2> parameter (and its reference alias)
    qk = [p for p in F.params if "Point<2>" in (P.d(p).get("t") or "")]
    if len(qk) != 1:
        raise AnalysisBroken("%s: check point parameter not identified" % F.qn)
    Q = (sp.Symbol("q_lon", real=True), sp.Symbol("q_lat", real=True))
    seed[qk[0]] = Q
    for x in F.walk():
        if x.get("k") == "VarDecl" and x.get("c") and "&" in (x.get("t") or "") and astq.is_ref_to(sc(x["c"][0]), qk[0]):
            seed[x["r"]] = Q
    Hdef = {}
    for g, c in sites:
        system = system_of(g)
        if system is None:
            rep.unknown(rule, "accept test at %s is not under a coordinate-system test" % F.nloc(g))
            continue
        stores = [x for x in F.walk(g["c"][1]) if x.get("k") in ("BinaryOperator", "CXXOperatorCallExpr") and x.get("op") == "="
                  and sc(x["c"][-2]).get("k") == "MemberExpr" and sc(x["c"][-2]).get("n") == "point"]
        if len(stores) != 1:
            rep.unknown(rule, "%s accept site: %d stores to the result point" % (system, len(stores)))
            continue
        try:
            pt = env_before(P, F, stores[0], seed=seed).ev(stores[0]["c"][-1])
            cstmt = c
            for a in F.ancestors(c):
                if F.parent.get(a["i"]) is not None and F.parent[a["i"]].get("k") == "CompoundStmt":
                    cstmt = a
                    break
            Hacc = env_before(P, F, cstmt if cstmt is not c else g, seed=seed).ev(c["c"][0])
        except AnalysisBroken as e:
            rep.unknown(rule, "%s accept site: %s" % (system, e))
            continue
        if not (isinstance(pt, tuple) and len(pt) == 2):
            rep.unknown(rule, "%s accept site: reported point has no component form" % system)
            continue
        H = definition(system, pt, Q)
        Hdef[system] = Hacc       # the steps and the line search are judged against the value that is accepted
        ok, why = _numeric_zero(Hacc - H)
        inst = "%s: accepted value `%s`" % (system, norm.render(P, c["c"][0])[:60])
        if ok:
            rep.ok(rule, inst + " is the %s between the reported point and the check point (%s)" % (
                "squared distance" if system == "cartesian" else "haversine", why), F.nloc(g), F.qn)
        else:
            rep.violation(rule, inst + " is not the %s between the reported point and the check point" % (
                "squared distance" if system == "cartesian" else "haversine of the great-circle distance"), F.nloc(g), F.qn,
                str(Hacc)[:200], "the candidate that wins the comparison is not the curve point nearest to the check point (%s)" % why,
                key="%s|%s|accept" % (rule, system),
                witness="an oblique trench at latitude 60: the reported closest point is several per cent farther away than the nearest curve point"
                if system == "spherical" else "a point off a curved trench")
    # every part of the curve is a candidate: nothing leaves an iteration of the loop over the parts before its accept test
    for g, c in sites:
        seg_loop = astq.enclosing(F, g, ("ForStmt", "CXXForRangeStmt", "WhileStmt"))
        if seg_loop is None:
            rep.unknown(rule, "accept test at %s is not inside a loop over the curve parts" % F.nloc(g))
            continue
        skips = []
        for y in F.walk(seg_loop):
            if y.get("k") in ("ContinueStmt", "BreakStmt") and (y.get("l") or 0) < (g.get("l") or 0):
                inner = astq.enclosing(F, y, astq.LOOPS + ("SwitchStmt",))
                if inner is seg_loop:
                    skips.append(y)
            if y.get("k") == "ReturnStmt" and (y.get("l") or 0) < (g.get("l") or 0) and not any(
                    z.get("k") in ("CallExpr", "CXXMemberCallExpr") and z.get("callee") == F.key for z in F.walk(y)):
                skips.append(y)
        system = system_of(g) or "?"
        if skips:
            rep.violation(rule, "%s: the loop over the curve parts is left by `%s` before the accept test" % (system, norm.render(P, skips[0])[:40]),
                          F.nloc(skips[0]), F.qn, norm.render(P, F.parent.get(skips[0]["i"]) or skips[0])[:160],
                          "a part of the curve is not searched: the nearest point may lie on it", key="%s|%s|skip" % (rule, system),
                          witness="a point almost equidistant to two parts of the curve, the later one bulging towards it")
        else:
            rep.ok(rule, "%s: every part of the curve reaches the accept test" % system, F.nloc(seg_loop), F.qn)
    # Newton steps: update = clamp(num / den)
    nsteps = 0
    for x in F.walk():
        if not (x.get("k") == "CallExpr" and P.d(x.get("callee")).get("qn") == "std::min"):
            continue
        mx = [y for y in F.walk(x) if y.get("k") == "CallExpr" and P.d(y.get("callee")).get("qn") == "std::max"]
        if not mx:
            continue
        div = [y for y in F.walk(mx[0]) if y.get("k") == "BinaryOperator" and y.get("op") == "/"]
        if not div:
            continue
        system = system_of(x)
        if system not in Hdef:
            continue
        nsteps += 1
        stmt = x
        for a in F.ancestors(x):
            if F.parent.get(a["i"]) is not None and F.parent[a["i"]].get("k") == "CompoundStmt":
                stmt = a
                break
        if F.parent.get(x["i"]) is not None and F.parent[x["i"]].get("k") == "CompoundStmt":
            stmt = x
        try:
            ve = env_before(P, F, stmt, seed=seed)
            num, den = ve.ev(div[0]["c"][0]), ve.ev(div[0]["c"][1])
        except AnalysisBroken as e:
            rep.unknown(rule, "%s Newton step: %s" % (system, e))
            continue
        if not (getattr(num, "has", None) and num.has(t)):
            nsteps -= 1       # the start estimate (a clamped projection), not a Newton step
            continue
        H = Hdef[system]
        d1, d2 = sp.diff(H, t), sp.diff(H, t, 2)
        ok1, why1 = _numeric_zero(num - d1)
        ok2, why2 = _numeric_zero(den - sp.Abs(d2))
        if not ok2:
            ok2b, _ = _numeric_zero(den ** 2 - d2 ** 2)
            ok2 = ok2b and den.func == sp.Abs
        if ok1 and ok2:
            rep.ok(rule, "%s: Newton step is H'/|H''| of that H (%s)" % (system, why1), F.nloc(x), F.qn)
        else:
            rep.violation(rule, "%s: Newton step %s is not H'/|H''| of the accepted H (%s)" % (
                system, norm.render(P, div[0])[:70], "numerator: " + why1 if not ok1 else "denominator: " + why2), F.nloc(x), F.qn, norm.render(P, div[0])[:160],
                "the iteration converges to a stationary point of a different function than the one compared at the end",
                key="%s|%s|step" % (rule, system), witness="a point off a curved trench")
    rep.floor(rule, nsteps, 2, "Newton steps")
    # line search: every comparison operand that is an objective value
    nls = 0
    for system, H in Hdef.items():
        seen = set()
        for x in F.walk():
            if x.get("k") not in ("VarDecl", "BinaryOperator") or system_of(x) != system:
                continue
            if x.get("k") == "VarDecl":
                if not x.get("c"):
                    continue
                rhs, st, key = x["c"][0], F.parent.get(x["i"]), x["r"]
            else:
                if x.get("op") != "=" or sc(x["c"][0]).get("k") != "DeclRefExpr":
                    continue
                rhs, st, key = x["c"][1], x, sc(x["c"][0])["r"]
            txt = norm.render(P, rhs)
            # an objective evaluation squares the two offsets: sin(.)*sin(.) twice, or two squared differences
            r0 = sc(rhs)
            if r0.get("k") != "BinaryOperator" or r0.get("op") != "+" or astq.enclosing(F, x, ("ForStmt",)) is None:
                continue
            try:
                val = env_before(P, F, st, seed=seed).ev(rhs)
            except AnalysisBroken:
                continue
            if isinstance(val, tuple) or not val.has(t):
                continue
            # same shape as H: a sum of two squares in the offsets -- decided by degree of homogeneity is too fragile; compare directly and
            # report only values that flow into a comparison with another objective value
            ok, why = _numeric_zero(val - H)
            if ok:
                seen.add(key)
                nls += 1
                rep.ok(rule, "%s: `%s = %s` evaluates H" % (system, P.d(key).get("n"), txt[:50]), F.nloc(x), F.qn)
            else:
                cmp_with_obj = False
                for y in F.walk():
                    if y.get("k") == "IfStmt":
                        if any(z.get("k") == "DeclRefExpr" and z.get("r") == key for z in F.walk(y["c"][0])):
                            cmp_with_obj = True
                if cmp_with_obj and _looks_like_objective(val, t):
                    nls += 1
                    rep.violation(rule, "%s: `%s = %s` is compared as an objective value but is not H (%s)" % (system, P.d(key).get("n"), txt[:50], why),
                                  F.nloc(x), F.qn, txt[:160], "the line search compares values of a different function",
                                  key="%s|%s|linesearch|%s" % (rule, system, P.d(key).get("n")), witness="a point far from a strongly curved trench")
    rep.floor(rule, nls, 4, "objective evaluations in the Newton loops")


def _looks_like_objective(val, t):
    """a sum whose terms are squares/products of offsets -- no derivative coefficient pattern: H-like values are even-degree forms"""
    return val.is_Add and len(val.args) == 2 and all(a.is_Pow or a.is_Mul for a in val.args)
